# Spike S11b: same VCs as S11 but sequences are (length: Int, at: Int -> Tok) pairs; concatenation is a piecewise index
# definition; sequence equality is skolemised extensionality.  Pure UF + linear integer arithmetic, quantifier-free.
import z3, time, itertools
Tok = z3.DeclareSort('Tok'); I = z3.IntSort()
IF, THEN, WITH, W = z3.Consts('IF THEN WITH Wtok', Tok)
cnt = itertools.count()
class S:   # symbolic sequence
    def __init__(s, ln, at): s.len, s.at = ln, at
def sym(name):
    f = z3.Function(name, I, Tok); return S(z3.Int(name + '.len'), lambda p: f(p))
def unit(t): return S(z3.IntVal(1), lambda p: t)
def empty(): return S(z3.IntVal(0), lambda p: IF)
def cat(*xs):
    def at(p):
        off = z3.IntVal(0); e = xs[-1].at(p - sum([x.len for x in xs[:-1]], z3.IntVal(0)))
        offs = [sum([x.len for x in xs[:k]], z3.IntVal(0)) for k in range(len(xs))]
        for x, o in reversed(list(zip(xs[:-1], offs[:-1]))): e = z3.If(p < o + x.len, x.at(p - o), e)
        return e
    return S(sum([x.len for x in xs], z3.IntVal(0)), at)
def app(x, t): return cat(x, unit(t))
def prefix(x, k): return S(k, x.at)
def ite(c, a, b): return S(z3.If(c, a.len, b.len), lambda p: z3.If(c, a.at(p), b.at(p)))
def eq_hyp(a, b, at_points):   # use an equality hypothesis: lengths equal + elements equal at the given ground points
    return [a.len == b.len] + [z3.Implies(z3.And(p >= 0, p < a.len), a.at(p) == b.at(p)) for p in at_points]
def eq_goal(a, b, tag):        # prove an equality: lengths equal and elements equal at a fresh skolem point
    p = z3.Int(f'p*{tag}'); return z3.And(a.len == b.len, z3.Implies(z3.And(p >= 0, p < a.len), a.at(p) == b.at(p))), p
A, C = sym('A'), sym('C'); has_w = z3.Bool('has_weight')
toks = cat(unit(IF), A, unit(THEN), C, ite(has_w, cat(unit(WITH), unit(W)), empty()))
n, la, lc = toks.len, A.len, C.len
pre = [z3.Distinct(IF, THEN, WITH), la >= 1, lc >= 1]
i = z3.Int('i'); state = z3.Int('state'); ant, con = sym('antecedent'), sym('consequent'); wt = z3.Const('weight_tok', Tok); wset = z3.Bool('weight_set')
S_BEGIN, S_IF, S_THEN, S_WITH, S_END = range(5)
def no_kw_at(i): return [z3.Implies(z3.And(i-1 >= 0, i-1 < la), A.at(i-1) != THEN), z3.Implies(z3.And(i-la-2 >= 0, i-la-2 < lc), C.at(i-la-2) != WITH)]
def inv(i, state, ant, con, wset, wt, mode, pts=()):
    """mode 'hyp': list of facts with equalities instantiated at pts; mode 'goal': one formula with skolem points"""
    cases = [
        (S_BEGIN, [i == 0, z3.Not(wset)], [(ant, empty()), (con, empty())]),
        (S_IF, [i >= 1, i <= 1 + la, z3.Not(wset)], [(ant, prefix(A, i - 1)), (con, empty())]),
        (S_THEN, [i >= 2 + la, i <= 2 + la + lc, z3.Not(wset)], [(ant, A), (con, prefix(C, i - 2 - la))]),
        (S_WITH, [has_w, i == 3 + la + lc, z3.Not(wset)], [(ant, A), (con, C)]),
        (S_END, [has_w, i == 4 + la + lc, wset, wt == W], [(ant, A), (con, C)])]
    disj = []
    for st_, facts, eqs in cases:
        if mode == 'hyp': f = facts + [x for a, b in eqs for x in eq_hyp(a, b, pts)]
        else: f = facts + [eq_goal(a, b, f'{st_}{k}')[0] for k, (a, b) in enumerate(eqs)]
        disj.append(z3.And(state == st_, *f))
    return z3.And(i >= 0, i <= n, z3.Or(*disj))
def body(i, state, ant, con, wset, wt, variant):
    tok = toks.at(i); out = []
    out.append((z3.And(state == S_BEGIN, tok == IF), (S_IF, ant, con, wset, wt)))
    out.append((z3.And(state == S_BEGIN, tok != IF), 'raise'))
    out.append((z3.And(state == S_IF, tok == THEN), (S_THEN, ant, con, wset, wt)))
    out.append((z3.And(state == S_IF, tok != THEN), (S_IF, app(ant, tok), con, wset, wt)))
    out.append((z3.And(state == S_THEN, tok == WITH), (S_WITH, ant, con if variant == 'real' else app(con, tok), wset, wt)))
    out.append((z3.And(state == S_THEN, tok != WITH), (S_THEN, ant, app(con, tok), wset, wt)))
    out.append((state == S_WITH, (S_END, ant, con, z3.BoolVal(True), tok)))
    out.append((state == S_END, 'raise'))
    return out
def check(name, hyps, goal, to=60000):
    s = z3.Solver(); s.set('timeout', to); s.add(*hyps); s.add(z3.Not(goal)); t = time.time(); r = s.check()
    print(f'  {name:66s}', 'proved' if r == z3.unsat else r, f'{time.time()-t:.2f}s'); return r
for variant in ('real', 'with-leaks-into-consequent'):
    print(variant)
    check('inv.init', pre, inv(z3.IntVal(0), z3.IntVal(S_BEGIN), empty(), empty(), z3.BoolVal(False), wt, 'goal'))
    # skolem points of the goal's equalities are the instantiation points of the hypothesis' equalities (one round, DESIGN 5.6)
    pts = [z3.Int(f'p*{st_}{k}') for st_ in range(5) for k in range(2)]
    hy = pre + [i >= 0, i < n, inv(i, state, ant, con, wset, wt, 'hyp', pts)] + no_kw_at(i)
    for k, (pc, post) in enumerate(body(i, state, ant, con, wset, wt, variant)):
        if post == 'raise': check(f'path {k}: raise unreachable on a well-formed text', hy + [pc], z3.BoolVal(False))
        else: check(f'path {k}: inv.preserved', hy + [pc], inv(i + 1, z3.IntVal(post[0]), post[1], post[2], post[3], post[4], 'goal'))
    g1, p1 = eq_goal(ant, A, 'x1'); g2, p2 = eq_goal(con, C, 'x2')
    check('exit: antecedent == A, consequent == C, weight token == W iff printed', pre + [inv(n, state, ant, con, wset, wt, 'hyp', [p1, p2])],
          z3.And(g1, g2, z3.Or(z3.And(state == S_THEN, z3.Not(has_w)), z3.And(state == S_END, has_w, wt == W))))
