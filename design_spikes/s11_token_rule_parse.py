# Spike S11: token-level VC for  Rule.parse(Rule.text) : tokens = [if] ++ A ++ [then] ++ C ++ ([with, w] | [])
# loop `for token in rule.split()` with the 5-state machine of rule.py:771; invariant = map state -> predicate (DESIGN 3.3).
import z3, time
Tok = z3.DeclareSort('Tok'); SeqT = z3.SeqSort(Tok)
IF, THEN, WITH, W = z3.Consts('IF THEN WITH Wtok', Tok)
A, C = z3.Consts('A C', SeqT)
has_w = z3.Bool('has_weight')
toks = z3.Concat(z3.Unit(IF), A, z3.Unit(THEN), C, z3.If(has_w, z3.Concat(z3.Unit(WITH), z3.Unit(W)), z3.Empty(SeqT)))
n = z3.Length(toks); la, lc = z3.Length(A), z3.Length(C)
j = z3.Int('j')
pre = [z3.Distinct(IF, THEN, WITH), la >= 1, lc >= 1,
       # hypothesis of the round trip: antecedent tokens contain no `then`, consequent tokens no `with`  (instantiated at the index looked at)
       ]
def no_kw_at(i):  # ground instances of: forall p. A[p] != THEN ; C[p] != WITH
    return [z3.Implies(z3.And(i-1 >= 0, i-1 < la), A[i-1] != THEN), z3.Implies(z3.And(i-la-2 >= 0, i-la-2 < lc), C[i-la-2] != WITH)]
# program variables at loop head, iteration index i (token = toks[i])
i = z3.Int('i'); state = z3.Int('state'); ant, con = z3.Consts('antecedent consequent', SeqT); wt = z3.Const('weight_tok', Tok); wset = z3.Bool('weight_set')
S_BEGIN, S_IF, S_THEN, S_WITH, S_END = range(5)
def inv(i, state, ant, con, wset, wt):
    return z3.And(i >= 0, i <= n, z3.Or(
        z3.And(state == S_BEGIN, i == 0, ant == z3.Empty(SeqT), con == z3.Empty(SeqT), z3.Not(wset)),
        z3.And(state == S_IF, i >= 1, i <= 1 + la, ant == z3.Extract(A, 0, i - 1), con == z3.Empty(SeqT), z3.Not(wset)),
        z3.And(state == S_THEN, i >= 2 + la, i <= 2 + la + lc, ant == A, con == z3.Extract(C, 0, i - 2 - la), z3.Not(wset)),
        z3.And(state == S_WITH, has_w, i == 3 + la + lc, ant == A, con == C, z3.Not(wset)),
        z3.And(state == S_END, has_w, i == 4 + la + lc, ant == A, con == C, wset, wt == W)))
def body(i, state, ant, con, wset, wt, variant):
    """one iteration of the real loop body (hand-transcribed for the spike; the framework executes the AST). returns list of (path cond, post-state | 'raise')"""
    tok = toks[i]; out = []
    out.append((z3.And(state == S_BEGIN, tok == IF), (S_IF, ant, con, wset, wt)))
    out.append((z3.And(state == S_BEGIN, tok != IF), 'raise'))
    out.append((z3.And(state == S_IF, tok == THEN), (S_THEN, ant, con, wset, wt)))
    out.append((z3.And(state == S_IF, tok != THEN), (S_IF, z3.Concat(ant, z3.Unit(tok)), con, wset, wt)))
    if variant == 'real':
        out.append((z3.And(state == S_THEN, tok == WITH), (S_WITH, ant, con, wset, wt)))
        out.append((z3.And(state == S_THEN, tok != WITH), (S_THEN, ant, z3.Concat(con, z3.Unit(tok)), wset, wt)))
    else:  # mutant: `with` is appended to the consequent as well
        out.append((z3.And(state == S_THEN, tok == WITH), (S_WITH, ant, z3.Concat(con, z3.Unit(tok)), wset, wt)))
        out.append((z3.And(state == S_THEN, tok != WITH), (S_THEN, ant, z3.Concat(con, z3.Unit(tok)), wset, wt)))
    out.append((state == S_WITH, (S_END, ant, con, z3.BoolVal(True), tok)))
    out.append((state == S_END, 'raise'))
    return out
def check(name, hyps, goal, to=60000):
    s = z3.Solver(); s.set('timeout', to); s.add(*hyps); s.add(z3.Not(goal)); t = time.time(); r = s.check()
    print(f'  {name:66s}', 'proved' if r == z3.unsat else r, f'{time.time()-t:.2f}s'); return r
for variant in ('real', 'with-leaks-into-consequent'):
    print(variant)
    check('inv.init', pre, inv(z3.IntVal(0), z3.IntVal(S_BEGIN), z3.Empty(SeqT), z3.Empty(SeqT), z3.BoolVal(False), wt))
    hy = pre + [i >= 0, i < n, inv(i, state, ant, con, wset, wt)] + no_kw_at(i)
    for k, (pc, post) in enumerate(body(i, state, ant, con, wset, wt, variant)):
        if post == 'raise':
            check(f'path {k}: no SyntaxError on a well-formed text (raise unreachable)', hy + [pc], z3.BoolVal(False))
        else:
            check(f'path {k}: inv.preserved', hy + [pc], inv(i + 1, *[z3.IntVal(post[0])] + list(post[1:])))
    # after the loop: state in {S_THEN, S_END}, recovered parts equal the printed ones
    check('exit: antecedent == A, consequent == C, weight token == W iff printed', pre + [inv(n, state, ant, con, wset, wt)],
          z3.And(ant == A, con == C, z3.Or(z3.And(state == S_THEN, z3.Not(has_w)), z3.And(state == S_END, has_w, wt == W))))
