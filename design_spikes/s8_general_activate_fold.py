# Spike S8: General.activate loop invariant with state-dependent degrees (output variables in antecedents).
# Heap field fuzzy.terms is one z3 Array  T : Ref -> Seq(Act).  Spec state(k) is defined by a fold over rules.
import z3, time
Ref = z3.DeclareSort('Ref'); Val = z3.DeclareSort('Val')
Act = z3.Datatype('Act'); Act.declare('mk', ('term',Ref), ('degree',Val), ('impl',Ref)); Act = Act.create()
SeqAct = z3.SeqSort(Act); SeqRef = z3.SeqSort(Ref); TMap = z3.ArraySort(Ref, SeqAct)
I = z3.IntSort(); B = z3.BoolSort()
rules = z3.Const('rules', SeqRef); impl = z3.Const('impl', Ref); conj = z3.Const('conj', Ref); disj = z3.Const('disj', Ref)
weight = z3.Function('rule.weight', Ref, Val); enabled = z3.Function('rule.enabled', Ref, B); loaded = z3.Function('rule.loaded', Ref, B)
ant = z3.Function('rule.antecedent', Ref, Ref); cons = z3.Function('rule.consequent', Ref, Ref)
mul = z3.Function('mul', Val, Val, Val)
sem = z3.Function('sem', Ref, Ref, Ref, TMap, Val)                      # sem(antecedent, conj, disj, T): reads fuzzy outputs T
contrib = z3.Function('contributions', Ref, Ref, Val, Ref, SeqAct)      # contributions(consequent, variable, degree, impl)
state = z3.Function('state', I, TMap)                                   # ghost fold: fuzzy outputs after the first k rules
T0 = z3.Const('T0', TMap)
k = z3.Int('k'); v = z3.Const('v', Ref)
def step_def(kk):   # unfolding of the fold at kk (ground in kk, quantified over the variable)
    r = rules[kk]; d = mul(weight(r), sem(ant(r), conj, disj, state(kk)))
    return z3.ForAll([v], state(kk+1)[v] == z3.If(z3.And(loaded(r), enabled(r)), z3.Concat(state(kk)[v], contrib(cons(r), v, d, impl)), state(kk)[v]))
# symbolic execution of the body for rule r = rules[k] from heap T_k, using the callee contracts:
#   deactivate: writes only rule fields; is_loaded: = loaded(r)
#   activate_with: post  rule.activation_degree == mul(weight, sem(antecedent, conj, disj, T_current)), T unchanged
#   trigger: post  enabled ==> forall v. T'[v] == T[v] ++ contributions(consequent, v, rule.activation_degree, impl); else T' == T
Tk = z3.Const('T@k', TMap); Tk1 = z3.Const('T@k+1', TMap)
def body(variant):
    r = rules[k]
    T_seen = Tk if variant!='stale' else T0                  # mutant: degree computed against the initial fuzzy outputs
    deg = mul(weight(r), sem(ant(r), conj, disj, T_seen)) if variant!='noweight' else sem(ant(r), conj, disj, T_seen)
    trig = z3.ForAll([v], Tk1[v] == z3.Concat(Tk[v], contrib(cons(r), v, deg, impl)))
    cond_trigger = enabled(r) if variant!='ignore_enabled' else z3.BoolVal(True)
    return z3.If(loaded(r), z3.If(cond_trigger, trig, Tk1 == Tk), Tk1 == Tk)
for variant in ('real', 'noweight', 'stale', 'ignore_enabled'):
    s = z3.Solver(); s.set('timeout', 60000)
    s.add(k>=0, k<z3.Length(rules), state(0)==T0, Tk == state(k), step_def(k), body(variant))
    s.add(Tk1 != state(k+1))
    t=time.time(); r=s.check(); print(f'{variant:16s}', 'invariant preserved: proved' if r==z3.unsat else f'refuted/{r}', f'{time.time()-t:.2f}s')
