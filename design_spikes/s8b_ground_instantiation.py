# Spike S8b: same VC as S8, but quantifier-free: goal skolemised (witness variable v*), hypotheses instantiated at v*.
import z3, time
from s8_general_activate_fold import *
vs = z3.Const('v*', Ref)
def inst(q, at):  # instantiate a ForAll at a term
    return z3.substitute_vars(q.body(), at)
def body_g(variant):
    r = rules[k]
    T_seen = Tk if variant!='stale' else T0
    deg = mul(weight(r), sem(ant(r), conj, disj, T_seen)) if variant!='noweight' else sem(ant(r), conj, disj, T_seen)
    trig = Tk1[vs] == z3.Concat(Tk[vs], contrib(cons(r), vs, deg, impl))
    cond_trigger = enabled(r) if variant!='ignore_enabled' else z3.BoolVal(True)
    return z3.If(loaded(r), z3.If(cond_trigger, trig, Tk1[vs] == Tk[vs]), Tk1[vs] == Tk[vs])
for variant in ('real', 'noweight', 'stale', 'ignore_enabled'):
    s = z3.Solver(); s.set('timeout', 60000)
    r_ = rules[k]; d = mul(weight(r_), sem(ant(r_), conj, disj, state(k)))
    stepg = state(k+1)[vs] == z3.If(z3.And(loaded(r_), enabled(r_)), z3.Concat(state(k)[vs], contrib(cons(r_), vs, d, impl)), state(k)[vs])
    s.add(k>=0, k<z3.Length(rules), state(0)==T0, Tk == state(k), stepg, body_g(variant))
    s.add(Tk1[vs] != state(k+1)[vs])
    t=time.time(); r=s.check(); print(f'{variant:16s}', 'proved' if r==z3.unsat else f'refuted/{r}', f'{time.time()-t:.2f}s')
