# Spike 2: translate real membership() ASTs (np.where fragment) into XReal terms and prove against hand-written spec
import ast, sys, time, z3, math
from xreal import *
SRC = open('/repo/fuzzylite/term.py').read()
MOD = ast.parse(SRC)
def find(cls, fn):
    for c in MOD.body:
        if isinstance(c, ast.ClassDef) and c.name==cls:
            for f in c.body:
                if isinstance(f, ast.FunctionDef) and f.name==fn: return f
class Exec:
    def __init__(self, selfenv): self.selfenv=selfenv; self.env={}
    def run(self, fn, args):
        self.env.update(args)
        for st in fn.body:
            if isinstance(st, ast.Expr) and isinstance(st.value, ast.Constant): continue
            if isinstance(st, ast.Assign):
                assert len(st.targets)==1 and isinstance(st.targets[0], ast.Name)
                self.env[st.targets[0].id] = self.ev(st.value)
            elif isinstance(st, ast.Return):
                return self.ev(st.value)
            else: raise NotImplementedError(ast.dump(st))
    def num(self, v):
        if isinstance(v, X): return v
        if isinstance(v, z3.BoolRef): return b2x(v)
        if isinstance(v,(int,float,bool)): return const(v)
        raise TypeError(v)
    def boo(self, v):
        if isinstance(v, z3.BoolRef): return v
        if isinstance(v, bool): return z3.BoolVal(v)
        raise TypeError(v)
    def ev(self, e):
        if isinstance(e, ast.Constant): return e.value
        if isinstance(e, ast.Name):
            if e.id in self.env: return self.env[e.id]
            if e.id=='inf': return const(math.inf)
            if e.id=='nan': return const(math.nan)
            raise NameError(e.id)
        if isinstance(e, ast.Attribute):
            if isinstance(e.value, ast.Name) and e.value.id=='self': return self.selfenv[e.attr]
            if isinstance(e.value, ast.Name) and e.value.id=='np' and e.attr=='nan': return const(math.nan)
            raise NotImplementedError(ast.dump(e))
        if isinstance(e, ast.UnaryOp):
            v = self.ev(e.operand)
            if isinstance(e.op, ast.USub): return neg(self.num(v))
            raise NotImplementedError
        if isinstance(e, ast.BinOp):
            l, r = self.ev(e.left), self.ev(e.right)
            if isinstance(e.op, ast.BitAnd): return z3.And(self.boo(l), self.boo(r))
            if isinstance(e.op, ast.BitOr): return z3.Or(self.boo(l), self.boo(r))
            l, r = self.num(l), self.num(r)
            if isinstance(e.op, ast.Add): return add(l,r)
            if isinstance(e.op, ast.Sub): return sub(l,r)
            if isinstance(e.op, ast.Mult): return mul(l,r)
            if isinstance(e.op, ast.Div): return div(l,r)
            if isinstance(e.op, ast.Pow):
                assert isinstance(e.right, ast.Constant) and e.right.value==2
                return mul(l,l)
            raise NotImplementedError
        if isinstance(e, ast.Compare):
            assert len(e.ops)==1
            l, r = self.num(self.ev(e.left)), self.num(self.ev(e.comparators[0]))
            op = e.ops[0]
            return {ast.Lt:lt, ast.LtE:le, ast.Gt:gt, ast.GtE:ge, ast.Eq:eq}[type(op)](l,r)
        if isinstance(e, ast.Call):
            f = e.func
            name = f.id if isinstance(f, ast.Name) else (f.value.id + '.' + f.attr)
            a = [self.ev(x) for x in e.args]
            if name=='scalar': return self.num(a[0])
            if name=='np.where':
                c = self.boo(a[0]); return ite(c, self.num(a[1]), self.num(a[2]))
            if name=='np.isnan': return isnan(self.num(a[0]))
            if name=='np.isfinite': return isfinite(self.num(a[0]))
            if name=='np.square': return square(self.num(a[0]))
            if name=='min':  # python builtin: min(a,b) = b if b < a else a
                x,y = self.num(a[0]), self.num(a[1]); return ite(lt(y,x), y, x)
            if name=='max':
                x,y = self.num(a[0]), self.num(a[1]); return ite(gt(y,x), y, x)
            raise NotImplementedError(name)
        raise NotImplementedError(ast.dump(e))
def prove(name, hyps, goal, to=30000):
    s = z3.Solver(); s.set('timeout', to); s.add(*hyps); s.add(z3.Not(goal))
    t=time.time(); r=s.check(); dt=time.time()-t
    print(f"  {name:36s} {'proved' if r==z3.unsat else str(r):8s} {dt:.2f}s")
    if r==z3.sat:
        m=s.model(); print('     ', {str(d): m[d] for d in m.decls() if not str(d).startswith('/')})
    return r

def setup(params):
    hy=[]; se={}
    for p in params:
        se[p], c = sym(p); hy.append(c)
    x, c = sym('x'); hy.append(c)
    return se, x, hy
H = lambda se: z3.And(fin(se['height']), se['height'].v>0, se['height'].v<=1)
def scaled(h, val):  # h * val  where val is X
    return mul(h, val)
NAN = const(math.nan); ZERO=const(0.0); ONE=const(1.0)

print("Triangle")
se,x,hy = setup(['left','top','right','height'])
a,b,c,h = se['left'],se['top'],se['right'],se['height']
y = Exec(se).run(find('Triangle','membership'), {'x':x})
valid = z3.And(H(se), z3.Not(a.nan), z3.Not(b.nan), z3.Not(c.nan), le(a,b), le(b,c), fin(b))
# spec from the property/doc: piecewise closed form scaled by height, NaN iff x NaN
spec = ite(x.nan, NAN,
        ite(z3.Or(lt(x,a), gt(x,c)), ZERO,
        ite(eq(x,b), h,
        ite(lt(x,b), ite(a.inf==-1, h, mul(h, div(sub(x,a), sub(b,a)))),
                     ite(c.inf==1, h, mul(h, div(sub(c,x), sub(c,b))))))))
prove('equals spec', hy+[valid], same(y, spec))
prove('nan iff x nan', hy+[valid], y.nan == x.nan)
prove('range [0,h]', hy+[valid, z3.Not(x.nan)], z3.And(fin(y), y.v>=0, y.v<=h.v))
# mutation: pretend code used (x <= a)
print("Trapezoid")
se,x,hy = setup(['bottom_left','top_left','top_right','bottom_right','height'])
a,b,c,d,h = [se[k] for k in ['bottom_left','top_left','top_right','bottom_right','height']]
y = Exec(se).run(find('Trapezoid','membership'), {'x':x})
valid = z3.And(H(se), *[z3.Not(t.nan) for t in (a,b,c,d)], le(a,b), le(b,c), le(c,d), fin(b), fin(c))
spec = ite(x.nan, NAN,
        ite(z3.Or(lt(x,a), gt(x,d)), ZERO,
        ite(z3.And(le(b,x), le(x,c)), h,
        ite(lt(x,b), ite(a.inf==-1, h, mul(h, div(sub(x,a), sub(b,a)))),
                     ite(d.inf==1, h, mul(h, div(sub(d,x), sub(d,c))))))))
prove('equals spec', hy+[valid], same(y, spec))
prove('nan iff x nan', hy+[valid], y.nan == x.nan)
prove('range [0,h]', hy+[valid, z3.Not(x.nan)], z3.And(fin(y), y.v>=0, y.v<=h.v))
print("Ramp")
se,x,hy = setup(['start','end','height'])
s_,e_,h = se['start'],se['end'],se['height']
y = Exec(se).run(find('Ramp','membership'), {'x':x})
valid = z3.And(H(se), fin(s_), fin(e_), s_.v!=e_.v)
spec = ite(x.nan, NAN,
       ite(z3.And(lt(s_,x), lt(x,e_)), mul(h, div(sub(x,s_), sub(e_,s_))),
       ite(z3.And(lt(e_,x), lt(x,s_)), mul(h, div(sub(s_,x), sub(s_,e_))),
       ite(z3.Or(z3.And(lt(s_,e_), ge(x,e_)), z3.And(gt(s_,e_), le(x,e_))), h, ZERO))))
prove('equals spec', hy+[valid], same(y, spec))
prove('range [0,h]', hy+[valid, z3.Not(x.nan)], z3.And(fin(y), y.v>=0, y.v<=h.v))
x2,c2 = sym('x2')
y2 = Exec(se).run(find('Ramp','membership'), {'x':x2})
prove('monotone (incr)', hy+[c2,valid, lt(s_,e_), le(x,x2)], le(y,y2))
prove('monotone (decr)', hy+[c2,valid, gt(s_,e_), le(x,x2)], ge(y,y2))
print("Rectangle")
se,x,hy = setup(['start','end','height'])
s_,e_,h = se['start'],se['end'],se['height']
y = Exec(se).run(find('Rectangle','membership'), {'x':x})
valid = z3.And(H(se), z3.Not(s_.nan), z3.Not(e_.nan))
lo, hi = ite(lt(e_,s_), e_, s_), ite(lt(e_,s_), s_, e_)
spec = ite(x.nan, NAN, ite(z3.And(le(lo,x), le(x,hi)), h, ZERO))
prove('equals spec', hy+[valid], same(y, spec))
print("SShape")
se,x,hy = setup(['start','end','height'])
s_,e_,h = se['start'],se['end'],se['height']
y = Exec(se).run(find('SShape','membership'), {'x':x})
valid = z3.And(H(se), fin(s_), fin(e_), s_.v<e_.v)
two=const(2.0); half=const(0.5)
mid = mul(half, add(s_,e_))
spec = ite(x.nan, NAN,
       ite(le(x,s_), ZERO,
       ite(le(x,mid), mul(mul(two,h), square(div(sub(x,s_), sub(e_,s_)))),
       ite(lt(x,e_), sub(h, mul(mul(two,h), square(div(sub(x,e_), sub(e_,s_))))), h))))
prove('equals spec', hy+[valid], same(y, spec))
prove('range [0,h]', hy+[valid, z3.Not(x.nan)], z3.And(fin(y), y.v>=0, y.v<=h.v))
y2 = Exec(se).run(find('SShape','membership'), {'x':x2})
prove('monotone', hy+[c2,valid, le(x,x2)], le(y,y2))
