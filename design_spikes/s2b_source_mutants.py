import ast, z3, math, time
import s2_terms_xreal_from_ast as S
from xreal import *
def run(cls, mut_from, mut_to, build):
    src = S.SRC
    fn = S.find(cls,'membership')
    seg = ast.get_source_segment(src, fn)
    assert mut_from in seg, mut_from
    tree = ast.parse(__import__('textwrap').dedent(seg.replace(mut_from, mut_to))).body[0]
    build(tree)
def tri(tree):
    se,x,hy = S.setup(['left','top','right','height'])
    a,b,c,h = se['left'],se['top'],se['right'],se['height']
    y = S.Exec(se).run(tree, {'x':x})
    valid = z3.And(S.H(se), z3.Not(a.nan), z3.Not(b.nan), z3.Not(c.nan), le(a,b), le(b,c), fin(b))
    s=z3.Solver(); s.add(*hy, valid); print('  precondition satisfiable:', s.check())
    spec = ite(x.nan, S.NAN, ite(z3.Or(lt(x,a), gt(x,c)), S.ZERO, ite(eq(x,b), h,
        ite(lt(x,b), ite(a.inf==-1, h, mul(h, div(sub(x,a), sub(b,a)))), ite(c.inf==1, h, mul(h, div(sub(c,x), sub(c,b))))))))
    S.prove('equals spec', hy+[valid], same(y, spec))
    S.prove('range', hy+[valid, z3.Not(x.nan)], z3.And(fin(y), y.v>=0, y.v<=h.v))
print('Triangle mutant: (x < a) -> (x <= a)'); run('Triangle', '(x < a) | (x > c)', '(x <= a) | (x > c)', tri)
print('Triangle mutant: drop height'); run('Triangle', 'self.height\n', '1.0\n', tri)
print('Triangle mutant: (c - x) / (c - b) -> (c - x) / (c - a)'); run('Triangle', '(c - x) / (c - b)', '(c - x) / (c - a)', tri)
print('Triangle mutant: drop nan mask'); run('Triangle', 'np.where(np.isnan(x), np.nan, 1.0)', '1.0', tri)
