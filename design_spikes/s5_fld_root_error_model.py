import z3, time
# resolution = -1 + max(1, int(pow(values, 1.0/n)));  property: k = resolution+1 is the largest integer with k^n <= values
# model: pow returns p with |p - root| <= eps*root where root^n = values (root>0); int() truncates toward zero.
def check(n, exact):
    v = z3.Int('v'); root = z3.Real('root'); p = z3.Real('p'); k = z3.Int('k'); t = z3.Int('t')
    s = z3.Solver(); s.set('timeout', 60000)
    def ipow(x, n):
        r = x
        for _ in range(n-1): r = r*x
        return r
    eps = z3.RealVal('1e-15')
    s.add(v>=1, v<=2000, root>0, ipow(root,n)==z3.ToReal(v))
    if exact: s.add(p==root)
    else: s.add(p>=root*(1-eps), p<=root*(1+eps))
    s.add(z3.ToReal(t)<=p, p<z3.ToReal(t)+1)     # t = int(p), p>0
    s.add(k == z3.If(t>=1, t, 1))
    goal = z3.And(ipow(k,n) <= v, ipow(k+1,n) > v)
    s.add(z3.Not(goal))
    t0=time.time(); r=s.check()
    print(f'n={n} exact_pow={exact}:', 'proved' if r==z3.unsat else r, f'{time.time()-t0:.2f}s', (s.model()[v], s.model()[k]) if r==z3.sat else '')
for n in (1,2,3,4):
    check(n, True); check(n, False)
