# Spike: extended reals for z3:  value = (nan: Bool, inf: Int in {-1,0,1}, v: Real)  (v meaningful only when finite)
import z3
class X:
    __slots__=('nan','inf','v')
    def __init__(s, nan, inf, v): s.nan, s.inf, s.v = nan, inf, v
def const(c):
    import math
    if isinstance(c, bool): c = 1.0 if c else 0.0
    if isinstance(c,(int,float)):
        if c != c: return X(z3.BoolVal(True), z3.IntVal(0), z3.RealVal(0))
        if c == math.inf: return X(z3.BoolVal(False), z3.IntVal(1), z3.RealVal(0))
        if c == -math.inf: return X(z3.BoolVal(False), z3.IntVal(-1), z3.RealVal(0))
        return X(z3.BoolVal(False), z3.IntVal(0), z3.RealVal(repr(float(c)) if isinstance(c,float) else c))
    raise TypeError(c)
def sym(name):
    nan = z3.Bool(name+'.nan'); inf = z3.Int(name+'.inf'); v = z3.Real(name+'.v')
    return X(nan, inf, v), z3.And(inf>=-1, inf<=1)
def fin(x): return z3.And(z3.Not(x.nan), x.inf==0)
def sgn(x):  # sign in {-1,0,1} of a non-nan
    return z3.If(x.inf!=0, x.inf, z3.If(x.v>0, 1, z3.If(x.v<0, -1, 0)))
def ite(c, a, b): return X(z3.If(c,a.nan,b.nan), z3.If(c,a.inf,b.inf), z3.If(c,a.v,b.v))
def neg(a): return X(a.nan, -a.inf, -a.v)
def add(a,b):
    nan = z3.Or(a.nan, b.nan, z3.And(a.inf!=0, b.inf!=0, a.inf!=b.inf))
    inf = z3.If(a.inf!=0, a.inf, b.inf)
    return X(nan, z3.If(nan,0,inf), a.v+b.v)
def sub(a,b): return add(a, neg(b))
def mul(a,b):
    anyinf = z3.Or(a.inf!=0, b.inf!=0)
    sa, sb = sgn(a), sgn(b)
    nan = z3.Or(a.nan, b.nan, z3.And(anyinf, z3.Or(sa==0, sb==0)))
    inf = z3.If(anyinf, sa*sb, 0)
    return X(nan, z3.If(nan,0,inf), a.v*b.v)
def div(a,b):
    # finite/finite nonzero: real; x/0: +-inf by sign(x) (0/0 nan) [zeros unsigned, +0]; inf/inf nan; fin/inf = 0; inf/fin = inf*sign
    sa, sb = sgn(a), sgn(b)
    bzero = z3.And(b.inf==0, b.v==0)
    nan = z3.Or(a.nan, b.nan, z3.And(a.inf!=0, b.inf!=0), z3.And(bzero, sa==0))
    inf = z3.If(a.inf!=0, a.inf*z3.If(sb==0,1,sb), z3.If(bzero, sa, 0))
    v = z3.If(b.inf!=0, 0, z3.If(bzero, 0, a.v/b.v))
    return X(nan, z3.If(nan,0,inf), v)
# comparisons -> Bool (False if any nan)
def lt(a,b):
    return z3.And(z3.Not(a.nan), z3.Not(b.nan),
        z3.If(z3.And(a.inf==0,b.inf==0), a.v<b.v, a.inf<b.inf))
def le(a,b):
    return z3.And(z3.Not(a.nan), z3.Not(b.nan),
        z3.If(z3.And(a.inf==0,b.inf==0), a.v<=b.v, z3.If(z3.And(a.inf!=0, b.inf!=0), a.inf<=b.inf, a.inf<b.inf)))
def gt(a,b): return lt(b,a)
def ge(a,b): return le(b,a)
def eq(a,b):
    return z3.And(z3.Not(a.nan), z3.Not(b.nan), a.inf==b.inf, z3.Or(a.inf!=0, a.v==b.v))
def same(a,b):  # spec-level identity (nan == nan)
    return z3.Or(z3.And(a.nan,b.nan), z3.And(z3.Not(a.nan), z3.Not(b.nan), a.inf==b.inf, z3.Or(a.inf!=0, a.v==b.v)))
def b2x(c): return X(z3.BoolVal(False), z3.IntVal(0), z3.If(c, z3.RealVal(1), z3.RealVal(0)))
def isnan(a): return a.nan
def isfinite(a): return fin(a)
def square(a): return mul(a,a)
