import ast, z3, math, time
import s2_terms_xreal_from_ast as S
from xreal import *
EXP = z3.Function('EXP', z3.RealSort(), z3.RealSort())
LOG = z3.Function('LOG', z3.RealSort(), z3.RealSort())
class Ax:
    def __init__(s): s.exp=[]; s.log=[]; s.sqrt=[]; s.side=[]; s.n=0
    def xexp(s, a):
        s.exp.append(a.v); e = EXP(a.v)
        return X(a.nan, z3.If(a.inf==1,1,0), z3.If(a.inf==-1, 0, e))
    def xlog(s, a):
        s.log.append(a.v); l = LOG(a.v)
        neg_ = z3.And(a.inf==0, a.v<0)
        zero = z3.And(a.inf==0, a.v==0)
        nan = z3.Or(a.nan, neg_, a.inf==-1)
        return X(nan, z3.If(nan,0,z3.If(a.inf==1,1,z3.If(zero,-1,0))), l)
    def xsqrt(s, a):
        s.n+=1; r = z3.Real(f'sqrt!{s.n}')
        s.side.append(z3.Implies(z3.And(a.inf==0, a.v>=0), z3.And(r>=0, r*r==a.v)))
        s.sqrt.append((a.v,r))
        nan = z3.Or(a.nan, z3.And(a.inf==0,a.v<0), a.inf==-1)
        return X(nan, z3.If(nan,0,z3.If(a.inf==1,1,0)), r)
    def axioms(s):
        ax = list(s.side)
        for t in s.exp:
            ax += [EXP(t)>0, z3.Implies(t<=0, EXP(t)<=1), z3.Implies(t>=0, EXP(t)>=1), z3.Implies(t==0, EXP(t)==1)]
        for i,t in enumerate(s.exp):
            for u in s.exp[i+1:]:
                ax += [z3.Implies(t<=u, EXP(t)<=EXP(u)), z3.Implies(u<=t, EXP(u)<=EXP(t)), z3.Implies(t<u, EXP(t)<EXP(u)), z3.Implies(u<t, EXP(u)<EXP(t))]
        for t in s.log:
            ax += [z3.Implies(t>0, EXP(LOG(t))==t)]
            s_ = LOG(t)
            ax += [EXP(s_)>0]
        for i,(t,r) in enumerate(s.sqrt):
            for (u,q) in s.sqrt[i+1:]:
                ax += [z3.Implies(z3.And(t>=0,u>=0,t<=u), r<=q), z3.Implies(z3.And(t>=0,u>=0,u<=t), q<=r)]
        return ax
class Exec(S.Exec):
    def __init__(s, selfenv, ax): super().__init__(selfenv); s.ax=ax
    def ev(s, e):
        if isinstance(e, ast.Call):
            f=e.func
            name = f.id if isinstance(f, ast.Name) else (f.value.id + '.' + f.attr)
            if name in ('np.exp','np.log','np.sqrt','np.abs','abs'):
                a = s.num(s.ev(e.args[0]))
                if name=='np.exp': return s.ax.xexp(a)
                if name=='np.log': return s.ax.xlog(a)
                if name=='np.sqrt': return s.ax.xsqrt(a)
                return X(a.nan, z3.If(a.inf!=0,1,0), z3.If(a.v>=0,a.v,-a.v))
        return super().ev(e)
prove=S.prove
print('Sigmoid')
ax=Ax(); se,x,hy = S.setup(['inflection','slope','height']); i_,s_,h = se['inflection'],se['slope'],se['height']
y = Exec(se,ax).run(S.find('Sigmoid','membership'), {'x':x})
valid = z3.And(S.H(se), fin(i_), fin(s_), s_.v!=0)
spec = ite(x.nan, S.NAN, div(h, add(S.ONE, ax.xexp(mul(neg(s_), sub(x,i_))))))
prove('equals spec', hy+[valid]+ax.axioms(), same(y,spec))
prove('range', hy+[valid, z3.Not(x.nan)]+ax.axioms(), z3.And(fin(y), y.v>=0, y.v<=h.v))
prove('nan iff', hy+[valid]+ax.axioms(), y.nan==x.nan)
x2,c2 = sym('x2'); y2 = Exec(se,ax).run(S.find('Sigmoid','membership'), {'x':x2})
prove('monotone incr (s>0)', hy+[c2,valid,s_.v>0, le(x,x2)]+ax.axioms(), le(y,y2))
prove('monotone decr (s<0)', hy+[c2,valid,s_.v<0, le(x,x2)]+ax.axioms(), ge(y,y2))
# tsukamoto round trip
ax=Ax(); yy,cy = sym('y')
z = Exec(se,ax).run(S.find('Sigmoid','tsukamoto'), {'y':yy})
mu = Exec(se,ax).run(S.find('Sigmoid','membership'), {'x':z})
pre = [cy, valid, fin(yy), yy.v>0, yy.v<h.v]
prove('tsukamoto finite', hy+pre+ax.axioms(), fin(z))
prove('mu(tsukamoto(y)) == y', hy+pre+ax.axioms(), z3.And(fin(mu), mu.v==yy.v))
print('Gaussian')
ax=Ax(); se,x,hy = S.setup(['mean','standard_deviation','height']); m_,sd,h = se['mean'],se['standard_deviation'],se['height']
y = Exec(se,ax).run(S.find('Gaussian','membership'), {'x':x})
valid = z3.And(S.H(se), fin(m_), fin(sd), sd.v>0)
spec = ite(x.nan, S.NAN, mul(h, ax.xexp(div(neg(square(sub(x,m_))), mul(const(2.0), square(sd))))))
prove('equals spec', hy+[valid]+ax.axioms(), same(y,spec))
prove('range', hy+[valid, z3.Not(x.nan)]+ax.axioms(), z3.And(fin(y), y.v>=0, y.v<=h.v))
prove('at +-inf is 0', hy+[valid, x.inf!=0, z3.Not(x.nan)]+ax.axioms(), z3.And(fin(y), y.v==0))
print('Concave tsukamoto')
ax=Ax(); se,x,hy = S.setup(['inflection','end','height']); i_,e_,h = se['inflection'],se['end'],se['height']
valid = z3.And(S.H(se), fin(i_), fin(e_), i_.v!=e_.v)
z = Exec(se,ax).run(S.find('Concave','tsukamoto'), {'y':yy})
mu = Exec(se,ax).run(S.find('Concave','membership'), {'x':z})
pre = [cy, valid, fin(yy), yy.v>0, yy.v<h.v]
prove('finite', hy+pre+ax.axioms(), fin(z))
prove('mu(tsukamoto(y)) == y', hy+pre+ax.axioms(), z3.And(fin(mu), mu.v==yy.v))
print('SShape tsukamoto')
ax=Ax(); se,x,hy = S.setup(['start','end','height']); s_,e_,h = se['start'],se['end'],se['height']
valid = z3.And(S.H(se), fin(s_), fin(e_), s_.v<e_.v)
z = Exec(se,ax).run(S.find('SShape','tsukamoto'), {'y':yy})
mu = Exec(se,ax).run(S.find('SShape','membership'), {'x':z})
pre = [cy, valid, fin(yy), yy.v>0, yy.v<h.v]
prove('finite', hy+pre+ax.axioms(), fin(z))
prove('mu(tsukamoto(y)) == y', hy+pre+ax.axioms(), z3.And(fin(mu), mu.v==yy.v), to=60000)
print('ZShape tsukamoto')
z = Exec(se,Ax()).run(S.find('ZShape','tsukamoto'), {'y':yy})
ax=Ax()
z = Exec(se,ax).run(S.find('ZShape','tsukamoto'), {'y':yy})
mu = Exec(se,ax).run(S.find('ZShape','membership'), {'x':z})
prove('mu(tsukamoto(y)) == y', hy+pre+ax.axioms(), z3.And(fin(mu), mu.v==yy.v), to=60000)
print('Ramp tsukamoto')
ax=Ax(); valid = z3.And(S.H(se), fin(s_), fin(e_), s_.v!=e_.v)
pre = [cy, valid, fin(yy), yy.v>0, yy.v<h.v]
z = Exec(se,ax).run(S.find('Ramp','tsukamoto'), {'y':yy})
mu = Exec(se,ax).run(S.find('Ramp','membership'), {'x':z})
prove('mu(tsukamoto(y)) == y', hy+pre+ax.axioms(), z3.And(fin(mu), mu.v==yy.v))
