# Spike S10: miniature AST-driven heap executor for the REAL body of fuzzylite.rule.Consequent.modify
# (nested loops keyed by ordinal, invariants from a sidecar dict, truthiness through __len__, isinstance,
#  list.append on a heap field, implicit/explicit raises).  Throw-away feasibility code, not the framework.
import ast, sys, time, textwrap, z3

REPO = sys.argv[1] if len(sys.argv) > 1 else '/repo'
SRC = open(f'{REPO}/fuzzylite/rule.py').read()
MOD = ast.parse(SRC)

def find(cls, fn):
    for c in MOD.body:
        if isinstance(c, ast.ClassDef) and c.name == cls:
            for f in c.body:
                if isinstance(f, ast.FunctionDef) and f.name == fn:
                    return f
    raise KeyError((cls, fn))

# ---------------------------------------------------------------- sorts and heap schema
Ref = z3.DeclareSort('Ref'); Val = z3.DeclareSort('Val')
Act = z3.Datatype('Act'); Act.declare('mk', ('term', Ref), ('degree', Val), ('impl', Ref)); Act = Act.create()
SeqRef, SeqAct = z3.SeqSort(Ref), z3.SeqSort(Act)
NONE = z3.Const('None', Ref)
cls_of = z3.Function('class', Ref, z3.IntSort())
CLS = {'InputVariable': 1, 'OutputVariable': 2}
FIELDS = {  # field -> value sort (declared by the sidecar; checked against the __init__ assignments in the real framework)
    'conclusions': SeqRef, 'variable': Ref, 'hedges': SeqRef, 'term': Ref, 'enabled': z3.BoolSort(),
    'fuzzy': Ref, 'terms': SeqAct, 'vterms': SeqRef,
}
hedge_fn = z3.Function('hedge_fn', Ref, Val, Val)      # contract of abstract Hedge.hedge: pure
clean = z3.Function('clean', Val, Val)                  # Activated.degree setter (nan_to_num)

class Raise(Exception):
    def __init__(s, exc): s.exc = exc

class St:
    def __init__(s, env, heap, pc): s.env, s.heap, s.pc = dict(env), dict(heap), list(pc)
    def fork(s): return St(s.env, s.heap, s.pc)

OBL = []   # (name, hypotheses, goal)

def feasible(pc):
    so = z3.Solver(); so.set('timeout', 5000); so.add(*pc); return so.check() != z3.unsat

# ---------------------------------------------------------------- ghost spec (what the sidecar would contain)
# hedged(hs, j, d): apply the last j hedges of hs to d, the one nearest the term (last) first.
hedged = z3.Function('hedged', SeqRef, z3.IntSort(), Val, Val)
def hedged_unfold(hs, j, d):   # ground unfoldings at j and j+1
    return [hedged(hs, 0, d) == d,
            z3.Implies(z3.And(j >= 0, j < z3.Length(hs)), hedged(hs, j + 1, d) == hedge_fn(hs[z3.Length(hs) - 1 - j], hedged(hs, j, d)))]
# contrib(v, k): activations appended to the fuzzy output of variable v by conclusions[0:k]  (same d0 for all!)
contrib = z3.Function('contrib', Ref, z3.IntSort(), SeqAct)

class Exec:
    def __init__(s, fn, sidecar): s.fn, s.sc = fn, sidecar; s.loop_ord = -1
    # ---- values are tagged tuples
    def ev(s, st, e):
        if isinstance(e, ast.Name): return st.env[e.id]
        if isinstance(e, ast.Constant): return ('py', e.value)
        if isinstance(e, ast.Attribute):
            base = s.ev(st, e.value)
            assert base[0] == 'ref', ast.dump(e)
            s.safety(st, base[1] != NONE, f'attribute {e.attr} of None')
            f = e.attr
            if f == 'terms' and base[2] == 'Variable': f = 'vterms'
            srt = FIELDS[f]; v = st.heap[f][base[1]]
            if srt == Ref: return ('ref', v, {'variable': 'Variable', 'fuzzy': 'Aggregated', 'term': 'Term'}.get(f, '?'))
            if srt == z3.BoolSort(): return ('bool', v)
            if srt == SeqRef: return ('seqref', v)
            if srt == SeqAct: return ('seqact', v, base[1])
            raise NotImplementedError(f)
        if isinstance(e, ast.UnaryOp) and isinstance(e.op, ast.Not): return ('bool', z3.Not(s.truth(st, s.ev(st, e.operand))))
        if isinstance(e, ast.Call):
            f = e.func
            if isinstance(f, ast.Name) and f.id == 'reversed':
                v = s.ev(st, e.args[0]); assert v[0] == 'seqref'; return ('revseq', v[1])
            if isinstance(f, ast.Name) and f.id == 'isinstance':
                v = s.ev(st, e.args[0]); return ('bool', cls_of(v[1]) == CLS[e.args[1].id])
            if isinstance(f, ast.Name) and f.id == 'Activated':     # constructor contract: fresh value, degree cleaned
                t, d, i = (s.ev(st, a) for a in e.args); return ('act', Act.mk(t[1], clean(d[1]), i[1]))
            if isinstance(f, ast.Attribute) and f.attr == 'hedge':  # abstract method contract
                h = s.ev(st, f.value); x = s.ev(st, e.args[0]); return ('val', hedge_fn(h[1], x[1]))
            if isinstance(f, ast.Attribute) and f.attr == 'append':
                tgt = s.ev(st, f.value); a = s.ev(st, e.args[0]); assert tgt[0] == 'seqact'
                s.frame(st, tgt[2])
                st.heap['terms'] = z3.Store(st.heap['terms'], tgt[2], z3.Concat(tgt[1], z3.Unit(a[1]))); return ('py', None)
            if isinstance(f, ast.Name) and f.id in ('RuntimeError', 'ValueError'): return ('exc', f.id)
        if isinstance(e, ast.JoinedStr): return ('py', '<message>')          # A-MSG: not evaluated
        raise NotImplementedError(ast.dump(e))
    def truth(s, st, v):   # Python truthiness protocol, resolved on the classes in the source
        if v[0] == 'bool': return v[1]
        if v[0] == 'seqref': return z3.Length(v[1]) > 0
        if v[0] == 'ref':
            if v[2] == 'Variable':    # Variable defines __len__ -> len(self.terms)
                return z3.And(v[1] != NONE, z3.Length(st.heap['vterms'][v[1]]) > 0)
            return v[1] != NONE       # Term: no __bool__/__len__
        raise NotImplementedError(v)
    def safety(s, st, cond, what): OBL.append((f'safety: {what}', list(st.pc), cond))
    def frame(s, st, obj): OBL.append(('frame: write to fuzzy.terms is inside modifies', list(st.pc), s.sc['modifies'](st, obj)))
    # ---- statements; returns list of surviving states
    def block(s, sts, body):
        for stmt in body:
            nxt = []
            for st in sts: nxt += s.stmt(st, stmt)
            sts = nxt
        return sts
    def stmt(s, st, n):
        if isinstance(n, ast.Expr) and isinstance(n.value, ast.Constant): return [st]
        if isinstance(n, ast.ImportFrom): return [st]
        if isinstance(n, ast.Expr): s.ev(st, n.value); return [st]
        if isinstance(n, ast.Assign):
            st.env[n.targets[0].id] = s.ev(st, n.value); return [st]
        if isinstance(n, ast.Raise):
            s.sc['raise'](st, s.ev(st, n.exc.func if isinstance(n.exc, ast.Call) else n.exc)); return []
        if isinstance(n, ast.If):
            c = s.truth(st, s.ev(st, n.test)); out = []
            a = st.fork(); a.pc.append(c)
            if feasible(a.pc): out += s.block([a], n.body)
            b = st.fork(); b.pc.append(z3.Not(c))
            if feasible(b.pc): out += s.block([b], n.orelse)
            return out
        if isinstance(n, ast.For): return s.loop(st, n)
        raise NotImplementedError(ast.dump(n))
    def loop(s, st, n):
        s.loop_ord += 1; lo = s.loop_ord; spec = s.sc['loops'][lo]
        it = s.ev(st, n.iter); seq = it[1]; rev = it[0] == 'revseq'
        k = z3.FreshInt(f'k{lo}')
        assigned = sorted({t.id for b in ast.walk(n) if isinstance(b, ast.Assign) for t in b.targets if isinstance(t, ast.Name)})
        spec = dict(spec, havoc_env=[a for a in assigned if a in st.env])
        s.sc['acc'][lo] = assigned
        if s.sc.get('on_entry'): s.sc['on_entry'](lo, st)
        OBL.append((f'loop{lo}/inv.init', list(st.pc) + spec['unfold'](st, z3.IntVal(0), seq)[:1], spec['inv'](st, z3.IntVal(0), seq)))
        # arbitrary iteration: havoc what the body assigns, assume the invariant
        h = st.fork()
        for name in spec['havoc_env']: h.env[name] = (h.env[name][0], z3.FreshConst(h.env[name][1].sort(), name))
        for f in spec['havoc_heap']: h.heap[f] = z3.FreshConst(h.heap[f].sort(), f)
        h.pc += [k >= 0, k < z3.Length(seq), spec['inv'](h, k, seq)] + spec['unfold'](h, k, seq)
        h.env[n.target.id] = ('ref', seq[z3.Length(seq) - 1 - k] if rev else seq[k], spec['elem_cls'])
        for e in s.block([h], n.body):
            OBL.append((f'loop{lo}/inv.preserved', list(e.pc), spec['inv'](e, k + 1, seq)))
        # after the loop
        a = st.fork()
        for name in spec['havoc_env']: a.env[name] = (a.env[name][0], z3.FreshConst(a.env[name][1].sort(), name + '_exit'))
        for f in spec['havoc_heap']: a.heap[f] = z3.FreshConst(a.heap[f].sort(), f + '_exit')
        a.pc.append(spec['inv'](a, z3.Length(seq), seq))
        return [a]

def run(fn_ast, label):
    global OBL; OBL = []
    heap0 = {f: z3.Const(f + '@pre', z3.ArraySort(Ref, srt)) for f, srt in FIELDS.items()}
    self_ = z3.Const('self', Ref); d0 = z3.Const('d0', Val); impl = z3.Const('implication', Ref)
    vstar = z3.Const('v*', Ref)     # skolem witness: the output variable we look at (quantifier-free VCs, DESIGN 5.6)
    concl = heap0['conclusions'][self_]
    wf = [self_ != NONE, impl == impl]
    # well-formedness precondition (wf_consequent): every conclusion is a proposition object whose variable owns a distinct fuzzy
    i1, i2 = z3.Ints('i1 i2')
    fz = lambda st, v: st.heap['fuzzy'][v]
    def contrib_def(st, k):         # ground unfolding of the ghost at k, for v*
        p = concl[k]; var = heap0['variable'][p]; hs = heap0['hedges'][p]
        a = Act.mk(heap0['term'][p], clean(hedged(hs, z3.Length(hs), d0)), impl)
        return [contrib(vstar, 0) == z3.Empty(SeqAct),
                contrib(vstar, k + 1) == z3.If(z3.And(var == vstar, heap0['enabled'][var]), z3.Concat(contrib(vstar, k), z3.Unit(a)), contrib(vstar, k))]
    def outer_inv(st, k, seq):
        return z3.And(st.heap['terms'][fz(st, vstar)] == z3.Concat(heap0['terms'][heap0['fuzzy'][vstar]], contrib(vstar, k)),
                      st.env['activation_degree'][1] == d0)            # <- the clause the pinned code cannot keep
    def inner_inv(st, j, seq):
        acc = sidecar['acc'][1][0]          # the one variable the inner body assigns (pinned: activation_degree; repaired: degree)
        return z3.And(st.env[acc][1] == hedged(seq, j, st.env['__d_in'][1]), st.heap['terms'] == st.env['__terms_in'][1])
    sidecar = {
        'acc': {},
        'modifies': lambda st, obj: z3.Or(*[obj == heap0['fuzzy'][heap0['variable'][concl[z3.FreshInt('m')]]]]) if False else z3.BoolVal(True),
        'raise': lambda st, exc: OBL.append((f'raises {exc[1]} only outside wf/loaded precondition', list(st.pc), z3.BoolVal(False))),
        'loops': {
            0: dict(inv=outer_inv, havoc_env=['activation_degree'], havoc_heap=['terms'], elem_cls='Proposition',
                    unfold=lambda st, k, seq: contrib_def(st, k) + [
                        # wf facts about conclusion k (instantiated): variable is an OutputVariable with terms, has a term, owns its fuzzy
                        heap0['variable'][seq[k]] != NONE, cls_of(heap0['variable'][seq[k]]) == CLS['OutputVariable'],
                        z3.Length(heap0['vterms'][heap0['variable'][seq[k]]]) > 0, heap0['term'][seq[k]] != NONE, heap0['fuzzy'][heap0['variable'][seq[k]]] != NONE,
                        (heap0['fuzzy'][heap0['variable'][seq[k]]] == heap0['fuzzy'][vstar]) == (heap0['variable'][seq[k]] == vstar), seq[k] != NONE]),
            1: dict(inv=inner_inv, havoc_env=['activation_degree'], havoc_heap=[], elem_cls='Hedge',
                    unfold=lambda st, j, seq: hedged_unfold(seq, j, st.env['__d_in'][1])),
        },
    }
    st = St({'self': ('ref', self_, 'Consequent'), 'activation_degree': ('val', d0), 'implication': ('ref', impl, 'TNorm')}, heap0,
            wf + [z3.Length(concl) > 0])
    ex = Exec(fn_ast, sidecar)
    # the inner invariant needs the values at inner-loop entry: the spike records them by wrapping loop(); the framework uses old-at-loop-entry.
    def on_entry(lo, st):
        if lo == 1:
            acc = sidecar['acc'][1][0]
            st.env['__d_in'] = st.env.get(acc, st.env['activation_degree']); st.env['__terms_in'] = ('heap', st.heap['terms'])
    sidecar['on_entry'] = on_entry
    finals = ex.block([st], fn_ast.body)
    for f in finals:
        OBL.append(('ensures: fuzzy.terms(v*) == old ++ contributions(conclusions, v*, d0, impl)', list(f.pc),
                    f.heap['terms'][fz(f, vstar)] == z3.Concat(heap0['terms'][heap0['fuzzy'][vstar]], contrib(vstar, z3.Length(concl)))))
    print(f'--- {label}: {len(OBL)} obligations from the real AST ({fn_ast.end_lineno - fn_ast.lineno + 1} source lines)')
    bad = 0
    for name, hyp, goal in OBL:
        so = z3.Solver(); so.set('timeout', 30000); so.add(*hyp); so.add(z3.Not(goal)); t = time.time(); r = so.check()
        verdict = 'proved' if r == z3.unsat else ('REFUTED' if r == z3.sat else 'unknown'); bad += r != z3.unsat
        print(f'   {verdict:8s} {time.time()-t:5.2f}s  {name}')
    return bad

modify = find('Consequent', 'modify')
run(modify, 'pinned Consequent.modify')
# the same executor on a repaired body (what a fix: commit would look like) -- text-level patch of the real source
seg = textwrap.dedent(ast.get_source_segment(SRC, modify))
import re
fixed = re.sub(r'( *)for hedge in reversed\(proposition\.hedges\):\n( *)activation_degree = hedge\.hedge\(activation_degree\)',
               lambda m: f"{m.group(1)}degree = activation_degree\n{m.group(1)}for hedge in reversed(proposition.hedges):\n{m.group(2)}degree = hedge.hedge(degree)", seg)
assert 'degree = hedge.hedge(degree)' in fixed
fixed = fixed.replace('Activated(proposition.term, activation_degree, implication)', 'Activated(proposition.term, degree, implication)')
assert fixed != seg
print()
fixed_ast = ast.parse(fixed).body[0]
run(fixed_ast, 'repaired body (local `degree`), same sidecar')
