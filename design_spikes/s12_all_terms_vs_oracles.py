# Spike S12: every remaining shape term of term.py (real AST) against the Appendix-A oracle, in XReal + UF axioms.
import ast, z3, math, time, io, contextlib
with contextlib.redirect_stdout(io.StringIO()):
    import s2_terms_xreal_from_ast as S2
    import s3_transcendental_uf_tsukamoto as S3
from xreal import *
COS = z3.Function('COS', z3.RealSort(), z3.RealSort()); POW = z3.Function('POW', z3.RealSort(), z3.RealSort(), z3.RealSort()); PI = z3.Real('PI')
class Ax(S3.Ax):
    def __init__(s): super().__init__(); s.cos=[]; s.pow=[]
    def xcos(s, a):
        s.cos.append(a.v); return X(z3.Or(a.nan, a.inf!=0), z3.IntVal(0), COS(a.v))
    def xpow(s, b, e):   # b >= 0 (abs), e finite >= 0 in our use
        s.pow.append((b.v, e.v)); p = POW(b.v, e.v)
        ezero = z3.And(e.inf==0, e.v==0)
        nan = z3.Or(b.nan, e.nan)
        inf = z3.If(z3.And(b.inf!=0, z3.Not(ezero)), 1, 0)
        return X(nan, z3.If(nan,0,inf), z3.If(ezero, 1, p))
    def axioms(s):
        ax = super().axioms() + [PI > z3.RealVal('3.14159'), PI < z3.RealVal('3.1416')]
        for t in s.cos: ax += [COS(t)>=-1, COS(t)<=1, z3.Implies(t==0, COS(t)==1), z3.Implies(t==PI, COS(t)==-1), z3.Implies(t==-PI, COS(t)==-1)]
        for b,e in s.pow: ax += [z3.Implies(b>=0, POW(b,e)>=0), z3.Implies(z3.And(b==0, e>0), POW(b,e)==0), z3.Implies(e==0, POW(b,e)==1)]
        return ax
class Exec(S3.Exec):
    def ev(s, e):
        if isinstance(e, ast.Attribute) and isinstance(e.value, ast.Name) and e.value.id=='np' and e.attr=='pi': return X(z3.BoolVal(False), z3.IntVal(0), PI)
        if isinstance(e, ast.IfExp):
            c = s.ev(e.test); return ite(c, s.num(s.ev(e.body)), s.num(s.ev(e.orelse)))
        if isinstance(e, ast.UnaryOp) and isinstance(e.op, ast.USub) and isinstance(e.operand, ast.Constant): return const(-e.operand.value)
        if isinstance(e, ast.BinOp) and isinstance(e.op, ast.Pow) and not (isinstance(e.right, ast.Constant) and e.right.value==2):
            raise NotImplementedError('pow')
        if isinstance(e, ast.Call):
            f = e.func
            if isinstance(f, ast.Attribute) and f.attr=='membership' and isinstance(f.value, ast.Call):   # Cls(kw=...).membership(x): inline via that class's real AST
                cls = f.value.func.id; kw = {k.arg: s.num(s.ev(k.value)) for k in f.value.keywords}
                kw.setdefault('height', const(1.0))
                return Exec(kw, s.ax).run(S2.find(cls, 'membership'), {'x': s.ev(e.args[0])})
            name = f.id if isinstance(f, ast.Name) else (f.value.id + '.' + f.attr if isinstance(f.value, ast.Name) else None)
            if name=='np.cos': return s.ax.xcos(s.num(s.ev(e.args[0])))
            if name=='np.power': return s.ax.xpow(s.num(s.ev(e.args[0])), s.num(s.ev(e.args[1])))
        return super().ev(e)
    def boo(s, v):
        if isinstance(v, X): raise TypeError
        return super().boo(v)
    def run(s, fn, args):
        # Python bools from float comparisons used with & | and as np.where values: already z3 Bools in this executor
        return super().run(fn, args)
res = []
def prove(name, hyps, goal, to=60000):
    so = z3.Solver(); so.set('timeout', to); so.add(*hyps); so.add(z3.Not(goal)); t=time.time(); r=so.check()
    v = 'proved' if r==z3.unsat else str(r); res.append(v)
    print(f'  {name:44s} {v:8s} {time.time()-t:.2f}s')
    if r==z3.sat:
        m=so.model(); print('      ', {str(d): m[d] for d in m.decls() if '.' in str(d) and 'sqrt' not in str(d)})
def setup(params): return S2.setup(params)
H = S2.H; NAN, ZERO, ONE = S2.NAN, S2.ZERO, S2.ONE
def F(*xs): return z3.And(*[fin(x) for x in xs])
def std(term, se, x, hy, valid, spec, ax, monotone=None):
    print(term)
    y = Exec(se, ax).run(S2.find(term, 'membership'), {'x': x})
    sp = spec(ax)
    A = ax.axioms()
    so = z3.Solver(); so.add(*hy, valid, *A); assert so.check()==z3.sat, 'vacuous precondition'
    prove('closed form (Appendix A)', hy+[valid]+A, same(y, sp))
    prove('nan iff x nan', hy+[valid]+A, y.nan==x.nan)
    prove('range [0,h]', hy+[valid, z3.Not(x.nan)]+A, z3.And(fin(y), y.v>=0, y.v<=se['height'].v))
    return y
two, half, ten = const(2.0), const(0.5), const(10.0)
# Arc
se,x,hy = setup(['start','end','height']); s_,e_,h = se['start'],se['end'],se['height']; ax=Ax()
def arc_spec(ax):
    r = sub(e_,s_); c = e_
    inside = z3.Or(z3.And(lt(s_,e_), le(s_,x), le(x,e_)), z3.And(gt(s_,e_), le(e_,x), le(x,s_)))
    beyond_end = z3.Or(z3.And(lt(s_,e_), gt(x,e_)), z3.And(gt(s_,e_), lt(x,e_)))
    absr = ite(ge(r,ZERO), r, neg(r))
    return ite(x.nan, NAN, ite(inside, div(mul(h, ax.xsqrt(sub(square(r), square(sub(x,c))))), absr), ite(beyond_end, h, ZERO)))
std('Arc', se, x, hy, z3.And(H(se), F(s_,e_), s_.v!=e_.v), arc_spec, ax)
# Bell
se,x,hy = setup(['center','width','slope','height']); c_,w_,sl,h = se['center'],se['width'],se['slope'],se['height']; ax=Ax()
def bell_spec(ax):
    d = sub(x,c_); ad = X(d.nan, z3.If(d.inf!=0,1,0), z3.If(d.v>=0,d.v,-d.v))
    return ite(x.nan, NAN, div(h, add(ONE, ax.xpow(div(ad, w_), mul(two, sl)))))
std('Bell', se, x, hy, z3.And(H(se), F(c_,w_,sl), w_.v>0, sl.v>=0), bell_spec, ax)
# Binary
se,x,hy = setup(['start','direction','height']); s_,d_,h = se['start'],se['direction'],se['height']; ax=Ax()
std('Binary', se, x, hy, z3.And(H(se), fin(s_), z3.Not(d_.nan), d_.inf!=0),
    lambda ax: ite(x.nan, NAN, ite(z3.Or(z3.And(d_.inf==1, ge(x,s_)), z3.And(d_.inf==-1, le(x,s_))), h, ZERO)), ax)
# Concave
se,x,hy = setup(['inflection','end','height']); i_,e_,h = se['inflection'],se['end'],se['height']; ax=Ax()
std('Concave', se, x, hy, z3.And(H(se), F(i_,e_), i_.v!=e_.v),
    lambda ax: ite(x.nan, NAN, ite(z3.And(le(i_,e_), lt(x,e_)), mul(h, div(sub(e_,i_), sub(sub(mul(two,e_),i_),x))),
                   ite(z3.And(gt(i_,e_), gt(x,e_)), mul(h, div(sub(i_,e_), add(sub(i_,mul(two,e_)),x))), h))), ax)
# Cosine
se,x,hy = setup(['center','width','height']); c_,w_,h = se['center'],se['width'],se['height']; ax=Ax()
std('Cosine', se, x, hy, z3.And(H(se), F(c_,w_), w_.v>0),
    lambda ax: ite(x.nan, NAN, ite(z3.And(ge(x, sub(c_, mul(half,w_))), le(x, add(c_, mul(half,w_)))),
                   mul(div(h,two), add(ONE, ax.xcos(mul(mul(div(two,w_), X(z3.BoolVal(False),z3.IntVal(0),PI)), sub(x,c_))))), ZERO)), ax)
# GaussianProduct
se,x,hy = setup(['mean_a','standard_deviation_a','mean_b','standard_deviation_b','height']); ma,sa,mb,sb,h = [se[k] for k in ['mean_a','standard_deviation_a','mean_b','standard_deviation_b','height']]; ax=Ax()
def G(ax, m, sd): return ax.xexp(div(neg(square(sub(x,m))), mul(two, square(sd))))
std('GaussianProduct', se, x, hy, z3.And(H(se), F(ma,sa,mb,sb), sa.v!=0, sb.v!=0),
    lambda ax: ite(x.nan, NAN, mul(mul(h, ite(lt(x,ma), G(ax,ma,sa), ONE)), ite(gt(x,mb), G(ax,mb,sb), ONE))), ax)
# SemiEllipse
se,x,hy = setup(['start','end','height']); s_,e_,h = se['start'],se['end'],se['height']; ax=Ax()
def se_spec(ax):
    lo = ite(lt(e_,s_), e_, s_); hi = ite(lt(e_,s_), s_, e_); r = div(sub(hi,lo), two); c = div(add(lo,hi), two)
    return ite(x.nan, NAN, ite(z3.And(ge(x,lo), le(x,hi)), mul(h, div(ax.xsqrt(sub(square(r), square(sub(x,c)))), r)), ZERO))
std('SemiEllipse', se, x, hy, z3.And(H(se), F(s_,e_), s_.v!=e_.v), se_spec, ax)
# Sigmoid-based
def Sig(ax, i, s): return div(ONE, add(ONE, ax.xexp(mul(neg(s), sub(x,i)))))
for term in ('SigmoidDifference','SigmoidProduct'):
    se,x,hy = setup(['left','rising','falling','right','height']); l_,r_,f_,ri,h = [se[k] for k in ['left','rising','falling','right','height']]; ax=Ax()
    if term=='SigmoidDifference':
        def spec(ax):
            d = sub(Sig(ax,l_,r_), Sig(ax,ri,f_)); return ite(x.nan, NAN, mul(h, X(d.nan, z3.IntVal(0), z3.If(d.v>=0,d.v,-d.v))))
    else:
        spec = lambda ax: ite(x.nan, NAN, mul(h, mul(Sig(ax,l_,r_), Sig(ax,ri,f_))))
    std(term, se, x, hy, z3.And(H(se), F(l_,r_,f_,ri), r_.v!=0, f_.v!=0), spec, ax)
# Spike
se,x,hy = setup(['center','width','height']); c_,w_,h = se['center'],se['width'],se['height']; ax=Ax()
def spike_spec(ax):
    t = mul(div(ten,w_), sub(x,c_)); at = X(t.nan, z3.If(t.inf!=0,1,0), z3.If(t.v>=0,t.v,-t.v))
    return ite(x.nan, NAN, mul(h, ax.xexp(neg(at))))
std('Spike', se, x, hy, z3.And(H(se), F(c_,w_), w_.v>0), spike_spec, ax)
# ZShape, PiShape
se,x,hy = setup(['start','end','height']); s_,e_,h = se['start'],se['end'],se['height']; ax=Ax()
mid = mul(half, add(s_,e_))
def Z(s_, e_, h): 
    mid = mul(half, add(s_,e_))
    return ite(le(x,s_), h, ite(lt(x,mid), sub(h, mul(mul(two,h), square(div(sub(x,s_), sub(e_,s_))))), ite(lt(x,e_), mul(mul(two,h), square(div(sub(x,e_), sub(e_,s_)))), ZERO)))
def Ssh(s_, e_, h):
    mid = mul(half, add(s_,e_))
    return ite(le(x,s_), ZERO, ite(le(x,mid), mul(mul(two,h), square(div(sub(x,s_), sub(e_,s_)))), ite(lt(x,e_), sub(h, mul(mul(two,h), square(div(sub(x,e_), sub(e_,s_))))), h)))
std('ZShape', se, x, hy, z3.And(H(se), F(s_,e_), s_.v<e_.v), lambda ax: ite(x.nan, NAN, Z(s_,e_,h)), ax)
se,x,hy = setup(['bottom_left','top_left','top_right','bottom_right','height']); a,b,c,d,h = [se[k] for k in ['bottom_left','top_left','top_right','bottom_right','height']]; ax=Ax()
std('PiShape', se, x, hy, z3.And(H(se), F(a,b,c,d), a.v<b.v, b.v<=c.v, c.v<d.v), lambda ax: ite(x.nan, NAN, mul(mul(h, Ssh(a,b,ONE)), Z(c,d,ONE))), ax)
print('\nSUMMARY', {k: res.count(k) for k in set(res)})
