import z3, time
R=z3.RealSort(); I=z3.IntSort()
x = z3.Function('x', I, R); w = z3.Function('w', I, R)
SW = z3.Function('SW', I, R)   # sum_{j<n} w(j)
SXW = z3.Function('SXW', I, R) # sum_{j<n} x(j) w(j)
n = z3.Int('n'); lo,hi,c = z3.Reals('lo hi c')
defs = lambda k: [SW(0)==0, SXW(0)==0, SW(k+1)==SW(k)+w(k), SXW(k+1)==SXW(k)+x(k)*w(k)]
def prove(name, hyps, goal):
    s=z3.Solver(); s.set('timeout',60000); s.add(*hyps); s.add(z3.Not(goal)); t=time.time(); r=s.check()
    print(f'{name:50s}', 'proved' if r==z3.unsat else r, f'{time.time()-t:.2f}s')
# Lemma A(n): (forall j<n: lo<=x(j)<=hi, w(j)>=0) -> lo*SW(n) <= SXW(n) <= hi*SW(n)  and SW(n)>=0
A = lambda k: z3.And(lo*SW(k)<=SXW(k), SXW(k)<=hi*SW(k), SW(k)>=0)
prove('A base', defs(n), A(0))
prove('A step', defs(n)+[n>=0, A(n), lo<=x(n), x(n)<=hi, w(n)>=0], A(n+1))
# consequence: SW(n)>0 -> lo <= SXW(n)/SW(n) <= hi
prove('centroid in [lo,hi] from A', [A(n), SW(n)>0], z3.And(lo<=SXW(n)/SW(n), SXW(n)/SW(n)<=hi))
# Lemma T(n): translation: sum (x(j)+c) w(j) = SXW(n) + c SW(n)
SXCW = z3.Function('SXCW', I, R)
prove('T step', defs(n)+[SXCW(n+1)==SXCW(n)+(x(n)+c)*w(n), SXCW(n)==SXW(n)+c*SW(n)], SXCW(n+1)==SXW(n+1)+c*SW(n+1))
prove('translation of centroid', [SXCW(n)==SXW(n)+c*SW(n), SW(n)!=0], SXCW(n)/SW(n)==SXW(n)/SW(n)+c)
# Lemma Z(n): all w(j)==0 (j<n) <-> SW(n)==0 given w>=0
Zh = lambda k: z3.And(SW(k)>=0)
allzero = z3.Function('allzero', I, z3.BoolSort())
prove('Z step', defs(n)+[n>=0, w(n)>=0, SW(n)>=0, allzero(n)==(SW(n)==0), allzero(n+1)==z3.And(allzero(n), w(n)==0)], allzero(n+1)==(SW(n+1)==0))
# midpoints in range: x(j) = lo + (j+0.5)*((hi-lo)/r), 0<=j<r  => lo < x(j) < hi   (lo<hi)
j=z3.Int('j'); r=z3.Int('r')
xm = lo + (z3.ToReal(j)+0.5)*((hi-lo)/z3.ToReal(r))
prove('midpoints strictly inside range', [lo<hi, r>=1, j>=0, j<r], z3.And(lo<xm, xm<hi))
