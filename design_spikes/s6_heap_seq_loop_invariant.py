import z3, time
# Heap model (Boogie style): Ref sort; per-field maps. Conclusions: Seq of Ref (propositions).
Ref = z3.DeclareSort('Ref')
Val = z3.DeclareSort('Val')         # abstract Scalar (float or batch) - wiring proofs are polymorphic in it
Act = z3.Datatype('Act'); Act.declare('mk', ('term',Ref), ('degree',Val), ('impl',Ref)); Act = Act.create()
SeqAct = z3.SeqSort(Act); SeqRef = z3.SeqSort(Ref)
var_of = z3.Function('prop.variable', Ref, Ref)
term_of = z3.Function('prop.term', Ref, Ref)
hedges_of = z3.Function('prop.hedges', Ref, SeqRef)
enabled = z3.Function('var.enabled', Ref, z3.BoolSort())
hedge_fn = z3.Function('hedge', Ref, Val, Val)          # contract of Hedge.hedge: pure function of (hedge object, x)
clean = z3.Function('clean', Val, Val)                   # Activated.degree setter (nan_to_num)
# apply hedges reversed: spec function, recursive on prefix length j counted from the end
apph = z3.Function('apply_hedges', SeqRef, z3.IntSort(), Val, Val)   # apph(hs, j, d): apply last j hedges (from last to first)
# contrib(v, k): Seq of Act appended to variable v by conclusions[0:k]
concl = z3.Const('concl', SeqRef); d0 = z3.Const('d0', Val); impl = z3.Const('impl', Ref)
contrib = z3.Function('contrib', Ref, z3.IntSort(), SeqAct)
def act_of(p, d): return Act.mk(term_of(p), clean(apph(hedges_of(p), z3.Length(hedges_of(p)), d)), impl)
k = z3.Int('k'); v = z3.Const('v', Ref)
# definitional axioms, instantiated for the k of the iteration (one unfolding) - quantified over v
def contrib_step(kk):
    p = concl[kk]; w = z3.Const('w', Ref)
    return z3.ForAll([w], contrib(w, kk+1) == z3.If(z3.And(var_of(p)==w, enabled(w)), z3.Concat(contrib(w,kk), z3.Unit(act_of(p, d0))), contrib(w,kk)))
terms0 = z3.Function('terms@pre', Ref, SeqAct)     # fuzzy.terms before the call, per variable
terms_k = z3.Function('terms@k', Ref, SeqAct)      # at loop head
terms_k1 = z3.Function('terms@k+1', Ref, SeqAct)   # after the body
def inv(terms, kk, deg):
    w = z3.Const('w', Ref)
    return z3.And(z3.ForAll([w], terms(w) == z3.Concat(terms0(w), contrib(w, kk))), deg == d0)
def body_effect(deg_in, fixed):
    # symbolic execution of the loop body for conclusion p = concl[k]
    p = concl[k]; w = z3.Const('w', Ref)
    hd = apph(hedges_of(p), z3.Length(hedges_of(p)), deg_in)       # inner loop summarised by its (separately proved) invariant
    new = Act.mk(term_of(p), clean(hd), impl)
    eff = z3.ForAll([w], terms_k1(w) == z3.If(z3.And(w==var_of(p), enabled(var_of(p))), z3.Concat(terms_k(w), z3.Unit(new)), terms_k(w)))
    deg_out = deg_in if fixed else z3.If(enabled(var_of(p)), hd, deg_in)   # the pinned code reassigns activation_degree
    return eff, deg_out
for fixed in (True, False):
    s = z3.Solver(); s.set('timeout', 60000)
    deg_k = z3.Const('deg@k', Val)
    eff, deg_out = body_effect(deg_k, fixed)
    s.add(k>=0, k<z3.Length(concl), inv(terms_k, k, deg_k), contrib_step(k), eff)
    s.add(z3.Not(inv(terms_k1, k+1, deg_out)))
    t=time.time(); r=s.check(); print('invariant preserved' if fixed else 'pinned code (degree reassigned)', ':', 'proved' if r==z3.unsat else r, f'{time.time()-t:.2f}s')
    if r==z3.sat:
        m=s.model(); print('   k=',m[k], ' hedges len=', m.eval(z3.Length(hedges_of(concl[k]))), ' enabled=', m.eval(enabled(var_of(concl[k]))))
