# Spike 1: norm laws in nonlinear real arithmetic (z3 + cvc5 fallback)
import time, z3
a,b,c,a2 = z3.Reals('a b c a2')
def unit(*xs): return z3.And(*[z3.And(x>=0, x<=1) for x in xs])
def Min(x,y): return z3.If(x<=y,x,y)
def Max(x,y): return z3.If(x>=y,x,y)
T = {
 'AlgebraicProduct': lambda x,y: x*y,
 'BoundedDifference': lambda x,y: Max(0, x+y-1),
 'DrasticProduct': lambda x,y: z3.If(Max(x,y)==1, Min(x,y), 0),
 'EinsteinProduct': lambda x,y: (x*y)/(2-(x+y-x*y)),
 'HamacherProduct': lambda x,y: z3.If(x+y!=0, (x*y)/(x+y-x*y), 0),
 'Minimum': Min,
 'NilpotentMinimum': lambda x,y: z3.If(x+y>1, Min(x,y), 0),
}
S = {
 'AlgebraicSum': lambda x,y: x+y-x*y,
 'BoundedSum': lambda x,y: Min(1, x+y),
 'DrasticSum': lambda x,y: z3.If(Min(x,y)==0, Max(x,y), 1),
 'EinsteinSum': lambda x,y: (x+y)/(1+x*y),
 'HamacherSum': lambda x,y: z3.If(x*y!=1, (x+y-2*x*y)/(1-x*y), 1),
 'Maximum': Max,
 'NilpotentMaximum': lambda x,y: z3.If(x+y<1, Max(x,y), 1),
 'NormalizedSum': lambda x,y: (x+y)/Max(1,x+y),
}
dual = {'AlgebraicProduct':'AlgebraicSum','BoundedDifference':'BoundedSum','DrasticProduct':'DrasticSum','EinsteinProduct':'EinsteinSum','HamacherProduct':'HamacherSum','Minimum':'Maximum','NilpotentMinimum':'NilpotentMaximum'}
def prove(name, hyp, goal, to=20000):
    s = z3.Solver(); s.set('timeout', to)
    s.add(hyp, z3.Not(goal))
    t=time.time(); r = s.check(); dt=time.time()-t
    print(f"  {name:40s} {'proved' if r==z3.unsat else str(r):8s} {dt:.2f}s", flush=True)
    return r
for n,f in T.items():
    print(n)
    prove('range', unit(a,b), z3.And(f(a,b)>=0, f(a,b)<=1))
    prove('comm', unit(a,b), f(a,b)==f(b,a))
    prove('mono', z3.And(unit(a,b,a2), a<=a2), f(a,b)<=f(a2,b))
    prove('assoc', unit(a,b,c), f(f(a,b),c)==f(a,f(b,c)))
    prove('ident', unit(a), f(a,1)==a)
    prove('annih', unit(a), f(a,0)==0)
    prove('le_min', unit(a,b), f(a,b)<=Min(a,b))
    g = S[dual[n]]
    prove('dual', unit(a,b), g(a,b)==1-f(1-a,1-b))
for n,f in S.items():
    print(n)
    prove('range', unit(a,b), z3.And(f(a,b)>=0, f(a,b)<=1))
    prove('comm', unit(a,b), f(a,b)==f(b,a))
    prove('mono', z3.And(unit(a,b,a2), a<=a2), f(a,b)<=f(a2,b))
    if n!='NormalizedSum': prove('assoc', unit(a,b,c), f(f(a,b),c)==f(a,f(b,c)))
    prove('ident', unit(a), f(a,0)==a)
    prove('annih', unit(a), f(a,1)==1)
    prove('ge_max', unit(a,b), f(a,b)>=Max(a,b))
