# Spike S9: closure-valued arrays + shape algebra; Activated.membership -> Aggregated.membership -> Centroid.defuzzify
# Values: Arr(shape: tuple of python ints/'N'/'r' resolved per case, elem: closure(idx tuple)->z3 Real). Reals only (A-REAL) to test shapes+sums.
import z3, itertools, time
R = z3.RealSort(); I = z3.IntSort()
class Arr:
    def __init__(s, shape, elem): s.shape=tuple(shape); s.elem=elem
def one(d): return isinstance(d,int) and d==1
def same(x,y): return (x is y) or (not isinstance(x,int) and not isinstance(y,int) and x.eq(y)) or (isinstance(x,int) and isinstance(y,int) and x==y)
def bshape(a,b):
    ra, rb = len(a), len(b); n = max(ra,rb); a=(1,)*(n-ra)+a; b=(1,)*(n-rb)+b; out=[]
    for x,y in zip(a,b):
        if one(x): out.append(y)
        elif one(y) or same(x,y): out.append(x)
        else: raise ValueError(f'shape mismatch {a} {b}')
    return tuple(out)
def bidx(shape, out_rank, idx):   # index into operand of `shape` when result has out_rank dims, numpy broadcasting
    idx = idx[out_rank-len(shape):]
    return tuple(0 if one(d) else i for d,i in zip(shape, idx))
def ew(f, a, b):
    sh = bshape(a.shape,b.shape); n=len(sh)
    return Arr(sh, lambda *i: f(a.elem(*bidx(a.shape,n,i)), b.elem(*bidx(b.shape,n,i))))
def atleast_2d(a):
    if len(a.shape)==0: return Arr((1,1), lambda i,j: a.elem())
    if len(a.shape)==1: return Arr((1,a.shape[0]), lambda i,j: a.elem(j))
    return a
def T(a): return Arr((a.shape[1],a.shape[0]), lambda i,j: a.elem(j,i))
def squeeze(a):
    keep=[k for k,d in enumerate(a.shape) if not one(d)]
    def el(*i):
        full=[0]*len(a.shape)
        for k,ii in zip(keep,i): full[k]=ii
        return a.elem(*full)
    return Arr(tuple(a.shape[k] for k in keep), el)
_cnt=[0]
def sum_axis1(a, axioms):
    # a: (n, m) -> (n,) ; introduce recursive partial-sum function S(i, t) = sum_{j<t} a[i,j]
    n,m = a.shape; _cnt[0]+=1
    S = z3.Function(f'S{_cnt[0]}', I, I, R)
    axioms.append((S, a))
    return Arr((n,), lambda i: S(i, m))
def run(Ncase, rcase):
    N = z3.Int('N'); r = z3.Int('r'); hy=[]
    Nv = 1 if Ncase=='=1' else N; rv = 1 if rcase=='=1' else r
    if Ncase!='=1': hy.append(N>1)
    if rcase!='=1': hy.append(r>1)
    lo,hi = z3.Reals('lo hi'); hy.append(lo<hi)
    deg = z3.Function('deg', I, R); mu = z3.Function('mu', R, R); Tn = z3.Function('Timpl', R, R, R); Sn = z3.Function('Sagg', R, R, R)
    rr = z3.ToReal(r) if rcase!='=1' else z3.RealVal(1)
    # Op.midpoints: start + (arange(r)+0.5)*((end-start)/r)  -> shape (r,)
    x1 = Arr((rv,), lambda j: lo + (z3.ToReal(j)+0.5)*((hi-lo)/rr))
    x = atleast_2d(x1)                                             # (1,r)
    degree = Arr((Nv,), lambda i: deg(i)) if Ncase!='=1' else Arr((), lambda: deg(0))   # batch degrees (N,) or scalar
    # Activated.membership: implication.compute(atleast_2d(degree).T, term.membership(x)).squeeze()
    mux = Arr(x.shape, lambda i,j: mu(x.elem(i,j)))                # elementwise contract of term.membership
    act = squeeze(ew(lambda a,b: Tn(a,b), T(atleast_2d(degree)), mux))
    # Aggregated.membership: y = scalar(0.0); y = aggregation.compute(y, act)
    y0 = Arr((), lambda: z3.RealVal(0)); agg = ew(lambda a,b: Sn(a,b), y0, act)
    # Centroid: y = atleast_2d(agg); z = ((x*y).sum(axis=1) / y.sum(axis=1)).squeeze()
    y = atleast_2d(agg); ax=[]
    num = sum_axis1(ew(lambda a,b: a*b, x, y), ax); den = sum_axis1(y, ax)
    z = squeeze(ew(lambda a,b: a/b, num, den))
    want_shape = () if Ncase=='=1' else ('N',)
    got = tuple('N' if (not isinstance(d,int) and d.eq(N)) else ('r' if (not isinstance(d,int) and d.eq(r)) else d) for d in z.shape)
    return got, want_shape, (x,y,num,den,z,ax,hy,N,r)
for Nc, rc in itertools.product(('=1','>1'),('=1','>1')):
    try:
        got, want, _ = run(Nc, rc)
        print(f'N{Nc} r{rc}: result shape {got}  expected {want}  ->', 'shape OK' if got==want else 'SHAPE OBLIGATION REFUTED')
    except ValueError as e:
        print(f'N{Nc} r{rc}: broadcasting error (real numpy would raise): {e}')

# ---- value clauses in the case N>1, r>1 : lemma *schemas* instantiated on this instance's element closures
def prove(name, hyps, goal):
    s=z3.Solver(); s.set('timeout',60000); s.add(*hyps); s.add(z3.Not(goal)); t=time.time(); res=s.check()
    print(f'  {name:58s}', 'proved' if res==z3.unsat else res, f'{time.time()-t:.2f}s'); return res
got, want, (x,y,num,den,z,ax,hy,N,r) = run('>1','>1')
i = z3.Int('i'); t = z3.Int('t')
hy += [i>=0, i<N]
(Snum, anum), (Sden, aden) = ax
# definitional unfoldings (ground in i, at t) of the code's reductions
def unfold(S, a, tt): return [S(i,0)==0, S(i,tt+1)==S(i,tt)+a.elem(i,tt)]
# spec: independent recursive sums over mu_ij = Sagg(0, Timpl(deg(i), mu(x_j)))
deg = z3.Function('deg', I, R); mu = z3.Function('mu', R, R); Tn = z3.Function('Timpl', R, R, R); Sn = z3.Function('Sagg', R, R, R)
lo,hi = z3.Reals('lo hi')
xj = lambda j: lo + (z3.ToReal(j)+0.5)*((hi-lo)/z3.ToReal(r))
muij = lambda j: Sn(0, Tn(deg(i), mu(xj(j))))
PN = z3.Function('specnum', I, R); PD = z3.Function('specden', I, R)
spec_unfold = lambda tt: [PN(0)==0, PD(0)==0, PN(tt+1)==PN(tt)+xj(tt)*muij(tt), PD(tt+1)==PD(tt)+muij(tt)]
# schema EXT (extensionality): forall t<=r. Snum(i,t)==PN(t) and Sden(i,t)==PD(t)   -- induction on t
E = lambda tt: z3.And(Snum(i,tt)==PN(tt), Sden(i,tt)==PD(tt))
prove('EXT base', hy+unfold(Snum,anum,t)+unfold(Sden,aden,t)+spec_unfold(t), E(0))
prove('EXT step', hy+[t>=0, t<r, E(t)]+unfold(Snum,anum,t)+unfold(Sden,aden,t)+spec_unfold(t), E(t+1))
prove('Centroid formula: z[i] == specnum(r)/specden(r)', hy+[E(r)], z.elem(i)==PN(r)/PD(r))
# schema WM (weighted mean bounds) on the spec sums, premise mu_ij >= 0 (from the norm range contracts), x_j in (lo,hi)
A = lambda tt: z3.And(lo*PD(tt)<=PN(tt), PN(tt)<=hi*PD(tt), PD(tt)>=0)
prove('WM base', hy+spec_unfold(t), A(0))
prove('WM step', hy+[t>=0, t<r, A(t), muij(t)>=0]+spec_unfold(t), A(t+1))
prove('Centroid in [lo,hi] when total > 0', hy+[E(r), A(r), PD(r)>0], z3.And(lo<=z.elem(i), z.elem(i)<=hi))
# mutant: midpoints without +0.5 would break 'x_j inside the range' premise used by WM step:
prove('midpoint inside range (premise of WM step)', hy+[t>=0,t<r], z3.And(lo<xj(t), xj(t)<hi))
