import z3, time, struct
F = z3.Float64(); RNE = z3.RNE()
def fpval(m, v): 
    x = m.eval(v, model_completion=True)
    # convert to python float
    return float.fromhex(hex(int(str(z3.simplify(z3.fpToIEEEBV(x)).as_long())))) if False else x
def tofloat(m, v):
    bv = m.eval(z3.fpToIEEEBV(v), model_completion=True).as_long()
    return struct.unpack('>d', bv.to_bytes(8,'big'))[0]
# (A) Arc: right (s<e), x = e:  condition (s <= x) & (x <= c) with c = s + (e - s)
s,e = z3.FP('s',F), z3.FP('e',F)
sol = z3.Solver(); sol.set('timeout', 120000)
finite = lambda v: z3.And(z3.Not(z3.fpIsNaN(v)), z3.Not(z3.fpIsInf(v)))
c = z3.fpAdd(RNE, s, z3.fpSub(RNE, e, s))
sol.add(finite(s), finite(e), z3.fpLT(s,e), z3.Not(z3.fpLEQ(e, c)))
t=time.time(); r=sol.check(); print('Arc end-point branch can be missed:', r, f'{time.time()-t:.2f}s')
if r==z3.sat:
    m=sol.model(); print('   s=',repr(tofloat(m,s)),'e=',repr(tofloat(m,e)))
# with a bounded "reasonable" magnitude to get a friendlier witness
sol.add(z3.fpLEQ(z3.FPVal(-100.0,F), s), z3.fpLEQ(e, z3.FPVal(100.0,F)))
r=sol.check(); m=sol.model(); print('   bounded:', r, 's=',repr(tofloat(m,s)),'e=',repr(tofloat(m,e)))
# (A2) SemiEllipse at x = s: r=(e-s)/2; c=s+r; arg = r*r - (x-c)*(x-c) < 0 ?
sol = z3.Solver(); sol.set('timeout', 300000)
two = z3.FPVal(2.0,F)
r_ = z3.fpDiv(RNE, z3.fpSub(RNE,e,s), two); c = z3.fpAdd(RNE, s, r_)
d = z3.fpSub(RNE, s, c)
arg = z3.fpSub(RNE, z3.fpMul(RNE,r_,r_), z3.fpMul(RNE,d,d))
sol.add(finite(s), finite(e), z3.fpLT(s,e), z3.fpLEQ(z3.FPVal(-100.0,F), s), z3.fpLEQ(e, z3.FPVal(100.0,F)), z3.fpLT(arg, z3.FPVal(0.0,F)))
t=time.time(); r=sol.check(); print('SemiEllipse sqrt arg negative at x=start:', r, f'{time.time()-t:.2f}s')
if r==z3.sat:
    m=sol.model(); print('   s=',repr(tofloat(m,s)),'e=',repr(tofloat(m,e)))
