"""C16 - Malformed rule and FLL text is rejected cleanly, never accepted or crashed on (DESIGN 8/C16).

The three rule parsers are finite-state machines over whitespace tokens; each is verified from the real AST for ARBITRARY token
sequences (tokens are abstract strings; classification uses the predicates the code itself uses).  The loop head is split per
concrete state value, the invariant is a map state -> predicate.  Obligations: every implicit precondition holds (no pop from an
empty stack, no attribute of None, operator operand types), the only exceptions are SyntaxError / ValueError, success implies the
grammar shape, and a failed load leaves the part unloaded.
"""
import sys, os
sys.path.insert(0, os.path.dirname(os.path.dirname(os.path.abspath(__file__))))
import ast
import z3
from pyvc import xreal as xr
from pyvc.numexec import Num, Bool, Unsupported, ANALYSIS
from pyvc.heap import (alloc, HeapExec, HPath, LoopSpec, Contract, Ref, Str, NONE, XR, cls_of, SeqRef, SeqStr, x2xr, xr2x, RefV, SeqV, StrV, canon, strc, str_distinct)
from pyvc.parsers import ParserExec, split_fn, join_fn, find_hash, prefix_fn, to_float_ok, to_float_fn, lookup, is_hedge, hedge_tok
from pyvc.hlib import init_heap, emit, frame_goal
from pyvc.solve import Obl, static, undecided
from pyvc.runner import main
from pyvc.source import NotFound, body_of
from pyvc.xreal import X
from contracts import wiring as W

N_ = "contracts.parsing_native"
# classes the property does not demand (DESIGN 8/C16): a non-infix ARRANGEMENT of a complete token set that the shunting-yard passes through
# (`a is t a is t and`), and engines that import fine but cannot be processed for reasons outside the parser (no activation method, an
# empty Discrete term, mixed weighted-defuzzifier term kinds: readiness is C19's subject and these fail with a clean ValueError/TypeError there)
NOT_DEMANDED = ["accepted-malformed:antecedent-arrangement",
                # imported engines that report ready but cannot be processed for a reason OUTSIDE the parser, each failing with a clean error
                # (exactly the sites seen on the unchanged tree; any other site - e.g. a Function term left unloaded - is reported):
                "accepted-not-processable:ValueError@rule.py:activate",            # rule block without an `activation:` line
                "accepted-not-processable:ValueError@term.py:membership",          # Discrete term without pairs
                "accepted-not-processable:TypeError@defuzzifier.py:infer_type",    # weighted defuzzifier over mixed term kinds
                "accepted-not-processable:ValueError@term.py:evaluate"]            # Function term naming an unknown variable
RP_FLL = {"module": N_, "func": "replay_fll_mutations", "kwargs": {"budget": 40, "skip_classes": ["accepted-malformed:antecedent-arrangement", "accepted-not-processable:ValueError@rule.py:activate", "accepted-not-processable:ValueError@term.py:membership",
                                                                                        "accepted-not-processable:TypeError@defuzzifier.py:infer_type", "accepted-not-processable:ValueError@term.py:evaluate"]}, "vars": {}}
RP = {"module": N_, "func": "replay_rule_text", "kwargs": {"budget": 60, "skip_classes": NOT_DEMANDED}, "vars": {}}
ALLOWED = ("SyntaxError", "ValueError")


class PropositionCtor(Contract):
    """Proposition(variable): a new object (may alias nothing that matters here) with that variable, no hedges, no term"""
    modifies = ("Proposition.variable", "Proposition.hedges", "Proposition.term")

    def call(s, ex, p, recv, args, kwargs, node):
        r = ex.allocate(p, "prop")
        v = args[0].r if args else NONE
        p.pc += [cls_of(r) == ex.schema.ids["Proposition"]]
        H = p.heap
        p.heap = dict(H)
        p.heap["Proposition.variable"] = z3.Store(H["Proposition.variable"], r, v)
        p.heap["Proposition.hedges"] = z3.Store(H["Proposition.hedges"], r, z3.Empty(SeqRef))
        p.heap["Proposition.term"] = z3.Store(H["Proposition.term"], r, NONE)
        ex.writes |= set(s.modifies)
        p.env["__newprop__"] = r
        return RefV(r, "Proposition")


class OperatorCtor(Contract):
    modifies = ("Operator.name", "Operator.left", "Operator.right")

    def call(s, ex, p, recv, args, kwargs, node):
        r = ex.allocate(p, "oper")
        p.pc += [cls_of(r) == ex.schema.ids["Operator"]]
        H = p.heap
        p.heap = dict(H)
        p.heap["Operator.name"] = z3.Store(H["Operator.name"], r, ex.unwrap("str", args[0]))
        p.heap["Operator.left"] = z3.Store(H["Operator.left"], r, NONE)
        p.heap["Operator.right"] = z3.Store(H["Operator.right"], r, NONE)
        ex.writes |= set(s.modifies)
        p.env["__newop__"] = r
        return RefV(r, "Operator")


def raise_obligations(run, fq, outs, extra=None):
    """the only exceptions are syntax / value errors (never Type/Attribute/Index/Runtime errors)"""
    kinds = sorted({val for kind, val, q in outs if kind == "raise"})
    run.add(static(f"{fq}/raises.only_syntax_or_value_errors", all(k in ALLOWED for k in kinds), f"exception types on raising paths: {kinds}", fn=fq, meta={"replay": RP}))


# ------------------------------------------------------------------------------------------------ Rule.parse
def verify_rule_parse(run):
    src = run.src
    fq = "rule.Rule.parse"
    fn = src.func("rule", "Rule.parse")
    run.under_contract("rule", "Rule.parse", fn)
    sc = W.schema(src)
    H0 = init_heap(sc)
    self_ = z3.Const("self", Ref); text = z3.Const("text", Str)
    ja, jc = z3.Int("ja*"), z3.Int("jc*")
    IF, THEN, WITH = strc("if"), strc("then"), strc("with")
    # the token sequence the loop runs over (whatever comment stripping produced): arbitrary
    S_BEGIN, S_IF, S_THEN, S_WITH, S_END = range(5)

    def parts(p):
        A, C = ex.local(p, "antecedent").q, ex.local(p, "consequent").q
        return A, C, z3.Length(A), z3.Length(C)

    def shape(p, toks, state, k):
        """what has been consumed after k tokens in each state"""
        A, C, la, lc = parts(p)
        w = ex.num(p.env["weight"]).x
        one = xr.same(w, xr.const(1.0))
        a_ok = z3.Implies(z3.And(ja >= 0, ja < la), z3.And(A[ja] == toks[1 + ja], A[ja] != THEN))
        c_ok = z3.Implies(z3.And(jc >= 0, jc < lc), z3.And(C[jc] == toks[la + 2 + jc], C[jc] != WITH))
        if state == S_BEGIN:
            return z3.And(k == 0, la == 0, lc == 0, one)
        if state == S_IF:
            return z3.And(k == la + 1, toks[0] == IF, lc == 0, one, a_ok)
        if state == S_THEN:
            return z3.And(k == la + lc + 2, toks[0] == IF, toks[la + 1] == THEN, one, a_ok, c_ok)
        if state == S_WITH:
            return z3.And(k == la + lc + 3, toks[0] == IF, toks[la + 1] == THEN, toks[la + lc + 2] == WITH, one, a_ok, c_ok)
        if state == S_END:
            return z3.And(k == la + lc + 4, toks[0] == IF, toks[la + 1] == THEN, toks[la + lc + 2] == WITH, a_ok, c_ok,
                          to_float_ok(toks[la + lc + 3]), x2xr(w) == to_float_fn(toks[la + lc + 3]))
        return z3.BoolVal(False)

    def inv(ex_, p, k, seq):
        st = p.env["state"]
        if not isinstance(st, int):
            return z3.BoolVal(False)
        return shape(p, seq, st, k)

    ex = ParserExec(src, "rule", sc, interfaces=W.INTERFACES,
                    loops={0: LoopSpec(inv, name="loop0", modifies=set(), cases=[{"state": v} for v in range(5)])}, fnname=fq)
    pre = [self_ != NONE, H0["Rule.antecedent"][self_] != NONE, H0["Rule.consequent"][self_] != NONE]
    outs = ex.run_fn(fn, HPath({"self": RefV(self_, "Rule"), "text": StrV(text)}, pre, H0))
    emit(run, ex, fq, [], RP)
    raise_obligations(run, fq, outs)
    a, c = H0["Rule.antecedent"][self_], H0["Rule.consequent"][self_]
    for i, (kind, val, q) in enumerate(outs):
        tag = f"[path{i}]"
        if kind == "raise":
            run.add(Obl(f"{fq}/raises.state_unchanged{tag}", q.pc + str_distinct(), frame_goal(q, H0), fn=fq, meta={"replay": RP}))
            continue
        st = q.env["state"]
        toks = split_fn(z3.If(find_hash(text) == -1, text, prefix_fn(text, find_hash(text))))
        A, C, la, lc = parts(q)
        n = z3.Length(toks)
        # success => `if A then C [with number]`, A and C non-empty, nothing after the weight; the three fields are exactly these parts
        grammar = z3.And(z3.BoolVal(st in (S_THEN, S_END)), la > 0, lc > 0, toks[0] == IF, toks[la + 1] == THEN,
                         z3.Implies(z3.And(ja >= 0, ja < la), z3.And(A[ja] == toks[1 + ja], A[ja] != THEN)),
                         z3.Implies(z3.And(jc >= 0, jc < lc), z3.And(C[jc] == toks[la + 2 + jc], C[jc] != WITH)),
                         n == la + lc + (2 if st == S_THEN else 4))
        if st == S_END:
            grammar = z3.And(grammar, toks[la + lc + 2] == WITH, to_float_ok(toks[n - 1]))
        run.add(Obl(f"{fq}/accepts_only_grammar{tag}", q.pc + str_distinct(), grammar, fn=fq, meta={"replay": RP}))
        stored = z3.And(q.heap["Antecedent.text"][a] == join_fn(A), q.heap["Consequent.text"][c] == join_fn(C),
                        q.heap["Rule.weight"][self_] == x2xr(ex.num(q.env["weight"]).x))
        run.add(Obl(f"{fq}/ensures.fields{tag}", q.pc, stored, fn=fq, meta={"replay": RP}))
        run.add(Obl(f"{fq}/frame{tag}", q.pc, frame_goal(q, H0, {"Antecedent.text", "Consequent.text", "Rule.weight"}), fn=fq, meta={"replay": RP}))


# ------------------------------------------------------------------------------------------------ Consequent.load
def verify_consequent_load(run, RP=RP):
    """state machine + the FUNCTIONAL contract: conclusion j is exactly the tokens `variable is hedge* term` starting at position gpos(j) of the text - its
    variable is the output variable of that name, its hedges are the hedges constructed from the tokens between `is` and the term IN TEXT ORDER, its term
    is the variable's term of that name (ghosts: gpos(proposition) = position of its variable token, hedge_tok(hedge) = the name it was constructed from)"""
    from pyvc.hlib import split_invariants
    src = run.src
    fq = "rule.Consequent.load"
    fn = src.func("rule", "Consequent.load")
    run.under_contract("rule", "Consequent.load", fn)
    sc = W.schema(src)
    H0 = init_heap(sc)
    self_, eng = z3.Const("self", Ref), z3.Const("engine", Ref)
    S = {nm: 2 ** i for i, nm in enumerate(["variable", "is", "hedge", "term", "and", "with"])}
    HT, AW = S["hedge"] | S["term"], S["and"] | S["with"]
    jS, iS = z3.Int("j*"), z3.Int("i*")
    gpos = z3.Function("variable_token_position", Ref, z3.IntSort())
    VNAME, TNAME = sc.field_key("OutputVariable", "name"), sc.field_key("Term", "name")
    IS = strc("is")

    def shape(H, seq, r, complete):
        """what proposition r is, in terms of the tokens from gpos(r) on"""
        hs = H["Proposition.hedges"][r]
        g = gpos(r)
        c = [H[VNAME][H["Proposition.variable"][r]] == seq[g],
             z3.Implies(z3.And(iS >= 0, iS < z3.Length(hs)), z3.And(hs[iS] != NONE, hedge_tok(hs[iS]) == seq[g + 2 + iS]))]
        if complete:
            c += [seq[g + 1] == IS, H[TNAME][H["Proposition.term"][r]] == seq[g + 2 + z3.Length(hs)]]
        return z3.And(*c)

    def inv(ex_, p, k, seq):
        st = p.env["state"]
        if not isinstance(st, int) or st not in (S["variable"], S["is"], HT, AW):
            return z3.BoolVal(False)
        concl = ex_.local(p, "conclusions").q
        lc = z3.Length(concl)
        prop = p.env["proposition"]
        H = p.heap
        last = concl[lc - 1]
        # every conclusion started so far is an object with an output variable; all but possibly the last are complete
        wf_j = z3.Implies(z3.And(jS >= 0, jS < lc), z3.And(concl[jS] != NONE, alloc(concl[jS]) < ex_.now(p), H["Proposition.variable"][concl[jS]] != NONE,
                                                          gpos(concl[jS]) >= 0, gpos(concl[jS]) < k, z3.Implies(jS + 1 < lc, gpos(concl[jS]) < gpos(concl[jS + 1])),
                                                          z3.Implies(jS < lc - 1, z3.And(H["Proposition.term"][concl[jS]] != NONE, gpos(concl[jS]) < gpos(last), shape(H, seq, concl[jS], True)))))
        base = [H["Consequent.conclusions"][self_] == z3.Empty(SeqRef), wf_j]
        if st == S["variable"]:
            # before the first conclusion, or right after `and`: every conclusion is complete
            last_ok = z3.Implies(lc > 0, z3.And(H["Proposition.term"][last] != NONE, shape(H, seq, last, True)))
            return z3.And(*base, last_ok, z3.Implies(k == 0, lc == 0))
        cur = z3.And(lc > 0, isinstance(prop, RefV) and prop.r == last if isinstance(prop, RefV) else z3.BoolVal(False), last != NONE,
                     H["Proposition.variable"][last] != NONE)
        nh = z3.Length(H["Proposition.hedges"][last])
        if st == S["is"]:
            return z3.And(*base, cur, H["Proposition.term"][last] == NONE, gpos(last) == k - 1, nh == 0, shape(H, seq, last, False))
        if st == HT:
            return z3.And(*base, cur, H["Proposition.term"][last] == NONE, gpos(last) + 2 + nh == k, seq[gpos(last) + 1] == IS, shape(H, seq, last, False))
        return z3.And(*base, cur, H["Proposition.term"][last] != NONE, shape(H, seq, last, True))         # and|with: the current conclusion is complete

    def ghost(ex_, q, k, seq):
        return [gpos(q.env["__newprop__"]) == k] if "__newprop__" in q.env else []

    def facts(ex_, p, k, seq):
        return []

    def inst(ex_, p, k, seq):
        # the invariant is proved for arbitrary j*, i*: where it is assumed it may also be used for the LAST conclusion's hedge i* and at the last hedge
        st = p.env.get("state")
        if not isinstance(st, int):
            return []
        base = inv(ex_, p, k, seq)
        concl = ex_.local(p, "conclusions").q
        lc = z3.Length(concl)
        nh = z3.Length(p.heap["Proposition.hedges"][concl[lc - 1]])
        return [z3.substitute(base, (jS, lc - 1)), z3.substitute(base, (iS, nh - 1)), z3.substitute(base, (jS, lc - 2))]

    contracts = {"Proposition": PropositionCtor()}
    ex = ParserExec(src, "rule", sc, contracts=contracts, interfaces=W.INTERFACES, inline={"Consequent.unload", "Engine.variables"},
                    loops={0: LoopSpec(inv, facts=facts, ghost=ghost, name="loop0", modifies={"Proposition.variable", "Proposition.hedges", "Proposition.term"},
                                       cases=[{"state": v} for v in (S["variable"], S["is"], HT, AW)], inst=inst)}, fnname=fq)
    ex.skolems = [jS, iS, jS + 1]
    pre = [self_ != NONE, eng != NONE]
    outs = ex.run_fn(fn, HPath({"self": RefV(self_, "Consequent"), "engine": RefV(eng, "Engine")}, pre, H0))
    split_invariants(ex)
    emit(run, ex, fq, [], RP)
    raise_obligations(run, fq, outs)
    toks = split_fn(H0["Consequent.text"][self_])
    for i, (kind, val, q) in enumerate(outs):
        tag = f"[path{i}]"
        if kind == "raise":
            # load/atomic: a failed load leaves the consequent unloaded
            run.add(Obl(f"{fq}/raises.leaves_unloaded{tag}", q.pc + str_distinct(), z3.Length(q.heap["Consequent.conclusions"][self_]) == 0, fn=fq, meta={"replay": RP}))
            continue
        concl = q.heap["Consequent.conclusions"][self_]
        lc = z3.Length(concl)
        # success => at least one conclusion, every conclusion `variable is hedge* term` complete (variable and term present)
        ok = z3.And(lc > 0, z3.Implies(z3.And(jS >= 0, jS < lc), z3.And(concl[jS] != NONE, q.heap["Proposition.variable"][concl[jS]] != NONE, q.heap["Proposition.term"][concl[jS]] != NONE)))
        run.add(Obl(f"{fq}/accepts_only_complete_conclusions{tag}", q.pc + str_distinct(), ok, fn=fq, meta={"replay": RP}))
        # ... and every conclusion is the reading of its own tokens: variable, `is`, the hedges in text order, the term
        run.add(Obl(f"{fq}/ensures.conclusions_read_in_text_order{tag}", q.pc + str_distinct(),
                    z3.Implies(z3.And(jS >= 0, jS < lc), z3.And(gpos(concl[jS]) >= 0, gpos(concl[jS]) < z3.Length(toks), shape(q.heap, toks, concl[jS], True),
                                                             z3.Implies(jS + 1 < lc, gpos(concl[jS]) < gpos(concl[jS + 1])))), fn=fq, meta={"replay": RP}))

# ------------------------------------------------------------------------------------------------ Antecedent.load
def verify_antecedent_load(run, RP=RP):
    src = run.src
    fq = "rule.Antecedent.load"
    fn = src.func("rule", "Antecedent.load")
    run.under_contract("rule", "Antecedent.load", fn)
    sc = W.schema(src)
    H0 = init_heap(sc)
    self_, eng = z3.Const("self", Ref), z3.Const("engine", Ref)
    S = {nm: 2 ** i for i, nm in enumerate(["variable", "is", "hedge", "term", "and_or"])}
    HT, VA = S["hedge"] | S["term"], S["variable"] | S["and_or"]
    jS = z3.Int("j*")
    PROP, OPER = sc.ids["Proposition"], sc.ids["Operator"]
    # ghost (defined once per node, when it is created): gstart(node) = ordinal of the first proposition of the tree, gcnt(node) = number
    # of propositions in it; nP(k) = number of propositions read in the first k tokens.  The stack elements tile [0, nP(k)) in order, so a
    # successful load whose expression does not start at 0 or does not reach nP has silently dropped an operand.
    gstart, gcnt = z3.Function("gstart", Ref, z3.IntSort()), z3.Function("gcnt", Ref, z3.IntSort())
    nP = z3.Function("nP", z3.IntSort(), z3.IntSort())

    # FUNCTIONAL contract (ghosts): npos(node) = position of the token at which the node was created (a proposition: its variable token; an operator: its own
    # token), node_at(position) = that node, made(position) = a node was created there, tstart(node) = first token of the node's span.  Every node is the standard
    # postfix reading of its span: a proposition is `variable is hedge* term` (hedges in text order), an operator at position g has right = the node whose span ends
    # at g - 1 and left = the node whose span ends where right's begins.
    npos, tstart = z3.Function("created_at_token", Ref, z3.IntSort()), z3.Function("span_start", Ref, z3.IntSort())
    node_at, made = z3.Function("node_created_at", z3.IntSort(), Ref), z3.Function("node_was_created_at", z3.IntSort(), z3.BoolSort())
    pS, iS = z3.Int("p*"), z3.Int("i*")
    VNAME, TNAME = sc.field_key("InputVariable", "name"), sc.field_key("Term", "name")
    IS_ = strc("is")

    def tend(H, x):
        """last token of a COMPLETE node's span"""
        nh = z3.Length(H["Proposition.hedges"][x])
        return z3.If(cls_of(x) == PROP, npos(x) + 1 + nh + z3.If(H["Proposition.term"][x] != NONE, 1, 0), npos(x))

    def is_node(x, k):
        return z3.And(x != NONE, 0 <= npos(x), npos(x) < k, made(npos(x)), node_at(npos(x)) == x)

    def shape(H, seq, x, k, complete):
        g = npos(x)
        hs = H["Proposition.hedges"][x]
        prop = [H[VNAME][H["Proposition.variable"][x]] == seq[g], tstart(x) == g,
                z3.Implies(z3.And(iS >= 0, iS < z3.Length(hs)), z3.And(hs[iS] != NONE, hedge_tok(hs[iS]) == seq[g + 2 + iS]))]
        if complete:
            prop += [seq[g + 1] == IS_, z3.Implies(H["Proposition.term"][x] != NONE, H[TNAME][H["Proposition.term"][x]] == seq[g + 2 + z3.Length(hs)])]
        l_, r_ = H["Operator.left"][x], H["Operator.right"][x]
        oper = [H["Operator.name"][x] == seq[g], is_node(l_, g), is_node(r_, g), npos(l_) < npos(r_), tend(H, r_) + 1 == g, tend(H, l_) + 1 == tstart(r_), tstart(x) == tstart(l_),
                tstart(l_) >= 0, tstart(r_) <= npos(r_), tstart(l_) <= npos(l_)]
        return z3.If(cls_of(x) == PROP, z3.And(*prop), z3.And(*oper))

    def tile(stack, ls, j, k):
        return z3.Implies(z3.And(j >= 0, j < ls), z3.And(gcnt(stack[j]) >= 1, z3.Implies(j == 0, gstart(stack[j]) == 0),
                                                        gstart(stack[j]) + gcnt(stack[j]) == z3.If(j + 1 < ls, gstart(stack[j + 1]), nP(k))))

    def ghost(ex_, q, k, seq):
        out = []
        if "__newprop__" in q.env:
            r = q.env["__newprop__"]
            out += [nP(k + 1) == nP(k) + 1, gstart(r) == nP(k), gcnt(r) == 1, npos(r) == k, node_at(k) == r, made(k), tstart(r) == k]
        elif "__newop__" in q.env:
            r = q.env["__newop__"]
            l_, r_ = q.heap["Operator.left"][r], q.heap["Operator.right"][r]
            out += [nP(k + 1) == nP(k), gstart(r) == gstart(l_), gcnt(r) == gcnt(l_) + gcnt(r_), npos(r) == k, node_at(k) == r, made(k), tstart(r) == tstart(l_)]
        else:
            out += [nP(k + 1) == nP(k), z3.Not(made(k))]
        return out

    def node_ok(H, x, complete=True):
        """a stack element: a proposition with a variable (complete: with a term or ending in `any`), or an operator with both operands"""
        hs = H["Proposition.hedges"][x]
        n = z3.Length(hs)
        prop_ok = z3.And(H["Proposition.variable"][x] != NONE,
                         z3.Or(H["Proposition.term"][x] != NONE, z3.And(n > 0, cls_of(hs[n - 1]) == sc.ids["Any"])) if complete else z3.BoolVal(True))
        op_ok = z3.And(H["Operator.left"][x] != NONE, H["Operator.right"][x] != NONE)
        return z3.And(x != NONE, z3.Or(z3.And(cls_of(x) == PROP, prop_ok), z3.And(cls_of(x) == OPER, op_ok)))

    def inv(ex_, p, k, seq):
        st = p.env["state"]
        if not isinstance(st, int) or st not in (S["variable"], S["is"], HT, VA):
            return z3.BoolVal(False)
        stack = ex_.local(p, "stack").q
        ls = z3.Length(stack)
        prop = p.env["proposition"]
        H = p.heap
        top_open = st in (S["is"], HT)      # the proposition on top of the stack is still being read
        elems = z3.Implies(z3.And(jS >= 0, jS < ls), z3.And(alloc(stack[jS]) < ex_.now(p), node_ok(H, stack[jS], complete=False),
                                                          z3.Implies(jS < ls - 1, alloc(stack[jS]) < alloc(stack[ls - 1])),      # the top is the newest object: elements are distinct
                                                          z3.Implies(z3.Or(jS < ls - 1, z3.BoolVal(not top_open)), node_ok(H, stack[jS], complete=True))))
        base = [H["Antecedent.expression"][self_] == NONE, elems, tile(stack, ls, jS, k), nP(k) >= 0, z3.Implies(ls == 0, nP(k) == 0)]
        # functional part: every stack element is a node; the spans of the stack elements tile the tokens read so far; every node created so far has its shape
        top = stack[ls - 1]
        open_top = lambda x: z3.And(z3.BoolVal(top_open), x == top)        # noqa
        base += [z3.Implies(z3.And(jS >= 0, jS < ls), z3.And(is_node(stack[jS], k), z3.Implies(jS == 0, tstart(stack[jS]) == 0),
                                                             z3.Implies(z3.And(jS + 1 < ls), tend(H, stack[jS]) + 1 == tstart(stack[jS + 1])),
                                                             z3.Implies(z3.And(jS + 1 < ls), npos(stack[jS]) < npos(stack[jS + 1])))),
                 z3.Implies(z3.And(pS >= 0, pS < k, made(pS)), z3.And(npos(node_at(pS)) == pS, node_at(pS) != NONE, alloc(node_at(pS)) < ex_.now(p),
                                                                       z3.Or(cls_of(node_at(pS)) == PROP, cls_of(node_at(pS)) == OPER),
                                                                       z3.If(open_top(node_at(pS)), shape(H, seq, node_at(pS), k, False), shape(H, seq, node_at(pS), k, True))))]
        if st == S["variable"]:
            return z3.And(*base, ls == 0, k == 0)
        if st == VA:
            return z3.And(*base, ls > 0, tend(H, top) + 1 == k)
        cur = z3.And(ls > 0, prop.r == stack[ls - 1], prop.r != NONE, cls_of(prop.r) == PROP, H["Proposition.variable"][prop.r] != NONE) if isinstance(prop, RefV) else z3.BoolVal(False)
        nh = z3.Length(H["Proposition.hedges"][top])
        if st == S["is"]:
            return z3.And(*base, cur, npos(top) + 1 == k, nh == 0, H["Proposition.term"][top] == NONE)
        return z3.And(*base, cur, npos(top) + 2 + nh == k, seq[npos(top) + 1] == IS_, H["Proposition.term"][top] == NONE)

    def inst(ex_, p, k, seq):
        # instances of the element invariant at the positions the body pops (top and second from top)
        stack = ex_.local(p, "stack").q
        ls = z3.Length(stack)
        H = p.heap
        st = p.env["state"]
        out = []
        for off in (1, 2):
            j = ls - off
            out.append(z3.Implies(j >= 0, z3.And(alloc(stack[j]) < ex_.now(p), node_ok(H, stack[j], complete=(off == 2 or st not in (S["is"], HT))))))
        for j in (ls - 1, ls - 2, ls - 3, jS + 1, jS - 1):
            out.append(tile(stack, ls, j, k))
        # the functional clauses at the indices the body and the goals touch: top, second, third of the stack, neighbours of j*; the nodes at the positions of
        # those elements, of p*, and of the children of the node at p*
        base = inv(ex_, p, k, seq)
        for j in (ls - 1, ls - 2, ls - 3, jS + 1, jS - 1):
            out.append(z3.substitute(base, (jS, j)))
        hs_top = H["Proposition.hedges"][stack[ls - 1]]
        for pos in (npos(stack[ls - 1]), npos(stack[ls - 2]), npos(stack[jS]), npos(H["Operator.left"][node_at(pS)]), npos(H["Operator.right"][node_at(pS)])):
            out.append(z3.substitute(base, (pS, pos)))
        out.append(z3.substitute(base, (pS, npos(stack[ls - 1])), (iS, z3.Length(hs_top) - 1)))
        return out

    contracts = {"Proposition": PropositionCtor(), "Operator": OperatorCtor()}

    class InfixToPostfix(Contract):
        """Function.infix_to_postfix(text): returns some postfix text or raises SyntaxError (unbalanced parentheses); its own checks are below"""

        def call(s, ex_, p, recv, args, kwargs, node):
            q = p.fork(); ex_.raised.append((q, "SyntaxError"))
            return StrV(ex_.fresh(Str, "postfix"))
    contracts["Function.infix_to_postfix"] = InfixToPostfix()

    class AExec(ParserExec):
        def ev_Call(s, p, e):
            if ast.unparse(e.func) == "Function.infix_to_postfix":
                return contracts["Function.infix_to_postfix"].call(s, p, None, [s.ev(p, a) for a in e.args], {}, e)
            return super().ev_Call(p, e)

    ex = AExec(src, "rule", sc, contracts=contracts, interfaces=W.INTERFACES, inline={"Antecedent.unload", "Engine.variables"},
               loops={0: LoopSpec(inv, inst=inst, ghost=ghost, name="loop0", modifies={"Proposition.variable", "Proposition.hedges", "Proposition.term", "Operator.name", "Operator.left", "Operator.right"},
                                  cases=[{"state": v} for v in (S["variable"], S["is"], HT, VA)])}, fnname=fq)
    pre = [self_ != NONE, eng != NONE, nP(0) == 0]          # nP(0) == 0: ghost definition
    ex.skolems = [jS, jS + 1, jS - 1, iS]
    outs = ex.run_fn(fn, HPath({"self": RefV(self_, "Antecedent"), "engine": RefV(eng, "Engine")}, pre, H0))
    ntok = None
    from pyvc.hlib import split_invariants
    split_invariants(ex)
    emit(run, ex, fq, [], RP, retries=1)
    raise_obligations(run, fq, outs)
    for i, (kind, val, q) in enumerate(outs):
        tag = f"[path{i}]"
        if kind == "raise":
            run.add(Obl(f"{fq}/raises.leaves_unloaded{tag}", q.pc + str_distinct(), q.heap["Antecedent.expression"][self_] == NONE, fn=fq, meta={"replay": RP}))
            continue
        e_ = q.heap["Antecedent.expression"][self_]
        st = q.env["state"]
        # success => the final state accepts (not a dangling `is` / hedge), exactly one tree remains, and it is a complete node
        run.add(Obl(f"{fq}/accepts_only_wellformed{tag}", q.pc + str_distinct(), z3.And(z3.BoolVal(st == VA), node_ok(q.heap, e_, complete=True)), fn=fq, meta={"replay": RP}))
        # ... and that tree contains EVERY proposition that was read (no operand silently dropped: a missing operator is a rejection)
        L = z3.Length(split_fn(q.env["postfix"].t)) if isinstance(q.env.get("postfix"), StrV) else None
        if L is None:
            run.add(undecided(f"{fq}/accepts_only_complete_tree{tag}", "token sequence of the loop not found", fn=fq))
        else:
            run.add(Obl(f"{fq}/accepts_only_complete_tree{tag}", q.pc + str_distinct(), z3.And(gstart(e_) == 0, gcnt(e_) == nP(L)), fn=fq, meta={"replay": RP}))
            # ... and it is the standard postfix reading of the whole token list: the root spans [0, L), and every node created (the root and, through the
            # children clauses, all its descendants) has the shape of its own tokens
            toks_ = split_fn(q.env["postfix"].t)
            o_ = Obl(f"{fq}/ensures.tree_is_the_postfix_reading_of_the_tokens{tag}", q.pc + str_distinct(),
                     z3.And(is_node(e_, L), tstart(e_) == 0, tend(q.heap, e_) + 1 == L,
                            z3.Implies(z3.And(pS >= 0, pS < L, made(pS)), z3.And(npos(node_at(pS)) == pS, shape(q.heap, toks_, node_at(pS), L, True)))), fn=fq, meta={"replay": RP})
            o_.retries = 1
            run.add(o_)


# ------------------------------------------------------------------------------------------------ Function.infix_to_postfix (parentheses)
class ElemV:
    """factory.objects.get(token): the registered element of that name, or None.  Abstract: is_elem / is_fn / is_op / prec / assoc of the token"""

    def __init__(s, tok):
        s.tok = tok


class ObjectsV:
    pass


is_elem = z3.Function("is_element_name", Str, z3.BoolSort())
is_fn = z3.Function("element_is_function", Str, z3.BoolSort())
el_prec = z3.Function("element_precedence", Str, z3.IntSort())
el_assoc = z3.Function("element_associativity", Str, z3.IntSort())
el_arity = z3.Function("element_arity", Str, z3.IntSort())
cntp = z3.Function("count_open_parens", SeqStr, z3.IntSort())          # ghost: number of "(" tokens in a token list (recursive definition, unfolded at append/pop)
dep = z3.Function("paren_depth", z3.IntSort(), z3.IntSort())           # ghost: #"(" - #")" among the first k tokens of the formula


class InfixExec(ParserExec):
    def ev_Attribute(s, p, e):
        txt = ast.unparse(e)
        if txt == "settings.factory_manager.function":
            return "FUNCTION_FACTORY"
        if txt == "factory.objects" and p.env.get("factory") == "FUNCTION_FACTORY":
            return ObjectsV()
        if isinstance(e.value, ast.Name) and isinstance(p.env.get(e.value.id), ElemV) or (isinstance(e.value, ast.Subscript) and False):
            el = p.env[e.value.id]
            s.oblige(f"safety/line{e.lineno - s.fn_line}:attribute `{e.attr}` of None", p, is_elem(el.tok))
            if e.attr in ("precedence", "associativity", "arity"):
                f = {"precedence": el_prec, "associativity": el_assoc, "arity": el_arity}[e.attr]
                return Num(X(xr.F, xr.I0, z3.ToReal(f(el.tok))), False, True, True)
        return super().ev_Attribute(p, e)

    def ev_Call(s, p, e):
        if ast.unparse(e.func) == "cls.format_infix":
            return StrV(s.fresh(Str, "formatted"))              # contract of format_infix: returns some text (character level, outside the token domain)
        return super().ev_Call(p, e)

    def ev_Subscript(s, p, e):
        if ast.unparse(e.value) == "factory.objects":
            tok = s.unwrap("str", s.ev(p, e.slice))
            s.oblige(f"safety/line{e.lineno - s.fn_line}:key present in factory.objects (no KeyError)", p, is_elem(tok))
            return ElemV(tok)
        return super().ev_Subscript(p, e)

    def method_call(s, p, recv, meth, args, kwargs, node):
        if isinstance(recv, ObjectsV) and meth == "get" and len(args) == 1:
            return ElemV(s.unwrap("str", args[0]))
        if isinstance(recv, ElemV) and meth in ("is_function", "is_operator") and not args:
            s.oblige(f"safety/line{node.lineno - s.fn_line}:call `.{meth}` on None", p, is_elem(recv.tok))
            return Bool(is_fn(recv.tok) if meth == "is_function" else z3.Not(is_fn(recv.tok)), False, True)
        return super().method_call(p, recv, meth, args, kwargs, node)

    def contains(s, p, item, coll, e):
        if isinstance(coll, ObjectsV):
            return is_elem(s.unwrap("str", item))
        return super().contains(p, item, coll, e)

    def truth(s, v, node, p=None):
        if isinstance(v, ElemV):
            return is_elem(v.tok)
        return super().truth(v, node, p)

    def havoc_value(s, v, hint):
        if isinstance(v, ElemV):
            return ElemV(z3.FreshConst(Str, hint))
        return super().havoc_value(v, hint)

    def merge(s, c, a, b, node):
        if isinstance(a, ElemV) and isinstance(b, ElemV):
            return ElemV(z3.If(c, a.tok, b.tok))
        if isinstance(a, ElemV) or isinstance(b, ElemV):       # `element and element.is_function()`: only used as a condition - keep its truth value
            return Bool(z3.If(c, s.truth(a, node), s.truth(b, node)), False, True)
        return super().merge(c, a, b, node)

    # ghost: unfold cntp where the stack changes
    def on_append(s, name, cur, new, v):
        if name != "stack" or cur.sort() != SeqStr:
            return []
        return [cntp(new) == cntp(cur) + z3.If(v == strc("("), 1, 0), cntp(new) >= 0, cntp(cur) >= 0]

    def on_pop(s, name, cur, rest, top):
        if name != "stack" or cur.sort() != SeqStr:
            return []
        return [cntp(cur) == cntp(rest) + z3.If(top == strc("("), 1, 0), cntp(rest) >= 0, cntp(cur) >= 0]


def element_type_facts(run, src):
    """static facts the proof uses about Function.Element and the registered names, read from the AST"""
    fq = "term.Function.Element"
    ok_enum, detail = False, ""
    try:
        members = [n.targets[0].id for n in src.cls("term", "Function.Element.Type").body if isinstance(n, ast.Assign) and isinstance(n.targets[0], ast.Name)]
        f1 = ast.unparse(body_of(src.func("term", "Function.Element.is_function"))[0])
        f2 = ast.unparse(body_of(src.func("term", "Function.Element.is_operator"))[0])
        ok_enum = sorted(members) == ["Function", "Operator"] and f1 == "return self.type == Function.Element.Type.Function" and f2 == "return self.type == Function.Element.Type.Operator"
        detail = f"Type members {members}; is_function: `{f1}`; is_operator: `{f2}`"
    except NotFound as ex_:
        detail = f"not found: {ex_}"
    run.add(static(f"{fq}/an_element_is_a_function_or_an_operator", ok_enum, detail, fn=fq))
    # no registered element is called "(", ")" or ","
    names = []
    for q in ("FunctionFactory._create_operators", "FunctionFactory._create_functions"):
        try:
            fn = src.func("factory", q)
        except NotFound:
            continue
        for n in ast.walk(fn):
            if isinstance(n, ast.Call) and ast.unparse(n.func).endswith("Function.Element") and n.args and isinstance(n.args[0], ast.Constant):
                names.append(n.args[0].value)
            if isinstance(n, ast.Call) and ast.unparse(n.func).endswith("Function.Element"):
                for kw in n.keywords:
                    if kw.arg == "name" and isinstance(kw.value, ast.Constant):
                        names.append(kw.value.value)
    bad = [x for x in names if x in ("(", ")", ",")]
    run.add(static("factory.FunctionFactory/no_element_named_like_a_parenthesis", bool(names) and not bad, f"{len(names)} registered element names read from the AST; offending: {bad}", fn="factory.FunctionFactory"))


def verify_infix_to_postfix(run):
    src = run.src
    fq = "term.Function.infix_to_postfix"
    fn = src.func("term", "Function.infix_to_postfix")
    run.under_contract("term", "Function.infix_to_postfix", fn)
    element_type_facts(run, src)
    sc = W.schema(src)
    H0 = init_heap(sc)
    OPEN, CLOSE, COMMA = strc("("), strc(")"), strc(",")
    iS = z3.Int("i*")
    facts0 = [z3.Not(is_elem(OPEN)), z3.Not(is_elem(CLOSE)), z3.Not(is_elem(COMMA)), dep(0) == 0, cntp(z3.Empty(SeqStr)) == 0]

    def toks(ex_, p):
        return split_fn(ex_.local(p, "formula").t)

    def stack_of(ex_, p):
        return ex_.local(p, "stack").q

    def main_inv(ex_, p, k, seq):
        st = stack_of(ex_, p)
        return z3.And(cntp(st) == dep(k), cntp(st) >= 0, z3.Implies(z3.And(iS >= 0, iS <= k), dep(iS) >= 0))

    def main_ghost(ex_, q, k, seq):
        t = seq[k]
        return [dep(k + 1) == dep(k) + z3.If(t == OPEN, 1, z3.If(t == CLOSE, -1, 0))]

    def inner_inv(ex_, p, k, seq):          # the three inner `while` loops pop non-parenthesis tokens only: the count of "(" is unchanged
        K = ex_.cur_k[0]
        st = stack_of(ex_, p)
        return z3.And(cntp(st) == dep(K), cntp(st) >= 0)

    def final_inv(ex_, p, k, seq):
        st = stack_of(ex_, p)
        return z3.And(cntp(st) == dep(z3.Length(toks(ex_, p))), cntp(st) >= 0)

    loops = {0: LoopSpec(main_inv, ghost=main_ghost, name="loop0.tokens"), 1: LoopSpec(inner_inv, name="loop1.comma"), 2: LoopSpec(inner_inv, name="loop2.operator"),
             3: LoopSpec(inner_inv, name="loop3.close"), 4: LoopSpec(final_inv, name="loop4.flush")}
    ex = InfixExec(src, "term", sc, contracts={}, interfaces=W.INTERFACES, inline=set(), loops=loops, fnname=fq)
    formula = z3.Const("formula", Str)
    outs = ex.run_fn(fn, HPath({"cls": "Function", "formula": StrV(formula)}, list(facts0), H0))
    emit(run, ex, fq, [], RP)
    n_ret = 0
    for i, (kind, val, q) in enumerate(outs):
        tag = f"[path{i}]"
        if kind == "raise":
            if val not in ALLOWED:      # any other exception type must be unreachable
                run.add(Obl(f"{fq}/raises.no_{val}{tag}", q.pc + str_distinct(), z3.BoolVal(False), fn=fq, meta={"replay": RP}))
            continue
        n_ret += 1
        n = z3.Length(toks(ex, q))
        run.add(Obl(f"{fq}/accepts_only_balanced_parentheses{tag}", q.pc + str_distinct(), z3.And(dep(n) == 0, z3.Implies(z3.And(iS >= 0, iS <= n), dep(iS) >= 0)), fn=fq, meta={"replay": RP}))
    run.add(static(f"{fq}/returns", n_ret > 0, f"{n_ret} returning path(s)", fn=fq))
    kinds = sorted({val for kind, val, q in outs if kind == "raise"})
    run.add(static(f"{fq}/raise_sites", "SyntaxError" in kinds, f"exception types at raise statements: {kinds} (types other than SyntaxError/ValueError are proved unreachable above)", fn=fq))


# ------------------------------------------------------------------------------------------------ FllImporter.boolean / FllImporter.range
def verify_importer_leaves(run):
    src = run.src
    sc = W.schema(src)
    strip_fn = z3.Function("strip_fn", Str, Str)

    class LeafExec(ParserExec):
        def method_call(s, p, recv, meth, args, kwargs, node):
            if isinstance(recv, StrV) and meth == "strip" and not args:
                return StrV(strip_fn(recv.t))
            return super().method_call(p, recv, meth, args, kwargs, node)

        def ev_Call(s, p, e):
            if isinstance(e.func, ast.Name) and e.func.id == "to_float" and len(e.args) == 1:
                v = s.ev(p, e.args[0])
                if isinstance(v, StrV):
                    q = p.fork(); q.pc.append(z3.Not(to_float_ok(v.t))); s.raised.append((q, "ValueError"))
                    p.pc += [to_float_ok(v.t), canon(to_float_fn(v.t))]
                    return Num(xr2x(to_float_fn(v.t)), False, True)
            return super().ev_Call(p, e)

        def ev_Tuple(s, p, e):
            return tuple(s.ev(p, x) for x in e.elts)
    fll = z3.Const("fll", Str)
    # boolean
    fq = "importer.FllImporter.boolean"
    fn = src.func("importer", "FllImporter.boolean")
    run.under_contract("importer", "FllImporter.boolean", fn)
    ex = LeafExec(src, "importer", sc, contracts={}, interfaces={}, inline=set(), loops={}, fnname=fq)
    outs = ex.run_fn(fn, HPath({"self": RefV(z3.Const("self", Ref), None), "fll": StrV(fll)}, [], init_heap(sc)))
    emit(run, ex, fq, [], RP)
    T, F_ = strc("true"), strc("false")
    for i, (kind, val, q) in enumerate(outs):
        tag = f"[path{i}]"
        st = strip_fn(fll)
        if kind == "raise":
            run.add(Obl(f"{fq}/rejects_only_other_texts{tag}", q.pc + str_distinct(), z3.And(z3.BoolVal(val == "SyntaxError"), st != T, st != F_), fn=fq, meta={"replay": RP_FLL}))
        else:
            b = ex.boo(val).b if not isinstance(val, bool) else z3.BoolVal(val)
            run.add(Obl(f"{fq}/true_false_by_the_stripped_text{tag}", q.pc + str_distinct(), z3.And(z3.Implies(b, st == T), z3.Implies(z3.Not(b), st == F_)), fn=fq, meta={"replay": RP_FLL}))
    run.add(static(f"{fq}/three_outcomes", sorted(k for k, _, _ in outs) == ["raise", "return", "return"], f"outcomes: {[(k, v if k == 'raise' else '...') for k, v, _ in outs]}", fn=fq))
    # range
    fq = "importer.FllImporter.range"
    fn = src.func("importer", "FllImporter.range")
    run.under_contract("importer", "FllImporter.range", fn)
    ex = LeafExec(src, "importer", sc, contracts={}, interfaces={}, inline=set(), loops={}, fnname=fq)
    outs = ex.run_fn(fn, HPath({"self": RefV(z3.Const("self", Ref), None), "fll": StrV(fll)}, [], init_heap(sc)))
    emit(run, ex, fq, [], RP)
    toks = split_fn(fll)
    kinds = sorted({val for kind, val, q in outs if kind == "raise"})
    run.add(static(f"{fq}/raises.only_syntax_or_value_errors", all(k in ALLOWED for k in kinds), f"exception types: {kinds}", fn=fq, meta={"replay": RP_FLL}))
    for i, (kind, val, q) in enumerate(outs):
        tag = f"[path{i}]"
        if kind == "raise":
            if val == "SyntaxError":
                run.add(Obl(f"{fq}/syntax_error_iff_not_two_tokens{tag}", q.pc + str_distinct(), z3.Length(toks) != 2, fn=fq, meta={"replay": RP_FLL}))
            continue
        ok = isinstance(val, tuple) and len(val) == 2
        goal = z3.And(z3.Length(toks) == 2, x2xr(ex.num(val[0]).x) == to_float_fn(toks[0]), x2xr(ex.num(val[1]).x) == to_float_fn(toks[1])) if ok else z3.BoolVal(False)
        run.add(Obl(f"{fq}/returns_the_two_numbers_in_order{tag}", q.pc + str_distinct(), goal, fn=fq, meta={"replay": RP_FLL}))


def build(run):
    run.not_demanded = tuple(NOT_DEMANDED)
    run.assume("A-STR", "A-PY", "A-MSG", "A-LOG", "A-LISTVAL", "A-FRESH")
    plan = [("rule.Rule.parse", verify_rule_parse), ("rule.Consequent.load", verify_consequent_load), ("rule.Antecedent.load", verify_antecedent_load),
            ("term.Function.infix_to_postfix", verify_infix_to_postfix), ("importer.FllImporter.boolean+range", verify_importer_leaves)]
    # Rule.load (a failed load leaves the rule unloaded and deactivated) and RuleBlock.load_rules (every rule attempted, one RuntimeError
    # afterwards) are verified by the drivers shared with C13, over the loader contracts whose raise/unloaded clauses are proved above
    from props import C13
    plan += [("rule.Rule.load", C13.verify_rule_load), ("rule.RuleBlock.load_rules", C13.verify_block_loaders)]
    bounded = True
    for fq, f in plan:
        try:
            f(run)
        except ANALYSIS as ex_:
            run.add(undecided(f"{fq}/subset", f"outside the verified subset: {ex_}", fn=fq, meta={"replay": RP}))
        except NotFound as ex_:
            run.add(static(f"{fq}/exists", False, f"function under contract not found: {ex_}", fn=fq))
    # bounded stand-ins (level B): the real package on generated / mutated texts against an independent recogniser of the documented grammar
    b = 200 if run.tier == "quick" else 4000
    run.bounded("rule.Rule.create/short_token_sequences.runtime", N_, "replay_rule_text", [dict(seed=run.seed, budget=b, skip_classes=NOT_DEMANDED)],
                bound=f"all token sequences of length 0..3 (24-token alphabet) and length 4 (12 tokens) as antecedent and as consequent on a tiny engine, proposition-level chunk sequences, rule skeleton permutations, weights, one-error mutants of grammar-generated rules (budget {b}); create / parse+load / reload paths")
    run.bounded("rule.Rule.create/example_rule_mutations.runtime", N_, "replay_rule_mutations", [dict(seed=run.seed, budget=b, double=(run.tier != "quick"), skip_classes=NOT_DEMANDED)],
                bound=f"every rule of the 61 shipped examples mutated at every token position (deletion, duplication, substitution, truncation, swap, move; pairs in the thorough tier), budget {b}")
    run.bounded("importer.FllImporter.from_string/document_mutations.runtime", N_, "replay_fll_mutations", [dict(seed=run.seed, budget=b, skip_classes=NOT_DEMANDED)],
                bound=f"61 shipped FLL documents + 3 hand-written ones mutated at line and token level (budget {b}): outcome success / SyntaxError / ValueError / KeyError, re-exportable, rules loaded and in the grammar")
    run.bounded("importer.FllImporter.from_string/edge_document_mutations.runtime", "contracts.fll_edge_native", "replay_fll_edge_mutations", [dict(seed=run.seed, skip_classes=NOT_DEMANDED)],
                bound="two small documents whose Function / Linear / Discrete / Constant terms and First activation have one-token parameter lists, ALL line and token mutants (about 6 500 documents)")


if __name__ == "__main__":
    sys.exit(main("C16", build, "Malformed rule and FLL text is rejected cleanly, never accepted or crashed on"))
