"""C03 - Membership functions match their documented definitions (DESIGN 8/C03)."""
import sys, os
sys.path.insert(0, os.path.dirname(os.path.dirname(os.path.abspath(__file__))))
import ast
import z3
from pyvc import xreal as xr
from pyvc.numexec import Unsupported, ANALYSIS
from pyvc.termrun import sym_params, run_membership, run_ctor, is_monotonic_source
from pyvc.solve import Obl, static, undecided
from pyvc.runner import main
from contracts import terms as C


def term_obligations(run, cls):
    src = run.src
    tc = C.TERMS[cls]
    fq = f"term.{cls}.membership"
    obls = []
    add = obls.append
    if not src.has_func("term", f"{cls}.membership"):
        return [static(f"{fq}/exists", False, "function under contract not found in the source")]
    run.under_contract("term", f"{cls}.membership", src.func("term", f"{cls}.membership"))
    rp = lambda clause, vs, **kw: {"replay": {"module": "contracts.terms", "func": "replay", "search": "search", "kwargs": dict(clause=clause, cls=cls, **kw),
                                             "vars": {v: v for v in list(tc.fields()) + list(vs)},
                                             "default": dict(DEFAULTS.get(cls, {}), x=0.3, x2=0.6)}}
    ax = xr.Ax(); A = xr.SymAlg(ax)
    P, wf = sym_params(tc)
    x, cx = xr.sym("x"); x2, cx2 = xr.sym("x2")
    valid = tc.valid(A, P)
    pre = wf + [cx, valid]
    # ---- constructor contract: fields == parameters (what the modular calls and the replay rely on)
    try:
        if src.has_func("term", f"{cls}.__init__"):
            run.under_contract("term", f"{cls}.__init__", src.func("term", f"{cls}.__init__"))
            paths, exc, _, _ = run_ctor(src, cls, ax, P)
            for i, (pc, flds) in enumerate(paths):
                goal = z3.And(*[xr.same(exc.num(flds[f]).x, P[f]) if f in flds else xr.F for f in tc.fields()])
                add(Obl(f"term.{cls}.__init__/ensures.fields[path{i}]", wf + [valid] + pc, goal, fn=f"term.{cls}.__init__", meta=rp("ctor", [])))
    except (Unsupported, KeyError) as ex_:
        add(undecided(f"term.{cls}.__init__/subset", f"outside the verified subset: {ex_}", fn=f"term.{cls}.__init__", meta=SAMPLED(cls)))
    # ---- membership
    try:
        y, ex, calls, raises, fn, _ = run_membership(src, cls, ax, A, P, x)
        y2, ex2, _, _, _, _ = run_membership(src, cls, ax, A, P, x2)
        spec = tc.oracle(A, P, x)
        # SemiEllipse clamps the root's argument at zero: that the clamp is inactive on the support needs |x - c| <= r  =>  (x - c)^2 <= r^2, a valid fact
        # of real arithmetic that nlsat finds only under some seeds - it is supplied as a hint (square_hints: valid lemmas, nothing is assumed)
        axs = ax.axioms() + (ax.square_hints() if cls in ("SemiEllipse",) else [])
        uf = bool(ax.used)
        m = lambda d: dict(d, sat_final=not uf)
        add(Obl(f"{fq}/pre.sat", pre + axs, None, expect="sat", fn=fq))
        add(static(f"{fq}/oblivious", not ex.nonoblivious, str(ex.nonoblivious) if ex.nonoblivious else
                   "no Python control decision, builtin min/max or raise depends on x (array = element by element, A-LIFT)", fn=fq, meta=rp("elementwise", ["x", "x2"])))
        add(static(f"{fq}/raises.none", not raises, f"raising paths: {[r for r, _ in raises]}" if raises else "no raise statement reachable", fn=fq))
        for nm, pc, goal in ex.safety:
            add(Obl(f"{fq}/safety/{nm}", pre + pc, goal, fn=fq, meta=rp("closed_form", ["x"])))
        for callee, line, pc, goal in calls.pre:
            add(Obl(f"{fq}/call.pre[{callee}@{line - fn.lineno}]", wf + [valid] + pc, goal, fn=fq))
        add(Obl(f"{fq}/ensures.closed_form", pre + axs, xr.same(y, spec), fn=fq, meta=m(rp("closed_form", ["x"]))))
        if tc.height:     # Constant is the degenerate case: its value is the constant for every x, NaN included
            add(Obl(f"{fq}/ensures.nan_iff", pre + axs, y.nan == x.nan, fn=fq, meta=m(rp("nan_iff", ["x"]))))
            add(Obl(f"{fq}/ensures.range", pre + [z3.Not(x.nan)] + axs, z3.And(xr.fin(y), y.v >= 0, y.v <= P["height"].v), fn=fq, meta=m(rp("range", ["x"]))))
        declared = is_monotonic_source(src, cls)
        add(static(f"term.{cls}.is_monotonic/declared", declared == bool(tc.monotone),
                   f"is_monotonic() returns {declared} in the source; the contract {'has' if tc.monotone else 'has no'} monotonicity clause", fn=f"term.{cls}.is_monotonic"))
        if declared and tc.monotone:
            inc, dec = tc.monotone(A, P)
            add(Obl(f"{fq}/ensures.monotone", pre + [cx2, xr.le(x, x2)] + ax.axioms() + ax.square_hints(),
                    z3.And(z3.Implies(inc, xr.le(y, y2)), z3.Implies(dec, xr.ge(y, y2))), fn=fq, meta=m(rp("monotone", ["x", "x2"]))))
    except ANALYSIS as ex_:
        add(undecided(f"{fq}/subset", f"outside the verified subset: {ex_}", fn=fq, meta=SAMPLED(cls)))
    return obls


def class_set(run, name, in_source, covered, what):
    """every class the contracts cover must exist (a missing one is a violation: the statement names it); a class the source has IN ADDITION has no
    contract - nothing is claimed about it: undecided, never an alarm"""
    missing, extra = sorted(set(covered) - set(in_source)), sorted(set(in_source) - set(covered))
    if missing or not extra:
        run.add(static(name, not missing, f"{what} in source {sorted(in_source)}; contracts cover {sorted(covered)}" + (f"; MISSING {missing}" if missing else "")))
    else:
        run.add(undecided(name, f"{what} without a contract: {extra} (new classes are outside what this check decides)"))


def SAMPLED(cls):
    """fallback for a method that left the verified subset: the sampled native comparison with the closed form (a reproduced failure is a violation)"""
    return {"replay": {"module": "contracts.terms", "func": "replay_sampled", "kwargs": {"cls": cls, "what": "membership", "budget": 150}, "vars": {}}}


DEFAULTS = {
    "Arc": dict(start=0.0, end=1.0, height=1.0), "Bell": dict(center=0.5, width=0.25, slope=3.0, height=1.0),
    "Binary": dict(start=0.5, direction=float("inf"), height=1.0), "Concave": dict(inflection=0.0, end=1.0, height=1.0),
    "Constant": dict(value=0.5), "Cosine": dict(center=0.5, width=1.0, height=1.0), "Gaussian": dict(mean=0.5, standard_deviation=0.2, height=1.0),
    "GaussianProduct": dict(mean_a=0.4, standard_deviation_a=0.2, mean_b=0.6, standard_deviation_b=0.2, height=1.0),
    "PiShape": dict(bottom_left=0.0, top_left=0.3, top_right=0.6, bottom_right=1.0, height=1.0), "Ramp": dict(start=0.0, end=1.0, height=1.0),
    "Rectangle": dict(start=0.2, end=0.8, height=1.0), "SemiEllipse": dict(start=0.0, end=1.0, height=1.0),
    "Sigmoid": dict(inflection=0.5, slope=10.0, height=1.0), "SigmoidDifference": dict(left=0.3, rising=20.0, falling=20.0, right=0.7, height=1.0),
    "SigmoidProduct": dict(left=0.3, rising=20.0, falling=-20.0, right=0.7, height=1.0), "Spike": dict(center=0.5, width=1.0, height=1.0),
    "SShape": dict(start=0.0, end=1.0, height=1.0), "Trapezoid": dict(bottom_left=0.0, top_left=0.3, top_right=0.6, bottom_right=1.0, height=1.0),
    "Triangle": dict(left=0.0, top=0.5, right=1.0, height=1.0), "ZShape": dict(start=0.0, end=1.0, height=1.0),
}


# ------------------------------------------------------------------------------------------------ IEEE-754 spot obligations (DESIGN 4.6)
def relevant(side, *terms):
    """the side constraints (definitions of nondeterministic library results) whose fresh variable occurs in the given terms"""
    def consts(t, acc):
        if z3.is_const(t) and t.decl().kind() == z3.Z3_OP_UNINTERPRETED:
            acc.add(t.decl().name())
        for ch in t.children():
            consts(ch, acc)
        return acc
    used = set()
    for t in terms:
        consts(t, used)
    return [c for c in side if consts(c, set()) & {n for n in used if n.startswith("pow2")}]


def ieee_obligations(run):
    """Arc and SemiEllipse COMPUTE a breakpoint (c = s + (e - s); r = (e - s) / 2, c = s + r) and take a square root of a difference of squares:
    in exact reals the end points of the support select the arc branch and the root's argument is >= 0 there; in doubles a rounded c or a
    rounded square can flip both.  The real body is evaluated in z3's Float64 theory at x = start and x = end."""
    from pyvc.fpexec import FpExec, F64, fp, finite, tofloat
    src = run.src
    out = []
    for cls in ("Arc", "SemiEllipse"):
        fq = f"term.{cls}.membership"
        fn = src.func("term", f"{cls}.membership")
        st, en, h = z3.FP("start", F64), z3.FP("end", F64), z3.FP("height", F64)
        valid = [finite(st), finite(en), z3.Not(z3.fpEQ(st, en)), z3.fpLEQ(fp(-1e6), st), z3.fpLEQ(st, fp(1e6)), z3.fpLEQ(fp(-1e6), en), z3.fpLEQ(en, fp(1e6)),
                 z3.fpGEQ(z3.fpAbs(z3.fpSub(z3.RNE(), en, st)), fp(1e-6)), z3.fpGT(h, fp(0.0)), z3.fpLEQ(h, fp(1.0))]
        for which, xv in (("start", st), ("end", en)):
            rp = {"replay": {"module": "contracts.terms", "func": "replay_endpoints", "kwargs": {"cls": cls, "which": which}, "vars": {}, "fp": {"start": "start", "end": "end"}}, "sat_final": True}
            try:
                ex = FpExec({"start": st, "end": en, "height": h}, xv)
                ex.run(fn)
            except ANALYSIS as ex_:
                out.append(undecided(f"{fq}/ieee.subset[x={which}]", f"outside the floating-point evaluator: {ex_}", fn=fq, meta=rp)); continue
            sup = [(ln, g, c) for ln, g, c, has_sqrt in ex.wheres if has_sqrt]
            out.append(static(f"{fq}/ieee.support_condition_found[x={which}]", len(sup) == 1 and len(ex.sqrts) >= 1, f"{len(sup)} np.where call(s) whose true branch takes a square root; {len(ex.sqrts)} np.sqrt call(s)", fn=fq))
            for ln, g, c in sup:
                o = Obl(f"{fq}/ieee.end_point_selects_the_arc_branch[x={which}]", valid + relevant(ex.side, g, c) + [g], c, fn=fq, meta=rp)
                o.fpvars = {"start": st, "end": en}
                out.append(o)
            if run.tier == "thorough" or os.environ.get("PYVC_IEEE_SQRT"):
                for ln, g, a in ex.sqrts:
                    o = Obl(f"{fq}/ieee.sqrt_argument_is_not_negative[x={which}]", valid + relevant(ex.side, g, a) + [g], z3.And(z3.Not(z3.fpIsNaN(a)), z3.Not(z3.fpLT(a, fp(0.0)))), fn=fq, meta=dict(rp, best_effort=True))
                    out.append(o)
    return out


def build(run):
    run.assume("A-REAL", "A-TF", "A-NP", "A-PY", "A-LIFT", "A-MSG")
    src = run.src
    # the shape terms of the source = subclasses of Term minus the structural ones
    structural = {"Activated", "Aggregated", "Linear", "Function"}
    shapes = [c for c in src.subclasses("term", "Term") if c not in structural]
    class_set(run, "term/classes", shapes, C.SHAPES, "shape terms")
    for cls in C.TERMS:
        run.add(term_obligations(run, cls))
    import props.C03_discrete as D
    D.build(run)
    run.add(ieee_obligations(run))
    # the end points of Arc / SemiEllipse for many parameter values, natively (bounded; finds what the expensive sqrt-argument obligations of the
    # thorough tier decide)
    run.bounded("term.Arc+SemiEllipse.membership/end_points.runtime", "contracts.terms", "replay_endpoints", [dict(cls=c, which=w, seed=run.seed, n=2000 if run.tier == "quick" else 40000) for c in ("Arc", "SemiEllipse") for w in ("start", "end")],
                bound="2000 (quick) / 40000 (thorough) random valid (start, end, height) per class and end point, both directions, magnitudes 1e-3..1e6: the value at the end point is the documented one (Arc: 0 at start, height at end; SemiEllipse: 0 at both) within 1e-6*height, never NaN", first_failure=True)
    nb = 40 if run.tier == "quick" else 600
    run.bounded("term.*.membership/sampled_vs_closed_form.runtime", "contracts.terms", "replay_sampled", [dict(what="membership", seed=run.seed, budget=nb)],
                bound=f"{nb} sampled valid parameter vectors per class (degenerate and infinite parameters, several heights) x breakpoints, their floating-point neighbours, midpoints, "
                      "+-inf, NaN: real membership against the documented closed form (abs 1e-6), NaN iff x is NaN, arrays (1-D, 2-D, nothing inside the support) against the points "
                      "one by one, and the same object again after being re-configured", first_failure=True)


if __name__ == "__main__":
    sys.exit(main("C03", build, "Membership functions match their documented definitions"))
