"""C03 - Membership functions match their documented definitions (DESIGN 8/C03)."""
import sys, os
sys.path.insert(0, os.path.dirname(os.path.dirname(os.path.abspath(__file__))))
import ast
import z3
from pyvc import xreal as xr
from pyvc.numexec import Unsupported
from pyvc.termrun import sym_params, run_membership, run_ctor, is_monotonic_source
from pyvc.solve import Obl, static, undecided
from pyvc.runner import main
from contracts import terms as C


def term_obligations(run, cls):
    src = run.src
    tc = C.TERMS[cls]
    fq = f"term.{cls}.membership"
    obls = []
    add = obls.append
    if not src.has_func("term", f"{cls}.membership"):
        return [static(f"{fq}/exists", False, "function under contract not found in the source")]
    run.under_contract("term", f"{cls}.membership", src.func("term", f"{cls}.membership"))
    rp = lambda clause, vs, **kw: {"replay": {"module": "contracts.terms", "func": "replay", "search": "search", "kwargs": dict(clause=clause, cls=cls, **kw),
                                             "vars": {v: v for v in list(tc.fields()) + list(vs)},
                                             "default": dict(DEFAULTS.get(cls, {}), x=0.3, x2=0.6)}}
    ax = xr.Ax(); A = xr.SymAlg(ax)
    P, wf = sym_params(tc)
    x, cx = xr.sym("x"); x2, cx2 = xr.sym("x2")
    valid = tc.valid(A, P)
    pre = wf + [cx, valid]
    # ---- constructor contract: fields == parameters (what the modular calls and the replay rely on)
    try:
        if src.has_func("term", f"{cls}.__init__"):
            run.under_contract("term", f"{cls}.__init__", src.func("term", f"{cls}.__init__"))
            paths, exc, _, _ = run_ctor(src, cls, ax, P)
            for i, (pc, flds) in enumerate(paths):
                goal = z3.And(*[xr.same(exc.num(flds[f]).x, P[f]) if f in flds else xr.F for f in tc.fields()])
                add(Obl(f"term.{cls}.__init__/ensures.fields[path{i}]", wf + [valid] + pc, goal, fn=f"term.{cls}.__init__", meta=rp("ctor", [])))
    except (Unsupported, KeyError) as ex_:
        add(undecided(f"term.{cls}.__init__/subset", f"outside the verified subset: {ex_}", fn=f"term.{cls}.__init__"))
    # ---- membership
    try:
        y, ex, calls, raises, fn, _ = run_membership(src, cls, ax, A, P, x)
        y2, ex2, _, _, _, _ = run_membership(src, cls, ax, A, P, x2)
        spec = tc.oracle(A, P, x)
        axs = ax.axioms()
        uf = bool(ax.used)
        m = lambda d: dict(d, sat_final=not uf)
        add(Obl(f"{fq}/pre.sat", pre + axs, None, expect="sat", fn=fq))
        add(static(f"{fq}/oblivious", not ex.nonoblivious, str(ex.nonoblivious) if ex.nonoblivious else
                   "no Python control decision, builtin min/max or raise depends on x (array = element by element, A-LIFT)", fn=fq, meta=rp("elementwise", ["x", "x2"])))
        add(static(f"{fq}/raises.none", not raises, f"raising paths: {[r for r, _ in raises]}" if raises else "no raise statement reachable", fn=fq))
        for nm, pc, goal in ex.safety:
            add(Obl(f"{fq}/safety/{nm}", pre + pc, goal, fn=fq, meta=rp("closed_form", ["x"])))
        for callee, line, pc, goal in calls.pre:
            add(Obl(f"{fq}/call.pre[{callee}@{line - fn.lineno}]", wf + [valid] + pc, goal, fn=fq))
        add(Obl(f"{fq}/ensures.closed_form", pre + axs, xr.same(y, spec), fn=fq, meta=m(rp("closed_form", ["x"]))))
        if tc.height:     # Constant is the degenerate case: its value is the constant for every x, NaN included
            add(Obl(f"{fq}/ensures.nan_iff", pre + axs, y.nan == x.nan, fn=fq, meta=m(rp("nan_iff", ["x"]))))
            add(Obl(f"{fq}/ensures.range", pre + [z3.Not(x.nan)] + axs, z3.And(xr.fin(y), y.v >= 0, y.v <= P["height"].v), fn=fq, meta=m(rp("range", ["x"]))))
        declared = is_monotonic_source(src, cls)
        add(static(f"term.{cls}.is_monotonic/declared", declared == bool(tc.monotone),
                   f"is_monotonic() returns {declared} in the source; the contract {'has' if tc.monotone else 'has no'} monotonicity clause", fn=f"term.{cls}.is_monotonic"))
        if declared and tc.monotone:
            inc, dec = tc.monotone(A, P)
            add(Obl(f"{fq}/ensures.monotone", pre + [cx2, xr.le(x, x2)] + ax.axioms() + ax.square_hints(),
                    z3.And(z3.Implies(inc, xr.le(y, y2)), z3.Implies(dec, xr.ge(y, y2))), fn=fq, meta=m(rp("monotone", ["x", "x2"]))))
    except Unsupported as ex_:
        add(undecided(f"{fq}/subset", f"outside the verified subset: {ex_}", fn=fq))
    return obls


DEFAULTS = {
    "Arc": dict(start=0.0, end=1.0, height=1.0), "Bell": dict(center=0.5, width=0.25, slope=3.0, height=1.0),
    "Binary": dict(start=0.5, direction=float("inf"), height=1.0), "Concave": dict(inflection=0.0, end=1.0, height=1.0),
    "Constant": dict(value=0.5), "Cosine": dict(center=0.5, width=1.0, height=1.0), "Gaussian": dict(mean=0.5, standard_deviation=0.2, height=1.0),
    "GaussianProduct": dict(mean_a=0.4, standard_deviation_a=0.2, mean_b=0.6, standard_deviation_b=0.2, height=1.0),
    "PiShape": dict(bottom_left=0.0, top_left=0.3, top_right=0.6, bottom_right=1.0, height=1.0), "Ramp": dict(start=0.0, end=1.0, height=1.0),
    "Rectangle": dict(start=0.2, end=0.8, height=1.0), "SemiEllipse": dict(start=0.0, end=1.0, height=1.0),
    "Sigmoid": dict(inflection=0.5, slope=10.0, height=1.0), "SigmoidDifference": dict(left=0.3, rising=20.0, falling=20.0, right=0.7, height=1.0),
    "SigmoidProduct": dict(left=0.3, rising=20.0, falling=-20.0, right=0.7, height=1.0), "Spike": dict(center=0.5, width=1.0, height=1.0),
    "SShape": dict(start=0.0, end=1.0, height=1.0), "Trapezoid": dict(bottom_left=0.0, top_left=0.3, top_right=0.6, bottom_right=1.0, height=1.0),
    "Triangle": dict(left=0.0, top=0.5, right=1.0, height=1.0), "ZShape": dict(start=0.0, end=1.0, height=1.0),
}


def build(run):
    run.assume("A-REAL", "A-TF", "A-NP", "A-PY", "A-LIFT", "A-MSG")
    src = run.src
    # the shape terms of the source = subclasses of Term minus the structural ones
    structural = {"Activated", "Aggregated", "Linear", "Function"}
    shapes = [c for c in src.subclasses("term", "Term") if c not in structural]
    run.add(static("term/classes", sorted(shapes) == C.SHAPES, f"shape terms in source {sorted(shapes)}; contracts cover {C.SHAPES}"))
    for cls in C.TERMS:
        run.add(term_obligations(run, cls))
    import props.C03_discrete as D
    D.build(run)


if __name__ == "__main__":
    sys.exit(main("C03", build, "Membership functions match their documented definitions"))
