"""C08 - Activation methods trigger exactly the rules their definition selects (DESIGN 8/C08).

Scheme (one driver for General / First / Last / Threshold): the loop over the rules is verified with history (ghost) functions
indexed by the iteration number j:  Tg(j) = the fuzzy outputs before iteration j, deg(j) = the degree computed for rule j,
cnt(j) = number of rules triggered before j.  For a skolem index k* the invariant keeps hist(k*) for every completed
iteration:  the rule's stored degree is weight x antecedent value *on the outputs accumulated so far*, it was triggered iff the
method's definition selects it, and its contribution is exactly contributions(consequent, deg, implication).
"""
import sys, os
sys.path.insert(0, os.path.dirname(os.path.dirname(os.path.abspath(__file__))))
import ast
import z3
from pyvc import xreal as xr
from pyvc.numexec import Num, Bool, Unsupported, ANALYSIS
from pyvc.heap import (HeapExec, HPath, LoopSpec, Ref, NONE, XR, Act, cls_of, SeqRef, SeqAct, x2xr, xr2x, RefV, SeqV, ActV, BATCH, canon)
from pyvc.hlib import init_heap, emit, frame_goal
from pyvc.solve import Obl, static, undecided
from pyvc.runner import main
from pyvc.source import NotFound
from contracts import wiring as W

W_N = "contracts.wiring_native"


def sel_general(d, cnt, P):
    return z3.BoolVal(True)


def sel_first(d, cnt, P):
    dx = xr2x(d)
    return z3.And(cnt < P["rules"], xr.gt(dx, xr.const(0.0)), xr.ge(dx, xr2x(P["threshold"])))


def cmp_threshold(d, cnt, P):
    """Threshold.Comparator table read from the source is checked statically; here: op index -> comparison"""
    dx, t = xr2x(d), xr2x(P["threshold"])
    ops = [xr.lt(dx, t), xr.le(dx, t), xr.eq(dx, t), xr.ne(dx, t), xr.ge(dx, t), xr.gt(dx, t)]
    r = ops[-1]
    for i in range(len(ops) - 2, -1, -1):
        r = z3.If(P["comparator"] == i, ops[i], r)
    return r


def comparator_table(src):
    """Threshold.Comparator read from the AST: [(member, symbol, operator-function name)] in declaration order"""
    c = src.cls("activation", "Threshold.Comparator")
    members, ops = [], {}
    for n in c.body:
        if isinstance(n, ast.Assign) and len(n.targets) == 1 and isinstance(n.targets[0], ast.Name) and isinstance(n.value, ast.Constant) and isinstance(n.value.value, str):
            members.append((n.targets[0].id, n.value.value))
        if isinstance(n, ast.AnnAssign) and isinstance(n.target, ast.Name) and n.target.id == "__operator__" and isinstance(n.value, ast.Dict):
            for k, v in zip(n.value.keys, n.value.values):
                ops[k.id] = v.attr if isinstance(v, ast.Attribute) and isinstance(v.value, ast.Name) and v.value.id == "operator" else ast.unparse(v)
    prop = src.func("activation", "Threshold.Comparator.operator", "getter")
    body = [x for x in prop.body if not (isinstance(x, ast.Expr) and isinstance(x.value, ast.Constant))]
    lookup_ok = len(body) == 1 and ast.unparse(body[0]) == "return Threshold.Comparator.__operator__[self.value]"
    return [(m, sym, ops.get(m)) for m, sym in members], lookup_ok


CMP = {"lt": xr.lt, "le": xr.le, "eq": xr.eq, "ne": xr.ne, "ge": xr.ge, "gt": xr.gt}
MEANING = {"<": "lt", "<=": "le", "==": "eq", "!=": "ne", ">=": "ge", ">": "gt"}


class ThresholdExec(HeapExec):
    """`self.comparator.operator(a, b)`: the comparator is the index of an enum member; its operator is looked up in the table read
    from the source (so a row bound to the wrong operator function changes the executed semantics)"""
    table = []

    def method_call(s, p, recv, meth, args, kwargs, node):
        if meth == "operator" and isinstance(recv, Num) and recv.isint and len(args) == 2:
            a, b = s.num(args[0], node), s.num(args[1], node)
            idx = z3.ToInt(recv.x.v)
            r = z3.BoolVal(False)
            for i, (m, sym, op) in reversed(list(enumerate(s.table))):
                if op not in CMP:
                    raise Unsupported(f"comparator {m} bound to {op}")
                r = z3.If(idx == i, CMP[op](a.x, b.x), r)
            return Bool(r, a.data or b.data, False)
        return super().method_call(p, recv, meth, args, kwargs, node)


def sel_threshold(d, cnt, P):
    dx, t = xr2x(d), xr2x(P["threshold"])
    r = z3.BoolVal(False)
    for i, (m, sym, op) in reversed(list(enumerate(ThresholdExec.table))):
        r = z3.If(P["comparator"] == i, CMP[MEANING[sym]](dx, t), r)       # the documented meaning of the member's symbol
    return r


METHODS = {
    "General": dict(sel=sel_general, count=False, reverse=False, params=[]),
    "First": dict(sel=sel_first, count=True, reverse=False, params=[("rules", "int"), ("threshold", "num")]),
    "Last": dict(sel=sel_first, count=True, reverse=True, params=[("rules", "int"), ("threshold", "num")]),
    "Threshold": dict(sel=sel_threshold, count=False, reverse=False, params=[("comparator", "int"), ("threshold", "num")]),
}


def verify_loop_method(run, cls):
    M = METHODS[cls]
    src = run.src
    fq = f"activation.{cls}.activate"
    fn = src.func("activation", f"{cls}.activate")
    run.under_contract("activation", f"{cls}.activate", fn)
    sc = W.schema(src)
    H0 = init_heap(sc)
    self_ = z3.Const("self", Ref); block = z3.Const("rule_block", Ref)
    vstar, ostar = z3.Const("v*", Ref), z3.Const("o*", Ref)
    kstar = z3.Int("k*")
    OUT = sc.ids["OutputVariable"]
    rules = H0["RuleBlock.rules"][block]
    L = z3.Length(rules)
    conj, disj, impl = H0["RuleBlock.conjunction"][block], H0["RuleBlock.disjunction"][block], H0["RuleBlock.implication"][block]
    P = {nm: H0[f"{cls}.{nm}"][self_] for nm, _ in M["params"]}
    deg = z3.Function(f"deg", z3.IntSort(), XR)
    Tg = z3.Function(f"Tg", z3.IntSort(), W.TArr)
    cnt = z3.Function(f"cnt", z3.IntSort(), z3.IntSort())
    rule = (lambda j: rules[L - 1 - j]) if M["reverse"] else (lambda j: rules[j])
    V = H0["Variable._value"]
    fz = H0["OutputVariable.fuzzy"][vstar]

    def ld(j):
        return W.loaded(H0, rule(j))

    def sel(j):
        return M["sel"](deg(j), cnt(j), P)

    def hist(H, j):
        r = rule(j)
        en = H0["Rule.enabled"][r]
        cons = H0["Rule.consequent"][r]
        n = z3.Length(H0["Consequent.conclusions"][cons])
        yes = z3.And(H["Rule.activation_degree"][r] == deg(j),
                     deg(j) == W.fire(H0, r, conj, disj, Tg(j)),
                     Tg(j + 1)[fz] == z3.If(z3.And(sel(j), en), z3.Concat(Tg(j)[fz], W.contrib(cons, deg(j), impl, vstar, n)), Tg(j)[fz]),
                     Tg(j + 1)[ostar] == Tg(j)[ostar],
                     H["Rule.triggered"][r] == z3.And(sel(j), en, xr.gt(xr2x(deg(j)), xr.const(0.0))))
        no = z3.And(H["Rule.activation_degree"][r] == x2xr(xr.const(0.0)), z3.Not(H["Rule.triggered"][r]), Tg(j + 1) == Tg(j))
        return z3.If(ld(j), yes, no)

    def inv(ex, p, k, seq):
        c = [p.heap["Aggregated.terms"] == Tg(k), z3.Implies(z3.And(kstar >= 0, kstar < k), hist(p.heap, kstar))]
        if M["count"]:
            c.append(z3.ToReal(cnt(k)) == ex.num(p.env["activated"]).x.v)
        if cls != "General":      # a batch is rejected at the first loaded rule, before any selection decision
            c.append(z3.Implies(z3.And(BATCH > 1, kstar >= 0, kstar < k), z3.Not(ld(kstar))))
        return z3.And(*c)

    def facts(ex, p, k, seq):
        r = rule(k)
        f = [r != NONE, H0["Rule.antecedent"][r] != NONE, H0["Rule.consequent"][r] != NONE,
             z3.Implies(k != kstar, r != rule(kstar)),           # wf: a rule occurs once in the block
             cnt(0) == 0, cnt(k + 1) == cnt(k) + z3.If(z3.And(ld(k), sel(k)), 1, 0), canon(deg(k)), canon(deg(kstar))]
        for nm, kind in M["params"]:
            if kind == "num":
                f.append(canon(P[nm]))
        return f

    def ghost(ex, q, k, seq):
        # history: outputs after iteration k; the degree stored for rule k in this iteration
        return [Tg(k + 1) == q.heap["Aggregated.terms"], z3.Implies(ld(k), deg(k) == q.heap["Rule.activation_degree"][rule(k)])]

    contracts = {"Rule.activate_with": W.ActivateWithContract(), "Rule.trigger": W.TriggerContract()}
    ex = (ThresholdExec if cls == "Threshold" else HeapExec)(src, "activation", sc, contracts=contracts, interfaces=W.INTERFACES,
                  inline={"Rule.deactivate", "Rule.is_loaded", "Antecedent.is_loaded", "Consequent.is_loaded", "Activation.assert_is_not_vector"},
                  loops={0: LoopSpec(inv, facts=facts, ghost=ghost, name="loop0", modifies={"Rule.activation_degree", "Rule.triggered", "Aggregated.terms"})}, fnname=fq)
    ex.witness = {"vars": [vstar], "objs": [ostar]}
    if cls == "Threshold":
        pre_extra = [P["comparator"] >= 0, P["comparator"] < len(ThresholdExec.table)]
    else:
        pre_extra = []
    pre = pre_extra + [self_ != NONE, block != NONE, cls_of(vstar) == OUT, BATCH >= 1, Tg(0) == H0["Aggregated.terms"], kstar >= 0, kstar < L] \
        + W.wf_output_variable(sc, H0, vstar) + [W.not_a_fuzzy_output(H0, ostar)]
    p0 = HPath({"self": RefV(self_, cls), "rule_block": RefV(block, "RuleBlock")}, pre, H0)
    outs = ex.run_fn(fn, p0)
    rp = {"module": W_N, "func": "replay_activation", "kwargs": {"method": cls}, "vars": {}}
    emit(run, ex, fq, [], rp)
    run.add(Obl(f"{fq}/pre.sat", pre + [L > 1], None, expect="sat", fn=fq))
    scalar = [BATCH == 1]
    for i, (kind, val, q) in enumerate(outs):
        tag = f"[path{i}]"
        if kind == "raise":
            # for scalar inputs nothing raises (the callees' preconditions are obligations of their own); a batch is rejected by ValueError
            run.add(Obl(f"{fq}/raises.only_for_batches{tag}", q.pc, z3.And(z3.BoolVal(val == "ValueError"), BATCH > 1), fn=fq, meta={"replay": rp}))
            continue
        # every rule of the block has been processed according to the definition, on the outputs accumulated so far
        run.add(Obl(f"{fq}/ensures.select{tag}", q.pc + scalar + facts(ex, q, kstar, None), z3.And(hist(q.heap, kstar), q.heap["Aggregated.terms"] == Tg(L)), fn=fq, meta={"replay": rp}))
        run.add(Obl(f"{fq}/frame{tag}", q.pc, frame_goal(q, H0, {"Rule.activation_degree", "Rule.triggered", "Aggregated.terms"}), fn=fq, meta={"replay": rp}))
        if M["params"] or cls != "General":
            # vector-incapable methods reject batches instead of mis-selecting: with a batch and a loaded rule there is no normal return
            run.add(Obl(f"{fq}/ensures.rejects_batches{tag}", q.pc + [BATCH > 1, ld(kstar)] + facts(ex, q, kstar, None), z3.BoolVal(False), fn=fq, meta={"replay": rp}))
    run.add(static(f"{fq}/modifies", ex.writes <= {"Rule.activation_degree", "Rule.triggered", "Aggregated.terms"}, f"heap fields written: {sorted(ex.writes)}", fn=fq))


# ------------------------------------------------------------------------------------------------ Proportional (two loops)
def verify_proportional(run):
    """loop 1 computes every loaded rule's degree on the outputs AT BLOCK ENTRY (nothing is triggered yet), collects the rules with a positive
    degree in order and sums their degrees; loop 2 divides each collected rule's degree by that sum and triggers it.  Ghosts: FLT(k) = the rules
    selected among the first k, SUM(k) their degree sum, idx(m) = the rule index of the m-th selected rule, Tg2(m) = the outputs before step m."""
    cls = "Proportional"
    src = run.src
    fq = f"activation.{cls}.activate"
    fn = src.func("activation", f"{cls}.activate")
    run.under_contract("activation", f"{cls}.activate", fn)
    sc = W.schema(src)
    H0 = init_heap(sc)
    self_ = z3.Const("self", Ref); block = z3.Const("rule_block", Ref)
    vstar, ostar = z3.Const("v*", Ref), z3.Const("o*", Ref)
    kstar, mstar = z3.Int("k*"), z3.Int("m*")
    OUT = sc.ids["OutputVariable"]
    rules = H0["RuleBlock.rules"][block]
    L = z3.Length(rules)
    conj, disj, impl = H0["RuleBlock.conjunction"][block], H0["RuleBlock.disjunction"][block], H0["RuleBlock.implication"][block]
    T0 = H0["Aggregated.terms"]
    fz = H0["OutputVariable.fuzzy"][vstar]
    deg = z3.Function("deg", z3.IntSort(), XR)
    FLT = z3.Function("selected_rules", z3.IntSort(), SeqRef)
    SUM = z3.Function("sum_of_selected_degrees", z3.IntSort(), XR)
    idx = z3.Function("rule_index_of_selected", z3.IntSort(), z3.IntSort())
    Tg2 = z3.Function("Tg2", z3.IntSort(), W.TArr)
    D1 = z3.Function("degree_after_loop1", Ref, XR)          # ghost names for the heap fields at the end of loop 1
    rule = lambda j: rules[j]
    ld = lambda j: W.loaded(H0, rule(j))
    pos_deg = lambda j: xr.gt(xr2x(deg(j)), xr.const(0.0))
    selP = lambda j: z3.And(ld(j), pos_deg(j))
    ZERO = x2xr(xr.const(0.0))
    nsel = lambda k: z3.Length(FLT(k))
    quot = lambda j: x2xr(xr.div(xr2x(deg(j)), xr2x(SUM(L))))

    def distinct(a, b):
        return z3.Implies(z3.And(0 <= a, a < L, 0 <= b, b < L, a != b), rule(a) != rule(b))       # wf: a rule occurs once in its block

    def hist1(H, j):
        r = rule(j)
        return z3.And(z3.Not(H["Rule.triggered"][r]),
                      z3.If(ld(j), z3.And(H["Rule.activation_degree"][r] == deg(j), deg(j) == W.fire(H0, r, conj, disj, T0)), H["Rule.activation_degree"][r] == ZERO))

    def memb(k, j):        # a selected rule is in the list, at the position the list had when it was appended
        return z3.Implies(z3.And(0 <= j, j < k, selP(j)), z3.And(nsel(j) < nsel(k), FLT(k)[nsel(j)] == rule(j), idx(nsel(j)) == j))

    def elem(k, m):        # every element of the list is a selected rule, in increasing rule order
        return z3.Implies(z3.And(0 <= m, m < nsel(k)), z3.And(0 <= idx(m), idx(m) < k, FLT(k)[m] == rule(idx(m)), selP(idx(m)), nsel(idx(m)) == m))

    def inv1(ex, p, k, seq):
        act = ex.local(p, "activate")
        if not isinstance(act, SeqV):
            return z3.BoolVal(False)
        return z3.And(act.q == FLT(k), x2xr(ex.num(p.env["sum_degrees"]).x) == SUM(k), nsel(k) <= k, p.heap["Aggregated.terms"] == T0,
                      z3.Implies(z3.And(0 <= kstar, kstar < k), hist1(p.heap, kstar)), memb(k, kstar), elem(k, mstar),
                      z3.Implies(z3.And(BATCH > 1, kstar >= 0, kstar < k), z3.Not(ld(kstar))))

    def facts1(ex, p, k, seq):
        r = rule(k)
        return [r != NONE, H0["Rule.antecedent"][r] != NONE, H0["Rule.consequent"][r] != NONE, distinct(k, kstar), distinct(k, idx(mstar)), distinct(kstar, idx(mstar)),
                canon(deg(k)), canon(deg(kstar)), canon(SUM(k)), canon(SUM(0)), SUM(0) == ZERO, FLT(0) == z3.Empty(SeqRef),
                FLT(k + 1) == z3.If(selP(k), z3.Concat(FLT(k), z3.Unit(r)), FLT(k)),
                SUM(k + 1) == z3.If(selP(k), x2xr(xr.add(xr2x(SUM(k)), xr2x(deg(k)))), SUM(k)),
                z3.Implies(selP(k), idx(nsel(k)) == k),
                nsel(kstar) <= nsel(k) if False else z3.BoolVal(True)]

    def mono(k):
        """the list only grows (used where positions of earlier iterations are compared with the current length)"""
        return z3.Implies(z3.And(0 <= kstar, kstar <= k), nsel(kstar) <= nsel(k))

    def ghost1(ex, q, k, seq):
        return [z3.Implies(ld(k), deg(k) == q.heap["Rule.activation_degree"][rule(k)])]

    def step2(H, m):
        """what step m of the second loop does to the m-th selected rule"""
        j = idx(m)
        r = rule(j)
        en = H0["Rule.enabled"][r]
        cons = H0["Rule.consequent"][r]
        n = z3.Length(H0["Consequent.conclusions"][cons])
        return z3.And(H["Rule.activation_degree"][r] == quot(j),
                      H["Rule.triggered"][r] == z3.And(en, xr.gt(xr2x(quot(j)), xr.const(0.0))),
                      Tg2(m + 1)[fz] == z3.If(en, z3.Concat(Tg2(m)[fz], W.contrib(cons, quot(j), impl, vstar, n)), Tg2(m)[fz]),
                      Tg2(m + 1)[ostar] == Tg2(m)[ostar])

    def untouched(H, j, m):
        """a rule that the second loop has not (yet) processed keeps what the first loop left"""
        r = rule(j)
        return z3.Implies(z3.And(0 <= j, j < L, z3.Or(z3.Not(selP(j)), nsel(j) >= m)), z3.And(H["Rule.activation_degree"][r] == D1(r), z3.Not(H["Rule.triggered"][r])))

    def inv2(ex, p, m, seq):
        return z3.And(p.heap["Aggregated.terms"] == Tg2(m), z3.Implies(z3.And(0 <= mstar, mstar < m), step2(p.heap, mstar)), untouched(p.heap, kstar, m))

    def facts2(ex, p, m, seq):
        e1 = ex.entry[1]          # the state at the end of loop 1
        j = idx(m)
        return [elem(L, m), elem(L, mstar), memb(L, kstar), distinct(kstar, idx(m)), distinct(idx(mstar), idx(m)), distinct(kstar, idx(mstar)),
                canon(SUM(L)), canon(deg(idx(m))), canon(deg(kstar)), canon(deg(idx(mstar))),
                D1(rule(j)) == deg(j), rule(j) != NONE, H0["Rule.consequent"][rule(j)] != NONE, H0["Rule.antecedent"][rule(j)] != NONE,
                z3.Implies(z3.And(0 <= mstar, mstar < nsel(L), mstar != m), idx(mstar) != idx(m))]

    def ghost2(ex, q, m, seq):
        return [Tg2(m + 1) == q.heap["Aggregated.terms"]]

    from pyvc.parsers import ParserExec

    class PropExec(ParserExec):
        def for_loop(s, p, n):
            lo = s.loop_index.get((n.lineno, n.col_offset))
            if lo == 1:
                # between the loops: name the first loop's result (ghost D1) and start the output history of the second loop
                i = z3.Int("i")
                p.pc += [Tg2(0) == p.heap["Aggregated.terms"], z3.Implies(z3.And(0 <= kstar, kstar < L), D1(rule(kstar)) == p.heap["Rule.activation_degree"][rule(kstar)]),
                         z3.Implies(z3.And(0 <= mstar, mstar < nsel(L)), D1(rule(idx(mstar))) == p.heap["Rule.activation_degree"][rule(idx(mstar))]),
                         elem(L, mstar), memb(L, kstar)]
                # what loop 1 left in the observed rule (proved here, used by the second loop's instances)
                left = z3.Implies(z3.And(0 <= kstar, kstar < L), D1(rule(kstar)) == z3.If(ld(kstar), deg(kstar), ZERO))
                s.oblige("between_loops/degree_left_by_the_first_loop", p, left)
                p.pc.append(left)
            return super().for_loop(p, n)

    contracts = {"Rule.activate_with": W.ActivateWithContract(), "Rule.trigger": W.TriggerContract()}
    ex = PropExec(src, "activation", sc, contracts=contracts, interfaces=W.INTERFACES,
                  inline={"Rule.deactivate", "Rule.is_loaded", "Antecedent.is_loaded", "Consequent.is_loaded", "Activation.assert_is_not_vector"},
                  loops={0: LoopSpec(inv1, facts=facts1, ghost=ghost1, name="loop0.degrees", modifies={"Rule.activation_degree", "Rule.triggered"},
                                     inst=lambda ex_, p, k, seq: [mono(k), z3.Implies(z3.And(0 <= kstar, kstar < L), z3.And(canon(deg(kstar))))]),
                         1: LoopSpec(inv2, facts=facts2, ghost=ghost2, name="loop1.normalise_and_trigger", modifies={"Rule.activation_degree", "Rule.triggered", "Aggregated.terms"},
                                     # the invariant holds for every rule index and every step (it is proved for arbitrary ones): its instances at the rule of the
                                     # current step and at the step of the observed rule
                                     inst=lambda ex_, p, m, seq: [z3.substitute(inv2(ex_, p, m, seq), (kstar, idx(m))), z3.substitute(inv2(ex_, p, m, seq), (mstar, nsel(kstar)))])}, fnname=fq)
    ex.witness = {"vars": [vstar], "objs": [ostar]}
    ex.skolems = [kstar, mstar]
    pre = [self_ != NONE, block != NONE, cls_of(vstar) == OUT, BATCH >= 1, kstar >= 0, kstar < L] + W.wf_output_variable(sc, H0, vstar) + [W.not_a_fuzzy_output(H0, ostar)]
    outs = ex.run_fn(fn, HPath({"self": RefV(self_, cls), "rule_block": RefV(block, "RuleBlock")}, pre, H0))
    rp = {"module": W_N, "func": "replay_activation", "kwargs": {"method": cls}, "vars": {}}
    from pyvc.hlib import split_invariants
    split_invariants(ex)
    emit(run, ex, fq, [], rp)
    scalar = [BATCH == 1]
    r = rule(kstar)
    for i, (kind, val, q) in enumerate(outs):
        tag = f"[path{i}]"
        if kind == "raise":
            run.add(Obl(f"{fq}/raises.only_for_batches{tag}", q.pc, z3.And(z3.BoolVal(val == "ValueError"), BATCH > 1), fn=fq, meta={"replay": rp})); continue
        H = q.heap
        M = nsel(L)
        hy = q.pc + scalar + [distinct(kstar, idx(mstar)), canon(deg(kstar)), canon(SUM(L)), elem(L, mstar), memb(L, kstar)]
        # every rule: unloaded -> deactivated; loaded, degree not positive -> degree = weight x antecedent on the outputs at block entry, not triggered;
        # loaded, positive -> degree divided by the sum of the positive degrees, triggered like any enabled rule with that degree
        final = z3.If(ld(kstar), z3.If(pos_deg(kstar), z3.And(H["Rule.activation_degree"][r] == quot(kstar), deg(kstar) == W.fire(H0, r, conj, disj, T0),
                                                             H["Rule.triggered"][r] == z3.And(H0["Rule.enabled"][r], xr.gt(xr2x(quot(kstar)), xr.const(0.0)))),
                                       z3.And(H["Rule.activation_degree"][r] == deg(kstar), deg(kstar) == W.fire(H0, r, conj, disj, T0), z3.Not(H["Rule.triggered"][r]))),
                      z3.And(H["Rule.activation_degree"][r] == ZERO, z3.Not(H["Rule.triggered"][r])))
        run.add(Obl(f"{fq}/ensures.degrees_divided_by_the_sum_of_the_positive_ones{tag}", hy, final, fn=fq, meta={"replay": rp}))
        # the outputs: exactly the selected rules contribute, in rule order, each once, with its normalised degree
        run.add(Obl(f"{fq}/ensures.selected_rules_contribute_in_order{tag}", hy, z3.And(H["Aggregated.terms"] == Tg2(M), z3.Implies(z3.And(0 <= mstar, mstar < M), step2(H, mstar)),
                                                                                           z3.Implies(selP(kstar), z3.And(nsel(kstar) < M, idx(nsel(kstar)) == kstar))), fn=fq, meta={"replay": rp}))
        run.add(Obl(f"{fq}/frame{tag}", q.pc, frame_goal(q, H0, {"Rule.activation_degree", "Rule.triggered", "Aggregated.terms"}), fn=fq, meta={"replay": rp}))
        run.add(Obl(f"{fq}/ensures.rejects_batches{tag}", q.pc + [BATCH > 1, ld(kstar)], z3.BoolVal(False), fn=fq, meta={"replay": rp}))
    run.add(static(f"{fq}/modifies", ex.writes <= {"Rule.activation_degree", "Rule.triggered", "Aggregated.terms"}, f"heap fields written: {sorted(ex.writes)}", fn=fq))


# ------------------------------------------------------------------------------------------------ Highest / Lowest (heapq)
def verify_heap_method(run, cls):
    """loop 1 computes every loaded rule's degree on the outputs at block entry and pushes (key, index) for the positive ones (key = -degree for
    Highest, +degree for Lowest); loop 2 pops the lexicographically smallest (key, index) at most `rules` times and triggers that rule.
    The heap is modelled as a SET of indices with a key array (assumption A-HEAPQ: heappush adds, heappop removes and returns a minimum of the
    lexicographic order on (key, index)).  Ghosts: POP(m) = the index popped at step m, DONE(m) = the set popped before step m, Tg2(m) outputs."""
    from pyvc.parsers import ParserExec
    from pyvc.hlib import split_invariants
    src = run.src
    fq = f"activation.{cls}.activate"
    fn = src.func("activation", f"{cls}.activate")
    run.under_contract("activation", f"{cls}.activate", fn)
    sc = W.schema(src)
    H0 = init_heap(sc)
    self_ = z3.Const("self", Ref); block = z3.Const("rule_block", Ref)
    vstar, ostar = z3.Const("v*", Ref), z3.Const("o*", Ref)
    kstar, mstar, jstar = z3.Int("k*"), z3.Int("m*"), z3.Int("j*")
    OUT = sc.ids["OutputVariable"]
    rules = H0["RuleBlock.rules"][block]
    L = z3.Length(rules)
    conj, disj, impl = H0["RuleBlock.conjunction"][block], H0["RuleBlock.disjunction"][block], H0["RuleBlock.implication"][block]
    NR = H0[f"{cls}.rules"][self_]
    T0 = H0["Aggregated.terms"]
    fz = H0["OutputVariable.fuzzy"][vstar]
    deg = z3.Function("deg", z3.IntSort(), XR)
    CNT = z3.Function("number_selected", z3.IntSort(), z3.IntSort())
    POP = z3.Function("popped_index", z3.IntSort(), z3.IntSort())
    BoolArr = z3.ArraySort(z3.IntSort(), z3.BoolSort())
    DONE = z3.Function("popped_before", z3.IntSort(), BoolArr)
    Tg2 = z3.Function("Tg2", z3.IntSort(), W.TArr)
    KeyArr = z3.ArraySort(z3.IntSort(), XR)
    rule = lambda j: rules[j]
    ld = lambda j: W.loaded(H0, rule(j))
    pos_deg = lambda j: xr.gt(xr2x(deg(j)), xr.const(0.0))
    selP = lambda j: z3.And(ld(j), pos_deg(j))
    ZERO = x2xr(xr.const(0.0))
    sign = -1 if cls == "Highest" else 1
    key = lambda j: (xr.neg(xr2x(deg(j))) if sign < 0 else xr2x(deg(j)))

    def lex_lt(i, j):          # (key(i), i) < (key(j), j)
        return z3.Or(xr.lt(key(i), key(j)), z3.And(xr.eq(key(i), key(j)), i < j))

    def distinct(a, b):
        return z3.Implies(z3.And(0 <= a, a < L, 0 <= b, b < L, a != b), rule(a) != rule(b))

    class HeapV:
        """heapq list as a set of indices: member[j], the key pushed with j, and the number of elements"""

        def __init__(s, member, keys, size):
            s.member, s.keys, s.size = member, keys, size

    class HeapExec2(ParserExec):
        def stmt(s, p, n):
            if isinstance(n, ast.AnnAssign) and isinstance(n.target, ast.Name) and "tuple" in ast.unparse(n.annotation) and isinstance(n.value, ast.List) and not n.value.elts:
                p.env[n.target.id] = HeapV(z3.K(z3.IntSort(), z3.BoolVal(False)), z3.Const("keys0", KeyArr), z3.IntVal(0))
                return [(p, None)]
            if isinstance(n, ast.Expr) and isinstance(n.value, ast.Call) and ast.unparse(n.value.func) == "heapq.heappush":
                hp = p.env[n.value.args[0].id]
                item = s.ev(p, n.value.args[1])
                kx, jx = x2xr(s.num(item[0], n).x), z3.simplify(z3.ToInt(s.num(item[1], n).x.v))
                s.oblige(f"heap/line{n.lineno - s.fn_line}:an index is pushed at most once", p, z3.Not(hp.member[jx]))
                p.env[n.value.args[0].id] = HeapV(z3.Store(hp.member, jx, True), z3.Store(hp.keys, jx, kx), hp.size + 1)
                return [(p, None)]
            return super().stmt(p, n)

        def ev_Tuple(s, p, e):
            return tuple(s.ev(p, x) for x in e.elts)

        def ev_Call(s, p, e):
            if ast.unparse(e.func) == "heapq.heappop":
                nm = e.args[0].id
                hp = p.env[nm]
                s.oblige(f"heap/line{e.lineno - s.fn_line}:pop from a non-empty heap", p, hp.size > 0)
                jm = z3.FreshInt("popped")
                j = z3.Int("j")
                km, kj = xr2x(hp.keys[jm]), lambda t: xr2x(hp.keys[t])
                le = lambda t: z3.Or(xr.lt(km, kj(t)), z3.And(xr.eq(km, kj(t)), jm <= t))
                # A-HEAPQ: the popped element is a member and a minimum of the lexicographic order on (key, index)
                p.pc += [hp.member[jm], z3.ForAll([j], z3.Implies(hp.member[j], le(j)))] + [z3.Implies(hp.member[t], le(t)) for t in (kstar, jstar)]
                p.env[nm] = HeapV(z3.Store(hp.member, jm, False), hp.keys, hp.size - 1)
                from pyvc.numexec import Num as _N
                return (_N(xr2x(hp.keys[jm]), False, True), _N(xr.X(xr.F, xr.I0, z3.ToReal(jm)), False, True, True))
            return super().ev_Call(p, e)

        def truth(s, v, node, p=None):
            if isinstance(v, HeapV):
                return v.size > 0
            return super().truth(v, node, p)

        def havoc_value(s, v, hint):
            if isinstance(v, HeapV):
                return HeapV(z3.FreshConst(BoolArr, hint + ".member"), z3.FreshConst(KeyArr, hint + ".keys"), z3.FreshInt(hint + ".size"))
            return super().havoc_value(v, hint)

        def assigned_names(s, body):
            out = super().assigned_names(body)
            for st in body:
                for x in ast.walk(st):
                    if isinstance(x, ast.Call) and ast.unparse(x.func) in ("heapq.heappush", "heapq.heappop") and x.args and isinstance(x.args[0], ast.Name):
                        out.add(x.args[0].id)
            return out

        def while_loop(s, p, n):
            # between the loops: start of the output history and of the popped set
            hp = p.env.get("activate")
            p.pc += [Tg2(0) == p.heap["Aggregated.terms"], DONE(0) == z3.K(z3.IntSort(), z3.BoolVal(False))]
            return super().while_loop(p, n)

    def hist1(H, j):
        r = rule(j)
        return z3.And(z3.Not(H["Rule.triggered"][r]),
                      z3.If(ld(j), z3.And(H["Rule.activation_degree"][r] == deg(j), deg(j) == W.fire(H0, r, conj, disj, T0)), H["Rule.activation_degree"][r] == ZERO))

    def inv1(ex, p, k, seq):
        hp = p.env.get("activate")
        if not isinstance(hp, HeapV):
            return z3.BoolVal(False)
        return z3.And(hp.size == CNT(k), CNT(k) >= 0, p.heap["Aggregated.terms"] == T0,
                      hp.member[jstar] == z3.And(0 <= jstar, jstar < k, selP(jstar)),
                      z3.Implies(z3.And(0 <= jstar, jstar < k, selP(jstar)), xr2x(hp.keys[jstar]).nan == key(jstar).nan),
                      z3.Implies(z3.And(0 <= jstar, jstar < k, selP(jstar)), x2xr(key(jstar)) == hp.keys[jstar]),
                      z3.Implies(z3.And(0 <= kstar, kstar < k), hist1(p.heap, kstar)),
                      z3.Implies(z3.And(BATCH > 1, kstar >= 0, kstar < k), z3.Not(ld(kstar))))

    def facts1(ex, p, k, seq):
        r = rule(k)
        return [r != NONE, H0["Rule.antecedent"][r] != NONE, H0["Rule.consequent"][r] != NONE, distinct(k, kstar), canon(deg(k)), canon(deg(kstar)), canon(deg(jstar)),
                CNT(0) == 0, CNT(k + 1) == CNT(k) + z3.If(selP(k), 1, 0)]

    def ghost1(ex, q, k, seq):
        return [z3.Implies(ld(k), deg(k) == q.heap["Rule.activation_degree"][rule(k)])]

    def inst1(ex, p, k, seq):
        # instance of the membership clause at the current index (the body tests whether k is already in the heap)
        hp = p.env.get("activate")
        return [hp.member[k] == z3.And(0 <= k, k < k, selP(k))] if isinstance(hp, HeapV) else []

    def step2(H, m):
        j = POP(m)
        r = rule(j)
        en = H0["Rule.enabled"][r]
        cons = H0["Rule.consequent"][r]
        n = z3.Length(H0["Consequent.conclusions"][cons])
        return z3.And(0 <= j, j < L, selP(j), H["Rule.activation_degree"][r] == deg(j),
                      H["Rule.triggered"][r] == z3.And(en, pos_deg(j)),
                      Tg2(m + 1)[fz] == z3.If(en, z3.Concat(Tg2(m)[fz], W.contrib(cons, deg(j), impl, vstar, n)), Tg2(m)[fz]),
                      Tg2(m + 1)[ostar] == Tg2(m)[ostar],
                      z3.Implies(m >= 1, lex_lt(POP(m - 1), j)))

    def inv2(ex, p, m, seq):
        hp = p.env.get("activate")
        if not isinstance(hp, HeapV):
            return z3.BoolVal(False)
        H = p.heap
        r = rule(kstar)
        return z3.And(p.heap["Aggregated.terms"] == Tg2(m), z3.ToReal(m) == ex.num(p.env["activated"]).x.v, z3.Implies(NR >= 0, m <= NR), z3.Implies(NR < 0, m == 0),
                      hp.size == CNT(L) - m, hp.size >= 0,
                      hp.member[jstar] == z3.And(0 <= jstar, jstar < L, selP(jstar), z3.Not(DONE(m)[jstar])),
                      z3.Implies(z3.And(0 <= jstar, jstar < L, selP(jstar)), x2xr(key(jstar)) == hp.keys[jstar]),
                      z3.Implies(z3.And(0 <= mstar, mstar < m), z3.And(step2(H, mstar), DONE(m)[POP(mstar)])),
                      # what is still in the heap comes after everything popped
                      z3.Implies(z3.And(m >= 1, hp.member[jstar]), lex_lt(POP(m - 1), jstar)),
                      # a rule that has not been popped keeps what the first loop left
                      z3.Implies(z3.And(0 <= kstar, kstar < L, z3.Not(DONE(m)[kstar])), hist1(H, kstar)),
                      z3.Implies(DONE(m)[jstar], z3.And(0 <= jstar, jstar < L, selP(jstar))))

    def facts2(ex, p, m, seq):
        return [canon(deg(kstar)), canon(deg(jstar)), distinct(kstar, jstar)]

    def ghost2(ex, q, m, seq):
        idx_ = q.env.get("index")
        j = z3.simplify(z3.ToInt(ex.num(idx_).x.v))
        return [Tg2(m + 1) == q.heap["Aggregated.terms"], POP(m) == j, DONE(m + 1) == z3.Store(DONE(m), j, True), canon(deg(j)), distinct(j, kstar), distinct(j, jstar),
                distinct(j, POP(mstar)), rule(j) != NONE, H0["Rule.consequent"][rule(j)] != NONE, H0["Rule.antecedent"][rule(j)] != NONE]

    def inst2(ex, p, m, seq):
        # the invariant is proved for an arbitrary index / step, so where it is ASSUMED it may be used at every index (quantified) and at the last step
        base = inv2(ex, p, m, seq)
        jq = z3.Int("jq")
        return [z3.substitute(base, (mstar, m - 1)), z3.ForAll([jq], z3.substitute(base, (jstar, jq))), z3.ForAll([jq], z3.substitute(base, (kstar, jq)))]

    contracts = {"Rule.activate_with": W.ActivateWithContract(), "Rule.trigger": W.TriggerContract()}
    ex = HeapExec2(src, "activation", sc, contracts=contracts, interfaces=W.INTERFACES,
                   inline={"Rule.deactivate", "Rule.is_loaded", "Antecedent.is_loaded", "Consequent.is_loaded", "Activation.assert_is_not_vector"},
                   loops={0: LoopSpec(inv1, facts=facts1, ghost=ghost1, inst=inst1, name="loop0.degrees", modifies={"Rule.activation_degree", "Rule.triggered"}),
                          1: LoopSpec(inv2, facts=facts2, ghost=ghost2, inst=inst2, name="loop1.pop_and_trigger", modifies={"Rule.triggered", "Aggregated.terms"})}, fnname=fq)
    ex.witness = {"vars": [vstar], "objs": [ostar]}
    ex.skolems = [kstar, mstar, jstar]
    jw = z3.Int("jw")
    wf_rules = z3.ForAll([jw], z3.Implies(z3.And(0 <= jw, jw < L), z3.And(rules[jw] != NONE, H0["Rule.antecedent"][rules[jw]] != NONE, H0["Rule.consequent"][rules[jw]] != NONE, canon(deg(jw)))))     # A-WF
    pre = [self_ != NONE, block != NONE, cls_of(vstar) == OUT, BATCH >= 1, kstar >= 0, kstar < L, wf_rules] + W.wf_output_variable(sc, H0, vstar) + [W.not_a_fuzzy_output(H0, ostar)]
    outs = ex.run_fn(fn, HPath({"self": RefV(self_, cls), "rule_block": RefV(block, "RuleBlock")}, pre, H0))
    rp = {"module": W_N, "func": "replay_activation", "kwargs": {"method": cls}, "vars": {}}
    split_invariants(ex)
    emit(run, ex, fq, [], rp)
    scalar = [BATCH == 1]
    for i, (kind, val, q) in enumerate(outs):
        tag = f"[path{i}]"
        if kind == "raise":
            run.add(Obl(f"{fq}/raises.only_for_batches{tag}", q.pc, z3.And(z3.BoolVal(val == "ValueError"), BATCH > 1), fn=fq, meta={"replay": rp})); continue
        H = q.heap
        hp = q.env.get("activate")
        M = z3.simplify(z3.ToInt(ex.num(q.env["activated"]).x.v))
        hy = q.pc + scalar + [canon(deg(kstar)), canon(deg(jstar))]
        # the number of triggers, which rules they are, their order, and that everything not popped comes later in the order
        run.add(Obl(f"{fq}/ensures.pops_the_first_min_n_selected_keys_in_order{tag}", hy,
                    z3.And(H["Aggregated.terms"] == Tg2(M), M >= 0, z3.Or(M == CNT(L), z3.And(M >= NR, M <= CNT(L))), z3.Implies(NR >= 0, M <= z3.If(NR < CNT(L), NR, CNT(L))),
                           z3.Implies(z3.And(0 <= mstar, mstar < M), step2(H, mstar)),
                           z3.Implies(z3.And(M >= 1, 0 <= jstar, jstar < L, selP(jstar), z3.Not(DONE(M)[jstar])), lex_lt(POP(M - 1), jstar))), fn=fq, meta={"replay": rp}))
        run.add(Obl(f"{fq}/ensures.other_rules_keep_their_degree_untriggered{tag}", hy, z3.Implies(z3.Not(DONE(M)[kstar]), hist1(H, kstar)), fn=fq, meta={"replay": rp}))
        run.add(Obl(f"{fq}/frame{tag}", q.pc, frame_goal(q, H0, {"Rule.activation_degree", "Rule.triggered", "Aggregated.terms"}), fn=fq, meta={"replay": rp}))
        run.add(Obl(f"{fq}/ensures.rejects_batches{tag}", q.pc + [BATCH > 1, ld(kstar)], z3.BoolVal(False), fn=fq, meta={"replay": rp}))
    run.add(static(f"{fq}/modifies", ex.writes <= {"Rule.activation_degree", "Rule.triggered", "Aggregated.terms"}, f"heap fields written: {sorted(ex.writes)}", fn=fq))


def build(run):
    run.assume("A-REAL", "A-NP", "A-PY", "A-MSG", "A-LOG", "A-LISTVAL", "A-ACTVAL", "A-WF")
    try:
        table, lookup_ok = comparator_table(run.src)
        ThresholdExec.table = table
        ok = lookup_ok and len(table) == 6 and all(op == MEANING.get(sym) for m, sym, op in table) and sorted(sym for _, sym, _ in table) == sorted(MEANING)
        run.add(static("activation.Threshold.Comparator/table", ok, f"members {table}; operator property looks the member's value up in the table: {lookup_ok}",
                       fn="activation.Threshold.Comparator", meta={"replay": {"module": W_N, "func": "replay_activation", "kwargs": {"method": "Threshold"}, "vars": {}}}))
    except NotFound as ex_:
        run.add(static("activation.Threshold.Comparator/table", False, f"not found: {ex_}"))
    for cls in METHODS:
        fq = f"activation.{cls}.activate"
        try:
            verify_loop_method(run, cls)
        except ANALYSIS as ex_:
            run.add(undecided(f"{fq}/subset", f"outside the verified subset: {ex_}", fn=fq,
                              meta={"replay": {"module": W_N, "func": "replay_activation", "kwargs": {"method": cls}, "vars": {}}}))
        except NotFound as ex_:
            run.add(static(f"{fq}/exists", False, f"function under contract not found: {ex_}", fn=fq))


    try:
        verify_proportional(run)
    except ANALYSIS as ex_:
        run.add(undecided("activation.Proportional.activate/subset", f"outside the verified subset: {ex_}", fn="activation.Proportional.activate",
                          meta={"replay": {"module": W_N, "func": "replay_activation", "kwargs": {"method": "Proportional"}, "vars": {}}}))
    for cls_ in ("Highest", "Lowest"):
        try:
            verify_heap_method(run, cls_)
        except ANALYSIS as ex_:
            run.add(undecided(f"activation.{cls_}.activate/subset", f"outside the verified subset: {ex_}", fn=f"activation.{cls_}.activate",
                              meta={"replay": {"module": W_N, "func": "replay_activation", "kwargs": {"method": cls_}, "vars": {}}}))
    # bounded stand-ins (level B, never counted as proved): Highest / Lowest / Proportional are not yet under a loop contract
    # (heapq and the two-loop normalisation); all seven methods are cross-checked against the definition on random rule blocks
    budget = 400 if run.tier == "quick" else 6000
    for m in ("Highest", "Lowest", "Proportional", "General", "First", "Last", "Threshold"):
        for q_ in (f"{m}.activate",):
            if run.src.has_func("activation", q_) and m in ("Highest", "Lowest", "Proportional"):
                run.under_contract("activation", q_, run.src.func("activation", q_))
        run.bounded(f"activation.{m}.activate/select.runtime", W_N, "replay_activation", [dict(method=m, seed=run.seed, budget=budget)],
                    bound=f"{budget} random rule blocks of 1-8 rules, degrees from a grid with ties/zeros/near-threshold values, unloaded and disabled rules, all parameter values n=0..9, thresholds, 6 comparators; batch rejection")


if __name__ == "__main__":
    sys.exit(main("C08", build, "Activation methods trigger exactly the rules their definition selects"))
