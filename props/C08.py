"""C08 - Activation methods trigger exactly the rules their definition selects (DESIGN 8/C08).

Scheme (one driver for General / First / Last / Threshold): the loop over the rules is verified with history (ghost) functions
indexed by the iteration number j:  Tg(j) = the fuzzy outputs before iteration j, deg(j) = the degree computed for rule j,
cnt(j) = number of rules triggered before j.  For a skolem index k* the invariant keeps hist(k*) for every completed
iteration:  the rule's stored degree is weight x antecedent value *on the outputs accumulated so far*, it was triggered iff the
method's definition selects it, and its contribution is exactly contributions(consequent, deg, implication).
"""
import sys, os
sys.path.insert(0, os.path.dirname(os.path.dirname(os.path.abspath(__file__))))
import ast
import z3
from pyvc import xreal as xr
from pyvc.numexec import Num, Bool, Unsupported
from pyvc.heap import (HeapExec, HPath, LoopSpec, Ref, NONE, XR, Act, cls_of, SeqRef, SeqAct, x2xr, xr2x, RefV, SeqV, ActV, BATCH, canon)
from pyvc.hlib import init_heap, emit, frame_goal
from pyvc.solve import Obl, static, undecided
from pyvc.runner import main
from pyvc.source import NotFound
from contracts import wiring as W

W_N = "contracts.wiring_native"


def sel_general(d, cnt, P):
    return z3.BoolVal(True)


def sel_first(d, cnt, P):
    dx = xr2x(d)
    return z3.And(cnt < P["rules"], xr.gt(dx, xr.const(0.0)), xr.ge(dx, xr2x(P["threshold"])))


def cmp_threshold(d, cnt, P):
    """Threshold.Comparator table read from the source is checked statically; here: op index -> comparison"""
    dx, t = xr2x(d), xr2x(P["threshold"])
    ops = [xr.lt(dx, t), xr.le(dx, t), xr.eq(dx, t), xr.ne(dx, t), xr.ge(dx, t), xr.gt(dx, t)]
    r = ops[-1]
    for i in range(len(ops) - 2, -1, -1):
        r = z3.If(P["comparator"] == i, ops[i], r)
    return r


def comparator_table(src):
    """Threshold.Comparator read from the AST: [(member, symbol, operator-function name)] in declaration order"""
    c = src.cls("activation", "Threshold.Comparator")
    members, ops = [], {}
    for n in c.body:
        if isinstance(n, ast.Assign) and len(n.targets) == 1 and isinstance(n.targets[0], ast.Name) and isinstance(n.value, ast.Constant) and isinstance(n.value.value, str):
            members.append((n.targets[0].id, n.value.value))
        if isinstance(n, ast.AnnAssign) and isinstance(n.target, ast.Name) and n.target.id == "__operator__" and isinstance(n.value, ast.Dict):
            for k, v in zip(n.value.keys, n.value.values):
                ops[k.id] = v.attr if isinstance(v, ast.Attribute) and isinstance(v.value, ast.Name) and v.value.id == "operator" else ast.unparse(v)
    prop = src.func("activation", "Threshold.Comparator.operator", "getter")
    body = [x for x in prop.body if not (isinstance(x, ast.Expr) and isinstance(x.value, ast.Constant))]
    lookup_ok = len(body) == 1 and ast.unparse(body[0]) == "return Threshold.Comparator.__operator__[self.value]"
    return [(m, sym, ops.get(m)) for m, sym in members], lookup_ok


CMP = {"lt": xr.lt, "le": xr.le, "eq": xr.eq, "ne": xr.ne, "ge": xr.ge, "gt": xr.gt}
MEANING = {"<": "lt", "<=": "le", "==": "eq", "!=": "ne", ">=": "ge", ">": "gt"}


class ThresholdExec(HeapExec):
    """`self.comparator.operator(a, b)`: the comparator is the index of an enum member; its operator is looked up in the table read
    from the source (so a row bound to the wrong operator function changes the executed semantics)"""
    table = []

    def method_call(s, p, recv, meth, args, kwargs, node):
        if meth == "operator" and isinstance(recv, Num) and recv.isint and len(args) == 2:
            a, b = s.num(args[0], node), s.num(args[1], node)
            idx = z3.ToInt(recv.x.v)
            r = z3.BoolVal(False)
            for i, (m, sym, op) in reversed(list(enumerate(s.table))):
                if op not in CMP:
                    raise Unsupported(f"comparator {m} bound to {op}")
                r = z3.If(idx == i, CMP[op](a.x, b.x), r)
            return Bool(r, a.data or b.data, False)
        return super().method_call(p, recv, meth, args, kwargs, node)


def sel_threshold(d, cnt, P):
    dx, t = xr2x(d), xr2x(P["threshold"])
    r = z3.BoolVal(False)
    for i, (m, sym, op) in reversed(list(enumerate(ThresholdExec.table))):
        r = z3.If(P["comparator"] == i, CMP[MEANING[sym]](dx, t), r)       # the documented meaning of the member's symbol
    return r


METHODS = {
    "General": dict(sel=sel_general, count=False, reverse=False, params=[]),
    "First": dict(sel=sel_first, count=True, reverse=False, params=[("rules", "int"), ("threshold", "num")]),
    "Last": dict(sel=sel_first, count=True, reverse=True, params=[("rules", "int"), ("threshold", "num")]),
    "Threshold": dict(sel=sel_threshold, count=False, reverse=False, params=[("comparator", "int"), ("threshold", "num")]),
}


def verify_loop_method(run, cls):
    M = METHODS[cls]
    src = run.src
    fq = f"activation.{cls}.activate"
    fn = src.func("activation", f"{cls}.activate")
    run.under_contract("activation", f"{cls}.activate", fn)
    sc = W.schema(src)
    H0 = init_heap(sc)
    self_ = z3.Const("self", Ref); block = z3.Const("rule_block", Ref)
    vstar, ostar = z3.Const("v*", Ref), z3.Const("o*", Ref)
    kstar = z3.Int("k*")
    OUT = sc.ids["OutputVariable"]
    rules = H0["RuleBlock.rules"][block]
    L = z3.Length(rules)
    conj, disj, impl = H0["RuleBlock.conjunction"][block], H0["RuleBlock.disjunction"][block], H0["RuleBlock.implication"][block]
    P = {nm: H0[f"{cls}.{nm}"][self_] for nm, _ in M["params"]}
    deg = z3.Function(f"deg", z3.IntSort(), XR)
    Tg = z3.Function(f"Tg", z3.IntSort(), W.TArr)
    cnt = z3.Function(f"cnt", z3.IntSort(), z3.IntSort())
    rule = (lambda j: rules[L - 1 - j]) if M["reverse"] else (lambda j: rules[j])
    V = H0["Variable._value"]
    fz = H0["OutputVariable.fuzzy"][vstar]

    def ld(j):
        return W.loaded(H0, rule(j))

    def sel(j):
        return M["sel"](deg(j), cnt(j), P)

    def hist(H, j):
        r = rule(j)
        en = H0["Rule.enabled"][r]
        cons = H0["Rule.consequent"][r]
        n = z3.Length(H0["Consequent.conclusions"][cons])
        yes = z3.And(H["Rule.activation_degree"][r] == deg(j),
                     deg(j) == W.fire(H0, r, conj, disj, Tg(j)),
                     Tg(j + 1)[fz] == z3.If(z3.And(sel(j), en), z3.Concat(Tg(j)[fz], W.contrib(cons, deg(j), impl, vstar, n)), Tg(j)[fz]),
                     Tg(j + 1)[ostar] == Tg(j)[ostar],
                     H["Rule.triggered"][r] == z3.And(sel(j), en, xr.gt(xr2x(deg(j)), xr.const(0.0))))
        no = z3.And(H["Rule.activation_degree"][r] == x2xr(xr.const(0.0)), z3.Not(H["Rule.triggered"][r]), Tg(j + 1) == Tg(j))
        return z3.If(ld(j), yes, no)

    def inv(ex, p, k, seq):
        c = [p.heap["Aggregated.terms"] == Tg(k), z3.Implies(z3.And(kstar >= 0, kstar < k), hist(p.heap, kstar))]
        if M["count"]:
            c.append(z3.ToReal(cnt(k)) == ex.num(p.env["activated"]).x.v)
        if cls != "General":      # a batch is rejected at the first loaded rule, before any selection decision
            c.append(z3.Implies(z3.And(BATCH > 1, kstar >= 0, kstar < k), z3.Not(ld(kstar))))
        return z3.And(*c)

    def facts(ex, p, k, seq):
        r = rule(k)
        f = [r != NONE, H0["Rule.antecedent"][r] != NONE, H0["Rule.consequent"][r] != NONE,
             z3.Implies(k != kstar, r != rule(kstar)),           # wf: a rule occurs once in the block
             cnt(0) == 0, cnt(k + 1) == cnt(k) + z3.If(z3.And(ld(k), sel(k)), 1, 0), canon(deg(k)), canon(deg(kstar))]
        for nm, kind in M["params"]:
            if kind == "num":
                f.append(canon(P[nm]))
        return f

    def ghost(ex, q, k, seq):
        # history: outputs after iteration k; the degree stored for rule k in this iteration
        return [Tg(k + 1) == q.heap["Aggregated.terms"], z3.Implies(ld(k), deg(k) == q.heap["Rule.activation_degree"][rule(k)])]

    contracts = {"Rule.activate_with": W.ActivateWithContract(), "Rule.trigger": W.TriggerContract()}
    ex = (ThresholdExec if cls == "Threshold" else HeapExec)(src, "activation", sc, contracts=contracts, interfaces=W.INTERFACES,
                  inline={"Rule.deactivate", "Rule.is_loaded", "Antecedent.is_loaded", "Consequent.is_loaded", "Activation.assert_is_not_vector"},
                  loops={0: LoopSpec(inv, facts=facts, ghost=ghost, name="loop0", modifies={"Rule.activation_degree", "Rule.triggered", "Aggregated.terms"})}, fnname=fq)
    ex.witness = {"vars": [vstar], "objs": [ostar]}
    if cls == "Threshold":
        pre_extra = [P["comparator"] >= 0, P["comparator"] < len(ThresholdExec.table)]
    else:
        pre_extra = []
    pre = pre_extra + [self_ != NONE, block != NONE, cls_of(vstar) == OUT, BATCH >= 1, Tg(0) == H0["Aggregated.terms"], kstar >= 0, kstar < L] \
        + W.wf_output_variable(sc, H0, vstar) + [W.not_a_fuzzy_output(H0, ostar)]
    p0 = HPath({"self": RefV(self_, cls), "rule_block": RefV(block, "RuleBlock")}, pre, H0)
    outs = ex.run_fn(fn, p0)
    rp = {"module": W_N, "func": "replay_activation", "kwargs": {"method": cls}, "vars": {}}
    emit(run, ex, fq, [], rp)
    run.add(Obl(f"{fq}/pre.sat", pre + [L > 1], None, expect="sat", fn=fq))
    scalar = [BATCH == 1]
    for i, (kind, val, q) in enumerate(outs):
        tag = f"[path{i}]"
        if kind == "raise":
            # for scalar inputs nothing raises (the callees' preconditions are obligations of their own); a batch is rejected by ValueError
            run.add(Obl(f"{fq}/raises.only_for_batches{tag}", q.pc, z3.And(z3.BoolVal(val == "ValueError"), BATCH > 1), fn=fq, meta={"replay": rp}))
            continue
        # every rule of the block has been processed according to the definition, on the outputs accumulated so far
        run.add(Obl(f"{fq}/ensures.select{tag}", q.pc + scalar + facts(ex, q, kstar, None), z3.And(hist(q.heap, kstar), q.heap["Aggregated.terms"] == Tg(L)), fn=fq, meta={"replay": rp}))
        run.add(Obl(f"{fq}/frame{tag}", q.pc, frame_goal(q, H0, {"Rule.activation_degree", "Rule.triggered", "Aggregated.terms"}), fn=fq, meta={"replay": rp}))
        if M["params"] or cls != "General":
            # vector-incapable methods reject batches instead of mis-selecting: with a batch and a loaded rule there is no normal return
            run.add(Obl(f"{fq}/ensures.rejects_batches{tag}", q.pc + [BATCH > 1, ld(kstar)] + facts(ex, q, kstar, None), z3.BoolVal(False), fn=fq, meta={"replay": rp}))
    run.add(static(f"{fq}/modifies", ex.writes <= {"Rule.activation_degree", "Rule.triggered", "Aggregated.terms"}, f"heap fields written: {sorted(ex.writes)}", fn=fq))


def build(run):
    run.assume("A-REAL", "A-NP", "A-PY", "A-MSG", "A-LOG", "A-LISTVAL", "A-ACTVAL", "A-WF")
    try:
        table, lookup_ok = comparator_table(run.src)
        ThresholdExec.table = table
        ok = lookup_ok and len(table) == 6 and all(op == MEANING.get(sym) for m, sym, op in table) and sorted(sym for _, sym, _ in table) == sorted(MEANING)
        run.add(static("activation.Threshold.Comparator/table", ok, f"members {table}; operator property looks the member's value up in the table: {lookup_ok}",
                       fn="activation.Threshold.Comparator", meta={"replay": {"module": W_N, "func": "replay_activation", "kwargs": {"method": "Threshold"}, "vars": {}}}))
    except NotFound as ex_:
        run.add(static("activation.Threshold.Comparator/table", False, f"not found: {ex_}"))
    for cls in METHODS:
        fq = f"activation.{cls}.activate"
        try:
            verify_loop_method(run, cls)
        except Unsupported as ex_:
            run.add(undecided(f"{fq}/subset", f"outside the verified subset: {ex_}", fn=fq,
                              meta={"replay": {"module": W_N, "func": "replay_activation", "kwargs": {"method": cls}, "vars": {}}}))
        except NotFound as ex_:
            run.add(static(f"{fq}/exists", False, f"function under contract not found: {ex_}", fn=fq))


    # bounded stand-ins (level B, never counted as proved): Highest / Lowest / Proportional are not yet under a loop contract
    # (heapq and the two-loop normalisation); all seven methods are cross-checked against the definition on random rule blocks
    budget = 400 if run.tier == "quick" else 6000
    for m in ("Highest", "Lowest", "Proportional", "General", "First", "Last", "Threshold"):
        for q_ in (f"{m}.activate",):
            if run.src.has_func("activation", q_) and m in ("Highest", "Lowest", "Proportional"):
                run.under_contract("activation", q_, run.src.func("activation", q_))
        run.bounded(f"activation.{m}.activate/select.runtime", W_N, "replay_activation", [dict(method=m, seed=run.seed, budget=budget)],
                    bound=f"{budget} random rule blocks of 1-8 rules, degrees from a grid with ties/zeros/near-threshold values, unloaded and disabled rules, all parameter values n=0..9, thresholds, 6 comparators; batch rejection")


if __name__ == "__main__":
    sys.exit(main("C08", build, "Activation methods trigger exactly the rules their definition selects"))
