"""C19 - An engine reported ready can be processed (DESIGN 8/C19).

Engine.is_ready is verified from the real AST with loop invariants over its four loops (output variables; rule blocks > rules >
conclusions).  Skolem indices b*, r*, c*, v* name an arbitrary block, rule, conclusion and output variable: when the result is
True none of the components the pipeline needs is missing for them (completeness of the error report = soundness of "ready").
`" and " in text` is an uninterpreted substring predicate; the hypothesis H-WS of the property (rules are written with
whitespace-separated tokens) links it to "the loaded expression tree has an `and` node".
"""
import sys, os
sys.path.insert(0, os.path.dirname(os.path.dirname(os.path.abspath(__file__))))
import ast, copy
import z3
from pyvc import xreal as xr
from pyvc.numexec import Num, Bool, Unsupported, ANALYSIS
from pyvc.heap import (HeapExec, HPath, LoopSpec, Ref, NONE, Str, cls_of, SeqRef, RefV, SeqV, strc, str_contains, str_distinct, sort_of)
from pyvc.hlib import init_heap, emit, frame_goal
from pyvc.solve import Obl, static, undecided
from pyvc.runner import main
from pyvc.source import NotFound
from contracts import wiring as W

W_N = "contracts.wiring_native"


def verify_is_ready(run):
    src = run.src
    fq = "engine.Engine.is_ready"
    fn = src.func("engine", "Engine.is_ready")
    run.under_contract("engine", "Engine.is_ready", fn)
    sc = W.schema(src)
    H0 = init_heap(sc)
    self_ = z3.Const("self", Ref)
    bS, rS, cS, vS = z3.Int("b*"), z3.Int("r*"), z3.Int("c*"), z3.Int("v*")
    outs_ = H0["Engine.output_variables"][self_]; blocks = H0["Engine.rule_blocks"][self_]
    INTEGRAL = lambda d: z3.And(d != NONE, sc.is_instance(d, "IntegralDefuzzifier"))
    OUTV = lambda v: z3.And(v != NONE, sc.is_instance(v, "OutputVariable"))
    AND_, OR_ = strc(" and "), strc(" or ")

    # ---- what each element needs (from the property statement)
    def var_missing(v):
        d = H0["OutputVariable.defuzzifier"][v]
        agg = H0["Aggregated.aggregation"][H0["OutputVariable.fuzzy"][v]]
        return z3.Or(d == NONE, z3.And(INTEGRAL(d), agg == NONE))

    def rule_text(r):
        return H0["Antecedent.text"][H0["Rule.antecedent"][r]]

    def concl_integral(c):
        v = H0["Proposition.variable"][c]
        return z3.And(OUTV(v), INTEGRAL(H0["OutputVariable.defuzzifier"][v]))

    def block_missing(b, r, c):
        """block b lacks an operator that its rule r (conclusion c) needs"""
        concl = H0["Consequent.conclusions"][H0["Rule.consequent"][r]]
        need_impl = z3.And(W.loaded(H0, r), c >= 0, c < z3.Length(concl), concl_integral(concl[c]))
        return z3.Or(z3.And(str_contains(rule_text(r), AND_), H0["RuleBlock.conjunction"][b] == NONE),
                     z3.And(str_contains(rule_text(r), OR_), H0["RuleBlock.disjunction"][b] == NONE),
                     z3.And(need_impl, H0["RuleBlock.implication"][b] == NONE))

    def errlen(p):
        return z3.Length(p.env["errors"].q)

    def wf_block(b):
        return [b != NONE]

    def wf_rule(r):
        return [r != NONE, H0["Rule.antecedent"][r] != NONE, H0["Rule.consequent"][r] != NONE]

    # ---- loop 0: output variables
    def inv0(ex, p, k, seq):
        ent = ex.entry[0]
        return z3.And(errlen(p) >= z3.Length(ent.env["errors"].q),
                      z3.Implies(z3.And(vS >= 0, vS < k, var_missing(outs_[vS])), errlen(p) > 0))

    def facts0(ex, p, k, seq):
        v = outs_[k]
        return [v != NONE, cls_of(v) == sc.ids["OutputVariable"], H0["OutputVariable.fuzzy"][v] != NONE, outs_[vS] != NONE, H0["OutputVariable.fuzzy"][outs_[vS]] != NONE]

    # ---- loop 1: rule blocks (enumerate)
    def inv1(ex, p, k, seq):
        ent = ex.entry[1]
        b = blocks[bS]
        rules = H0["RuleBlock.rules"][b]
        return z3.And(errlen(p) >= z3.Length(ent.env["errors"].q),
                      z3.Implies(z3.And(bS >= 0, bS < k, rS >= 0, rS < z3.Length(rules), block_missing(b, rules[rS], cS)), errlen(p) > 0))

    def facts1(ex, p, k, seq):
        return wf_block(blocks[k]) + wf_block(blocks[bS])

    # ---- loop 2: rules of the current block (counters)
    def cur_block(ex, p):
        return p.env["rule_block"].r

    def inv2(ex, p, k, seq):
        ent = ex.entry[2]
        r = seq[rS]
        cn, dn, im = (ex.num(p.env[nm]).x.v for nm in ("conjunction_needed", "disjunction_needed", "implication_needed"))
        concl = H0["Consequent.conclusions"][H0["Rule.consequent"][r]]
        need_impl = z3.And(W.loaded(H0, r), cS >= 0, cS < z3.Length(concl), concl_integral(concl[cS]))
        here = z3.And(rS >= 0, rS < k)
        return z3.And(cn >= 0, dn >= 0, im >= 0, errlen(p) == z3.Length(ent.env["errors"].q),
                      z3.Implies(z3.And(here, str_contains(rule_text(r), AND_)), cn > 0),
                      z3.Implies(z3.And(here, str_contains(rule_text(r), OR_)), dn > 0),
                      z3.Implies(z3.And(here, need_impl), im > 0))

    def facts2(ex, p, k, seq):
        return wf_rule(seq[k]) + wf_rule(seq[rS])

    # ---- loop 3: conclusions of the current rule
    def inv3(ex, p, k, seq):
        m = ex.num(p.env["mamdani_consequents"]).x.v
        return z3.And(m >= 0, z3.Implies(z3.And(cS >= 0, cS < k, concl_integral(seq[cS])), m > 0))

    def facts3(ex, p, k, seq):
        return [seq[k] != NONE, seq[cS] != NONE]

    loops = {0: LoopSpec(inv0, facts=facts0, name="loop0.output_variables", modifies=set()),
             1: LoopSpec(inv1, facts=facts1, name="loop1.rule_blocks", modifies=set()),
             2: LoopSpec(inv2, facts=facts2, name="loop2.rules", modifies=set()),
             3: LoopSpec(inv3, facts=facts3, name="loop3.conclusions", modifies=set())}
    ex = HeapExec(src, "engine", sc, interfaces=W.INTERFACES, inline={"Rule.is_loaded", "Antecedent.is_loaded", "Consequent.is_loaded"}, loops=loops, fnname=fq)
    errors0 = z3.Const("errors@pre", z3.SeqSort(Str))
    pre = [self_ != NONE]
    p0 = HPath({"self": RefV(self_, "Engine"), "errors": SeqV(errors0, "str")}, pre, H0)
    outs = ex.run_fn(fn, p0)
    rp = {"module": W_N, "func": "replay_ready", "kwargs": {}, "vars": {}}
    emit(run, ex, fq, [], rp)
    run.add(Obl(f"{fq}/pre.sat", pre, None, expect="sat", fn=fq))
    for i, (kind, val, q) in enumerate(outs):
        tag = f"[path{i}]"
        if kind == "raise":
            run.add(Obl(f"{fq}/raises.none{tag}", q.pc + str_distinct(), z3.BoolVal(False), fn=fq, meta={"replay": rp})); continue
        res = ex.truth(val, fn, q)
        ready = z3.And(res, z3.Length(errors0) == 0)
        v = outs_[vS]; b = blocks[bS]; rules = H0["RuleBlock.rules"][b]
        hyp = q.pc + str_distinct() + [ready]
        # ready => nothing that is needed is missing (for the arbitrary output variable v*, block b*, rule r*, conclusion c*)
        run.add(Obl(f"{fq}/ready.output_variables_complete{tag}", hyp + [vS >= 0, vS < z3.Length(outs_)], z3.Not(var_missing(v)), fn=fq, meta={"replay": rp}))
        for nm, what in (("conjunction", lambda r: z3.And(str_contains(rule_text(r), AND_), H0["RuleBlock.conjunction"][b] == NONE)),
                         ("disjunction", lambda r: z3.And(str_contains(rule_text(r), OR_), H0["RuleBlock.disjunction"][b] == NONE))):
            run.add(Obl(f"{fq}/ready.{nm}_present_when_needed{tag}", hyp + [bS >= 0, bS < z3.Length(blocks), rS >= 0, rS < z3.Length(rules)],
                        z3.Not(what(rules[rS])), fn=fq, meta={"replay": rp}))
        r = rules[rS]
        concl = H0["Consequent.conclusions"][H0["Rule.consequent"][r]]
        need_impl = z3.And(W.loaded(H0, r), cS >= 0, cS < z3.Length(concl), concl_integral(concl[cS]))
        run.add(Obl(f"{fq}/ready.implication_present_when_needed{tag}", hyp + [bS >= 0, bS < z3.Length(blocks), rS >= 0, rS < z3.Length(rules)],
                    z3.Not(z3.And(need_impl, H0["RuleBlock.implication"][b] == NONE)), fn=fq, meta={"replay": rp}))
        run.add(Obl(f"{fq}/ensures.result_is_no_errors{tag}", q.pc, res == (z3.Length(q.env["errors"].q) == 0), fn=fq, meta={"replay": rp}))
        run.add(Obl(f"{fq}/frame{tag}", q.pc, frame_goal(q, H0), fn=fq, meta={"replay": rp}))
    run.add(static(f"{fq}/modifies", not ex.writes, f"heap fields written: {sorted(ex.writes)}", fn=fq))


# every raise statement reachable from Engine.process, and the reason it cannot fire for a ready engine with finite inputs
PROCESS_TREE = [
    ("engine", "Engine.process"), ("rule", "RuleBlock.activate"), ("activation", "General.activate"), ("activation", "First.activate"), ("activation", "Last.activate"),
    ("activation", "Highest.activate"), ("activation", "Lowest.activate"), ("activation", "Proportional.activate"), ("activation", "Threshold.activate"),
    ("activation", "Activation.assert_is_not_vector"), ("rule", "Rule.deactivate"), ("rule", "Rule.is_loaded"), ("rule", "Rule.activate_with"), ("rule", "Rule.trigger"),
    ("rule", "Antecedent.activation_degree"), ("rule", "Consequent.modify"), ("variable", "OutputVariable.defuzzify"), ("term", "Activated.membership"),
    ("term", "Aggregated.membership"), ("term", "Aggregated.grouped_terms"), ("term", "Aggregated.activation_degree"), ("term", "Aggregated.clear"),
    ("defuzzifier", "WeightedAverage.defuzzify"), ("defuzzifier", "WeightedSum.defuzzify"), ("defuzzifier", "WeightedDefuzzifier.infer_type"),
    ("defuzzifier", "Centroid.defuzzify"), ("defuzzifier", "Bisector.defuzzify"), ("defuzzifier", "SmallestOfMaximum.defuzzify"), ("defuzzifier", "MeanOfMaximum.defuzzify"),
    ("defuzzifier", "LargestOfMaximum.defuzzify"),
]
# (function, exception, guard text contains) -> why excluded
EXCLUSIONS = [
    ("RuleBlock.activate", "ValueError", "not self.activation", "premise: every rule block has an activation method"),
    ("Activation.assert_is_not_vector", "ValueError", "size", "premise: finite scalar input values (a batch with a non-General method is rejected by design, C08)"),
    ("Rule.activate_with", "RuntimeError", "not self.is_loaded()", "guarded: activate() calls it only after rule.is_loaded() (C08 call.pre)"),
    ("Rule.trigger", "RuntimeError", "not self.is_loaded()", "guarded: activate() calls it only after rule.is_loaded() (C08 call.pre)"),
    ("Antecedent.activation_degree", "RuntimeError", "antecedent", "loaded rule (A-WF; C06 raises.RuntimeError_iff_unloaded)"),
    ("Antecedent.activation_degree", "ValueError", "not node.variable", "loaded rule: well-formed expression (A-WF, C06 raises.none_when_wellformed)"),
    ("Antecedent.activation_degree", "ValueError", "not node.term", "loaded rule: well-formed expression (A-WF, C06)"),
    ("Antecedent.activation_degree", "ValueError", "not (node.left and node.right)", "loaded rule: well-formed expression (A-WF, C06)"),
    ("Antecedent.activation_degree", "ValueError", "not conjunction", "is_ready: ready.conjunction_present_when_needed + H-WS (an `and` node means ' and ' occurs in the text)"),
    ("Antecedent.activation_degree", "ValueError", "not disjunction", "is_ready: ready.disjunction_present_when_needed + H-WS"),
    ("Antecedent.activation_degree", "ValueError", "not recognized", "loaded rule: operator names are `and`/`or` (A-WF, C06)"),
    ("Antecedent.activation_degree", "RuntimeError", "unexpected type", "loaded rule: nodes are propositions or operators (A-WF, C06)"),
    ("Consequent.modify", "RuntimeError", "not self.conclusions", "guarded: trigger() is called for loaded rules only (C07 call.pre)"),
    ("Consequent.modify", "ValueError", "not proposition.variable", "loaded consequent (A-WF; C07 raises.none_when_loaded)"),
    ("Consequent.modify", "ValueError", "not proposition.term", "loaded consequent (A-WF; C07 raises.none_when_loaded)"),
    ("Consequent.modify", "RuntimeError", "expected an output variable", "loaded consequent (A-WF; C07 raises.none_when_loaded)"),
    ("OutputVariable.defuzzify", "ValueError", "not self.defuzzifier", "is_ready: ready.output_variables_complete (defuzzifier present)"),
    ("Activated.membership", "ValueError", "not self.implication", "is_ready: ready.implication_present_when_needed (only integral defuzzifiers evaluate Activated.membership)"),
    ("Aggregated.membership", "ValueError", "not self.aggregation", "is_ready: ready.output_variables_complete (aggregation present for integral defuzzifiers)"),
    ("WeightedAverage.defuzzify", "ValueError", "isinstance(fuzzy_output, Aggregated)", "OutputVariable.defuzzify passes self.fuzzy, an Aggregated (C12 ensures.defuzzifier_args)"),
    ("WeightedSum.defuzzify", "ValueError", "isinstance(fuzzy_output, Aggregated)", "OutputVariable.defuzzify passes self.fuzzy, an Aggregated (C12 ensures.defuzzifier_args)"),
    ("WeightedDefuzzifier.infer_type", "TypeError", "multiple types", "NOT excluded by is_ready: mixed term kinds with the Automatic type (recorded as a residual case of the bounded stand-in)"),
]


def verify_raise_sites(run):
    """static composition: every raise statement in the call tree of Engine.process is matched to the is_ready clause / premise / proved
    precondition that excludes it; an unmatched raise site (new check, removed guard) fails this obligation"""
    src = run.src
    unmatched, matched, missing_fn = [], [], []
    for m, q in PROCESS_TREE:
        if not src.has_func(m, q):
            missing_fn.append(f"{m}.{q}"); continue
        fn = src.func(m, q)
        run.under_contract(m, q, fn)
        parents = {}
        for node in ast.walk(fn):
            for ch in ast.iter_child_nodes(node):
                parents[ch] = node
        # locals that are plain aliases of an attribute chain (`defuzzifier = self.defuzzifier`, bound once): a guard written over the alias is the guard over the attribute
        binds = {}
        for node in ast.walk(fn):
            if isinstance(node, (ast.Assign, ast.AnnAssign)):
                tg = node.targets if isinstance(node, ast.Assign) else [node.target]
                for t in tg:
                    for nm in ast.walk(t):
                        if isinstance(nm, ast.Name):
                            binds.setdefault(nm.id, []).append(node.value if len(tg) == 1 and t is nm else None)
            elif isinstance(node, (ast.For, ast.comprehension, ast.NamedExpr, ast.withitem, ast.AugAssign)):
                t = getattr(node, "target", None) or getattr(node, "optional_vars", None)
                for nm in ast.walk(t) if t is not None else []:
                    if isinstance(nm, ast.Name):
                        binds.setdefault(nm.id, []).append(None)
        def chain(v):
            while isinstance(v, ast.Attribute):
                v = v.value
            return isinstance(v, ast.Name)
        alias = {k: v[0] for k, v in binds.items() if len(v) == 1 and v[0] is not None and isinstance(v[0], ast.Attribute) and chain(v[0])}

        class _Sub(ast.NodeTransformer):
            def visit_Name(s_, n):
                return copy.deepcopy(alias[n.id]) if isinstance(n.ctx, ast.Load) and n.id in alias else n

        def guard_text(t):
            return ast.unparse(_Sub().visit(copy.deepcopy(t))) if alias else ast.unparse(t)
        for node in ast.walk(fn):
            if isinstance(node, ast.Raise):
                exc = node.exc.func.id if isinstance(node.exc, ast.Call) and isinstance(node.exc.func, ast.Name) else ast.unparse(node.exc) if node.exc else "re-raise"
                msg = ast.unparse(node.exc)
                guards, cur = [], node
                while cur in parents:
                    par = parents[cur]
                    if isinstance(par, ast.If):
                        guards.append(guard_text(par.test))
                    cur = par
                ctx = " && ".join(guards) + " :: " + msg
                hit = [e for e in EXCLUSIONS if e[0] == q and e[1] == exc and e[2] in ctx]
                (matched if hit else unmatched).append(f"{q}:{node.lineno - fn.lineno} {exc} [{guards[0] if guards else 'unconditional'}]" + (f" <- {hit[0][3]}" if hit else ""))
    unused = [e for e in EXCLUSIONS if not any(x.startswith(e[0] + ":") and e[3] in x for x in matched)]
    rp = {"module": W_N, "func": "replay_ready", "kwargs": {}, "vars": {}}
    if unmatched or missing_fn:
        # a raise statement that no row of the table explains (a new check, a guard written in another way): whether readiness excludes it is NOT known - undecided, and a
        # violation only if the directed native search (ready engines that cannot be processed) reproduces a failure
        run.add(undecided("engine.Engine.process/raise_sites_excluded_when_ready", f"raise sites not explained by the exclusion table: {unmatched}; missing functions: {missing_fn}",
                          fn="engine.Engine.process", meta={"replay": rp}))
    else:
        run.add(static("engine.Engine.process/raise_sites_excluded_when_ready", True, f"{len(matched)} raise sites in {len(PROCESS_TREE)} functions, each excluded: " + "; ".join(matched[:6]) + " ...",
                       fn="engine.Engine.process", meta={"replay": rp}))
    run.add(static("engine.Engine.process/exclusion_table_current", not unused, f"table rows without a raise site in the source: {[u[:3] for u in unused]}" if unused else "every row of the exclusion table matches a raise site",
                   fn="engine.Engine.process", meta={"soft": True, "replay": rp}))


def build(run):
    run.assume("A-PY", "A-MSG", "A-LOG", "A-LISTVAL", "A-WF", "H-WS")
    rp = {"module": W_N, "func": "replay_ready", "kwargs": {}, "vars": {}}
    for fq, f in (("engine.Engine.is_ready", verify_is_ready), ("engine.Engine.process/raise_sites", verify_raise_sites)):
        try:
            f(run)
        except ANALYSIS as ex_:
            run.add(undecided(f"{fq}/subset", f"outside the verified subset: {ex_}", fn=fq, meta={"replay": rp}))
        except NotFound as ex_:
            run.add(static(f"{fq}/exists", False, f"function under contract not found: {ex_}", fn=fq))
    run.bounded("engine.Engine.is_ready+process/ready_implies_processable.runtime", W_N, "replay_ready", [dict(seed=run.seed, budget=4000 if run.tier == "quick" else 80000)],
                bound="generated engines (Mamdani / Takagi-Sugeno / Tsukamoto / hybrid conclusions, and/or antecedents, every activation method) with every subset of {conjunction, disjunction, implication, aggregation, defuzzifier} removed x finite input rows given as floats, 1-row vectors and 1-row matrices")


if __name__ == "__main__":
    sys.exit(main("C19", build, "An engine reported ready can be processed"))
