"""C18 - FuzzyLite Dataset export is a faithful tabulation of the engine (DESIGN 8/C18).

Deductive part:
  * Op.increment             recursion contract (decreases position): the mixed-radix successor with the LAST position fastest; returns False
                             exactly on wrap-around, leaving every digit at its minimum; digits outside [0, position] untouched
  * write_from_scope         resolution: EachVariable -> values - 1; AllVariables -> (largest k with k**n <= values) - 1, proved for the
                             error-bounded model of the floating-point root (DESIGN 4.6) where it is provable and decided by exhaustive native
                             evaluation of the extracted expression on the property's whole domain (n = 1..4, values = 1..2000) otherwise
  * write_from_scope         grid loop: every row is [minimum_i + digit_i * drange_i / max(1, resolution)] for the current digits, and the next
                             digits are the successor (contract of Op.increment); the loop ends exactly on wrap-around
Bounded (B): end-to-end comparison of exported datasets with an independent tabulation (contracts/batch_native.py replay_fld).
"""
import sys, os
sys.path.insert(0, os.path.dirname(os.path.dirname(os.path.abspath(__file__))))
import ast
import z3
from pyvc import xreal as xr
from pyvc.numexec import Num, Bool, Unsupported, ANALYSIS
from pyvc.heap import HPath, LoopSpec, Contract, Schema
from pyvc.intlists import IntListExec, ArrV, IntArr, mkint, toint
from pyvc.hlib import emit
from pyvc.solve import Obl, static, undecided
from pyvc.runner import main
from pyvc.source import NotFound, body_of

N_ = "contracts.batch_native"
RP_INC = {"module": N_, "func": "replay_increment", "kwargs": {}, "vars": {}}
# an empty reader (no data line at all) raises ValueError from write(): the statement speaks of tabulating the given rows; not demanded
NOT_DEMANDED = ["crash:ValueError@FldExporter.to_string_from_reader:empty"]
RP_FLD = {"module": N_, "func": "replay_fld", "kwargs": {"budget": 60, "skip_classes": NOT_DEMANDED}, "vars": {}}


def succ_spec(x, x2, ret, mn, mx, P, n):
    """x2/ret = mixed-radix successor of x on the digits 0..P (last fastest); digits above P untouched.  Written from the property statement."""
    i, j = z3.Int("i"), z3.Int("j")
    step = z3.Exists([j], z3.And(0 <= j, j <= P, x[j] < mx[j], x2[j] == x[j] + 1,
                                 z3.ForAll([i], z3.Implies(z3.And(j < i, i <= P), z3.And(x[i] >= mx[i], x2[i] == mn[i]))),
                                 z3.ForAll([i], z3.Implies(z3.And(0 <= i, i < n, z3.Or(i < j, i > P)), x2[i] == x[i])), ret))
    wrap = z3.And(z3.ForAll([i], z3.Implies(z3.And(0 <= i, i <= P), z3.And(x[i] >= mx[i], x2[i] == mn[i]))),
                  z3.ForAll([i], z3.Implies(z3.And(i > P, i < n), x2[i] == x[i])), z3.Not(ret))
    return z3.Or(step, wrap)


def verify_increment(run):
    src = run.src
    fq = "operation.Op.increment"
    fn = src.func("operation", "Operation.increment")
    run.under_contract("operation", "Operation.increment", fn)
    sc = Schema(src, {}, [])
    n = z3.Int("n")
    X0, MN, MX = z3.Const("x", IntArr), z3.Const("minimum", IntArr), z3.Const("maximum", IntArr)
    pos0 = z3.Int("position")

    class IncContract(Contract):
        """recursive call: the contract itself at a strictly smaller, non-negative position (decreases)"""

        def call(s, ex, p, recv, args, kwargs, node):
            x, mn, mx, pos = args
            P = toint(ex, pos, node)
            ex.oblige(f"decreases/line{node.lineno - ex.fn_line}:position decreases and stays >= 0", p, z3.And(P >= 0, P < ex.measure))
            x2 = z3.FreshConst(IntArr, "x_after_call")
            ret = z3.FreshConst(z3.BoolSort(), "ret_call")
            p.pc.append(succ_spec(x.arr, x2, ret, mn.arr, mx.arr, P, x.n))
            p.env[ex.xname] = ArrV(x2, x.n)
            return Bool(ret, False, True)

    class IncExec(IntListExec):
        def ev_Call(s, p, e):
            if ast.unparse(e.func) == "Op.increment":
                return IncContract().call(s, p, None, [s.ev(p, a) for a in e.args], {}, e)
            return super().ev_Call(p, e)

    for mode in ("default_position", "given_position"):
        ex = IncExec(src, "operation", sc, contracts={}, interfaces={}, inline=set(), loops={}, fnname=fq)
        ex.xname = "x"
        P = (n - 1) if mode == "default_position" else pos0
        ex.measure = P
        env = {"x": ArrV(X0, n), "minimum": ArrV(MN, n), "maximum": ArrV(MX, n), "position": None if mode == "default_position" else mkint(pos0)}
        pre = [n >= 0] + ([pos0 < n] if mode == "given_position" else [])
        outs = ex.run_fn(fn, HPath(env, pre, {}))
        emit(run, ex, f"{fq}[{mode}]", [], RP_INC)
        for k, (kind, val, q) in enumerate(outs):
            tag = f"[{mode}][path{k}]"
            if kind == "raise":
                run.add(Obl(f"{fq}/raises.none{tag}", q.pc, z3.BoolVal(False), fn=fq, meta={"replay": RP_INC}))
                continue
            ret = ex.boo(val).b
            x2 = q.env["x"].arr
            i = z3.Int("i")
            trivial = z3.And(z3.Not(ret), z3.ForAll([i], z3.Implies(z3.And(0 <= i, i < n), x2[i] == X0[i])))
            goal = z3.If(z3.Or(n == 0, P < 0), trivial, succ_spec(X0, x2, ret, MN, MX, P, n))
            run.add(Obl(f"{fq}/ensures.successor_last_fastest{tag}", q.pc, goal, fn=fq, meta={"replay": RP_INC}, qf=False))
    run.notes.append("Op.increment: recursion contract with decreases(position); spec = mixed-radix successor, last digit fastest, False exactly on wrap-around")

# ------------------------------------------------------------------------------------------------ write_from_scope: resolution
EPS = z3.RealVal(1) / (2 ** 50)          # relative error bound assumed of the floating-point pow (DESIGN 4.6; IEEE pow is within 1 ulp = 2**-52)
VMAX = 10 ** 9


def verify_resolution(run):
    from contracts import wiring as W
    from pyvc.hlib import init_heap
    from pyvc.heap import RefV, Ref, NONE
    src = run.src
    fq = "exporter.FldExporter.write_from_scope"
    fn = src.func("exporter", "FldExporter.write_from_scope")
    run.under_contract("exporter", "FldExporter.write_from_scope", fn)
    body = body_of(fn)
    idx = [i for i, st in enumerate(body) if isinstance(st, ast.If) and "AllVariables" in ast.unparse(st.test)]
    if len(idx) != 1:
        run.add(static(f"{fq}/resolution.statement_found", False, f"{len(idx)} `if scope == ...AllVariables` statements", fn=fq)); return
    prefix = body[:idx[0] + 1]
    sc = W.schema(src)
    members = None

    class ResExec(IntListExec):
        def ev_Call(s, p, e):
            f = e.func
            if isinstance(f, ast.Name) and f.id == "set":
                return ("opaque", "set")
            if isinstance(f, ast.Name) and f.id == "pow" and len(e.args) == 2:
                b, ex_ = s.num(s.ev(p, e.args[0]), e), s.num(s.ev(p, e.args[1]), e)
                # error-bounded model: the true root r (r >= 0, r**N == base: definitional) and |p - r| <= EPS*r
                s.oblige(f"model/line{e.lineno - s.fn_line}:the exponent of pow is 1/N", p, z3.And(xr.fin(ex_.x), ex_.x.v * s.N == 1))
                r, pw = z3.FreshReal("root"), z3.FreshReal("pow")
                rn = r
                for _ in range(s.N - 1):
                    rn = rn * r
                p.pc += [r >= 0, rn == b.x.v, pw >= r * (1 - EPS), pw <= r * (1 + EPS)]
                return Num(xr.X(xr.F, xr.I0, pw), False, True)
            if isinstance(f, ast.Name) and f.id in ("int", "round") and len(e.args) == 1:
                v = s.num(s.ev(p, e.args[0]), e)
                if v.isint:
                    return v
                m = z3.FreshInt(f.id)
                if f.id == "int":       # truncation toward zero
                    p.pc.append(z3.If(v.x.v >= 0, z3.And(z3.ToReal(m) <= v.x.v, v.x.v < z3.ToReal(m) + 1), z3.And(z3.ToReal(m) >= v.x.v, v.x.v > z3.ToReal(m) - 1)))
                else:                   # nearest integer (either neighbour at a tie: over-approximates round-half-even)
                    p.pc.append(z3.And(z3.ToReal(m) - v.x.v <= 0.5, v.x.v - z3.ToReal(m) <= 0.5))
                return mkint(m)
            return super().ev_Call(p, e)

        def binop(s, op, l, r, e, p):
            if isinstance(op, ast.Pow):
                a, b = s.num(l, e), s.num(r, e)
                if a.isint and b.isint:
                    s.oblige(f"model/line{e.lineno - s.fn_line}:the integer exponent is N", p, toint(s, b, e) == s.N)
                    y = toint(s, a, e)
                    out = y
                    for _ in range(s.N - 1):
                        out = out * y
                    return mkint(out)
            return super().binop(op, l, r, e, p)

    def ipow(x, N):
        y = x
        for _ in range(N - 1):
            y = y * x
        return y

    members = IntListExec(src, "exporter", sc, fnname=fq).enum_members("exporter", "FldExporter.ScopeOfValues")
    run.add(static(f"{fq}/scope_members", members == ["EachVariable", "AllVariables"], f"ScopeOfValues members {members}", fn=fq))
    for scope_name in members:
        for N in ((1, 2, 3, 4) if scope_name == "AllVariables" else (2,)):
            H0 = init_heap(sc)
            ex = ResExec(src, "exporter", sc, contracts={}, interfaces={}, inline=set(), loops={}, fnname=fq)
            ex.N = N
            ex.fn_line = fn.lineno
            eng, self_ = z3.Const("engine", Ref), z3.Const("self", Ref)
            v = z3.Int("values")
            env = {"self": RefV(self_, None), "engine": RefV(eng, "Engine"), "writer": ("opaque", "writer"), "values": mkint(v), "scope": members.index(scope_name), "active_variables": None}
            pre = [eng != NONE, v >= 1, v <= VMAX, z3.Length(H0["Engine.input_variables"][eng]) == N]
            outs = ex.block([HPath(env, pre, H0)], prefix)
            tagN = f"[{scope_name}" + (f",n={N}]" if scope_name == "AllVariables" else "]")
            emit(run, ex, f"{fq}{tagN}", [], RP_FLD)
            ex.obls = []
            for k, (q, sig) in enumerate(outs):
                if sig is not None:
                    if sig[0] == "raise":
                        run.add(Obl(f"{fq}/resolution.no_raise{tagN}[path{k}]", q.pc, z3.BoolVal(False), fn=fq, meta={"replay": RP_FLD}))
                    continue
                res = toint(ex, q.env["resolution"])
                if scope_name == "EachVariable":
                    goal = res == v - 1
                    meta = {"replay": dict(RP_FLD, kwargs={"budget": 40, "only_class": "fld-rowcount"})}
                else:
                    kk = res + 1
                    goal = z3.And(kk >= 1, ipow(kk, N) <= v, ipow(kk + 1, N) > v)
                    # the counter-model comes from an over-approximate model of pow: it is a candidate, decided by native replay (search over the
                    # property's domain values = 1..2000 around the perfect N-th powers)
                    meta = {"replay": {"module": "contracts.fld_native", "func": "replay_resolution", "kwargs": {"n": N}, "vars": {}, "ints": {"v": "values"}, "search": "search_resolution"}, "sat_final": False}
                run.add(Obl(f"{fq}/resolution.largest_k_with_k^n<=values{tagN}[path{k}]" if scope_name == "AllVariables" else f"{fq}/resolution.values_minus_one{tagN}[path{k}]",
                            q.pc, goal, fn=fq, meta=meta))
    run.assume("A-POW")


# ------------------------------------------------------------------------------------------------ write_from_reader: which lines are tabulated
def verify_reader(run):
    from pyvc import heap as HP
    from pyvc.heap import RefV, Ref, NONE, Str, SeqStr, StrV, SeqV, strc, str_distinct
    from pyvc.parsers import ParserExec, split_fn
    src = run.src
    fq = "exporter.FldExporter.write_from_reader"
    fn = src.func("exporter", "FldExporter.write_from_reader")
    run.under_contract("exporter", "FldExporter.write_from_reader", fn)
    Row = z3.DeclareSort("Row")
    HP.SORTS["row"] = Row
    SeqRow = z3.SeqSort(Row)
    lines = z3.Const("lines", SeqStr)                       # reader.readlines()
    strip_fn = z3.Function("strip_fn", Str, Str)           # A-STR: str.strip
    first_ch = z3.Function("first_char", Str, Str)         # A-STR: s[0] of a non-empty string
    floats_ok = z3.Function("all_tokens_are_floats", SeqStr, z3.BoolSort())
    floats_of = z3.Function("floats_of", SeqStr, Row)      # [to_float(x) for x in tokens]
    kept = z3.Function("kept_rows", z3.IntSort(), SeqRow)  # ghost: the rows tabulated from the first k lines - defined from the property statement
    skip = z3.Int("skip_lines")
    EMPTY, HASH = strc(""), strc("#")

    def wanted(k):
        st = strip_fn(lines[k])
        return z3.And(k >= skip, st != EMPTY, first_ch(st) != HASH)

    def unfold(k):
        return kept(k + 1) == z3.If(wanted(k), z3.Concat(kept(k), z3.Unit(floats_of(split_fn(strip_fn(lines[k]))))), kept(k))

    calls = []

    class RowV:
        def __init__(s, r):
            s.r = r

    class ReaderExec(ParserExec):
        def method_call(s, p, recv, meth, args, kwargs, node):
            if recv == ("opaque", "reader") and meth == "readlines" and not args:
                return SeqV(lines, "str")
            if isinstance(recv, StrV) and meth == "strip" and not args:
                return StrV(strip_fn(recv.t))
            if isinstance(recv, RefV) and meth == "write" and recv.r.eq(z3.Const("self", Ref)):
                calls.append((p.fork(), args))
                return None
            return super().method_call(p, recv, meth, args, kwargs, node)

        def ev_Subscript(s, p, e):
            base = s.ev(p, e.value)
            if isinstance(base, StrV) and isinstance(e.slice, ast.Constant) and e.slice.value == 0:
                s.oblige(f"safety/line{e.lineno - s.fn_line}:index 0 of a non-empty string", p, base.t != EMPTY)
                return StrV(first_ch(base.t))
            return super().ev_Subscript(p, e)

        def ev_ListComp(s, p, e):
            if ast.unparse(e.elt) == f"to_float({e.generators[0].target.id})" and len(e.generators) == 1 and not e.generators[0].ifs:
                it = s.ev(p, e.generators[0].iter)
                if isinstance(it, SeqV) and it.kind == "str":
                    q = p.fork(); q.pc.append(z3.Not(floats_ok(it.q))); s.raised.append((q, "ValueError"))
                    p.pc.append(floats_ok(it.q))
                    return RowV(floats_of(it.q))
            raise Unsupported(f"list comprehension at line {e.lineno}")

        def kind_of(s, v):
            return "row" if isinstance(v, RowV) else super().kind_of(v)

        def unwrap(s, kind, v, node=None):
            if kind == "row" and isinstance(v, RowV):
                return v.r
            return super().unwrap(kind, v, node)

        def np_call(s, p, name, e):
            if name == "asarray" and len(e.args) == 1:
                return s.ev(p, e.args[0])
            return super().np_call(p, name, e)

        def stmt(s, p, n):
            if isinstance(n, ast.AnnAssign) and isinstance(n.target, ast.Name) and ast.unparse(n.annotation) == "list[list[float]]" and isinstance(n.value, ast.List) and not n.value.elts:
                p.env[n.target.id] = SeqV(z3.Empty(SeqRow), "row")
                return [(p, None)]
            return super().stmt(p, n)

    def inv(ex_, p, k, seq):
        v = ex_.local(p, "input_values")
        return v.q == kept(k) if isinstance(v, SeqV) else z3.BoolVal(False)

    def ghost(ex_, q, k, seq):
        return [unfold(k)]

    sc = Schema(src, {}, [])
    ex = ReaderExec(src, "exporter", sc, contracts={}, interfaces={}, inline=set(), loops={0: LoopSpec(inv, ghost=ghost, name="loop0.lines")}, fnname=fq)
    self_ = z3.Const("self", Ref)
    env = {"self": RefV(self_, "FldExporter"), "engine": ("opaque", "engine"), "writer": ("opaque", "writer"), "reader": ("opaque", "reader"), "skip_lines": mkint(skip)}
    outs = ex.run_fn(fn, HPath(env, [self_ != NONE, kept(0) == z3.Empty(SeqRow)], {}))
    emit(run, ex, fq, [], RP_FLD)
    kinds = sorted({val for kind, val, q in outs if kind == "raise"})
    run.add(static(f"{fq}/raises.only_ValueError", all(k == "ValueError" for k in kinds), f"exception types: {kinds} (a token that is not a number)", fn=fq))
    run.add(static(f"{fq}/calls_write_once", len(calls) == 1, f"{len(calls)} call(s) of self.write", fn=fq))
    for i, (q, args) in enumerate(calls):
        rows = args[2] if len(args) >= 3 else None
        ok = isinstance(rows, SeqV) and rows.kind == "row"
        n = z3.Length(lines)
        run.add(Obl(f"{fq}/tabulates_exactly_the_wanted_lines[call{i}]", q.pc + str_distinct(), rows.q == kept(n) if ok else z3.BoolVal(False), fn=fq,
                    meta={"replay": dict(RP_FLD, kwargs={"budget": 40, "only_class": "fld-reader"})}))
        run.add(static(f"{fq}/passes_engine_and_writer[call{i}]", args[0] == ("opaque", "engine") and args[1] == ("opaque", "writer"), "write(engine, writer, rows)", fn=fq))
    run.assume("A-STR")
    run.notes.append("write_from_reader: kept_rows(k) is defined from the statement: line i is tabulated iff i >= skip_lines (raw line index), its stripped text is non-empty and does not start with '#'")


def verify_format(run):
    """static: the number format and the header are built from the CURRENT settings / engine inside write() (nothing cached at construction)"""
    src = run.src
    fq = "exporter.FldExporter.write"
    fn = src.func("exporter", "FldExporter.write")
    run.under_contract("exporter", "FldExporter.write", fn)
    sv = [n for n in ast.walk(fn) if isinstance(n, ast.Call) and ast.unparse(n.func) == "np.savetxt"]
    kw = {k.arg: ast.unparse(k.value) for k in sv[0].keywords} if len(sv) == 1 else {}
    want = {"fmt": "f'%0.{settings.decimals}f'", "delimiter": "self.separator", "header": "self.header(engine) if self.headers else ''", "comments": "''"}
    run.add(static(f"{fq}/savetxt_arguments", len(sv) == 1 and kw == want, f"np.savetxt keywords: {kw}", fn=fq, meta={"soft": True, "replay": dict(RP_FLD, kwargs={"budget": 40, "only_class": "fld-format"})}))
    init = src.func("exporter", "FldExporter.__init__")
    reads = [ast.unparse(n) for n in ast.walk(init) if isinstance(n, ast.Attribute) and ast.unparse(n).startswith("settings.")]
    run.add(static("exporter.FldExporter.__init__/caches_no_setting", not reads, f"settings read in the constructor: {reads}", fn="exporter.FldExporter.__init__"))
    # column i of the rows goes to input variable i, one restart and one process, rows = hstack(selected blocks)
    body = [ast.unparse(st) for st in body_of(fn)]
    seq = ["engine.restart()", "for index, variable in enumerate(engine.input_variables):\n    variable.value = input_values[:, index]", "engine.process()"]
    pos = [body.index(x) if x in body else -1 for x in seq]
    run.add(static(f"{fq}/restart_assign_columns_process_once", all(p_ >= 0 for p_ in pos) and pos == sorted(pos) and body.count("engine.process()") == 1,
                   f"positions of restart / column assignment / process in the body: {pos}", fn=fq, meta={"soft": True, "replay": RP_FLD}))
    blocks = [ast.unparse(st) for st in body_of(fn) if isinstance(st, ast.If)]
    want_b = ["if self.input_values:\n    values.append(engine.input_values)", "if self.output_values:\n    values.append(engine.output_values)"]
    run.add(static(f"{fq}/selected_blocks_inputs_then_outputs", [b for b in blocks if "values.append(engine" in b] == want_b, f"{[b for b in blocks if 'values.append(engine' in b]}", fn=fq, meta={"soft": True, "replay": RP_FLD}))
    hd = src.func("exporter", "FldExporter.header")
    run.under_contract("exporter", "FldExporter.header", hd)
    hb = [ast.unparse(st) for st in body_of(hd)]
    want_h = ["result: list[str] = []", "if self.input_values:\n    result += [iv.name for iv in engine.input_variables]", "if self.output_values:\n    result += [ov.name for ov in engine.output_variables]", "return self.separator.join(result)"]
    run.add(static("exporter.FldExporter.header/selected_names_inputs_then_outputs", hb == want_h, f"{hb}", fn="exporter.FldExporter.header", meta={"soft": True, "replay": dict(RP_FLD, kwargs={"budget": 40, "only_class": "fld-header"})}))



# ------------------------------------------------------------------------------------------------ write_from_scope: the grid loop
def verify_grid_loop(run):
    """the part of write_from_scope after the resolution is known: digits start at all-zero; every iteration appends the row of coordinates of the
    current digits (minimum + digit * (maximum - minimum) / max(1, resolution) for an active variable, its last value otherwise) and then takes
    the successor (contract of Op.increment, proved above); the loop ends exactly when the successor wraps around"""
    from contracts import wiring as W
    from pyvc.hlib import init_heap
    from pyvc.heap import RefV, Ref, NONE, XR, SeqXR, SeqV, x2xr, xr2x, canon, sort_of
    from pyvc.parsers import ParserExec
    from pyvc.xreal import X
    src = run.src
    fq = "exporter.FldExporter.write_from_scope"
    fn = src.func("exporter", "FldExporter.write_from_scope")
    body = body_of(fn)
    idx = [i for i, st in enumerate(body) if isinstance(st, ast.If) and "AllVariables" in ast.unparse(st.test)]
    if len(idx) != 1:
        return
    rest = body[idx[0] + 1:]
    sc = W.schema(src)
    H0 = init_heap(sc)
    eng, self_ = z3.Const("engine", Ref), z3.Const("self", Ref)
    ivs = H0["Engine.input_variables"][eng]
    n = z3.Length(ivs)
    res = z3.Int("resolution")
    active = z3.Function("is_active", Ref, z3.BoolSort())
    D = z3.Function("digits", z3.IntSort(), IntArr)          # ghost: the digits at the head of iteration m
    RET = z3.Function("incremented_after", z3.IntSort(), z3.BoolSort())
    ROW = z3.Function("row_of_iteration", z3.IntSort(), SeqXR)          # ghost: the row built in iteration m
    mS, iS = z3.Int("m*"), z3.Int("i*")
    SeqRow = z3.SeqSort(SeqXR)
    MINV, MAXV, VAL = H0["Variable.minimum"], H0["Variable.maximum"], H0["Variable._value"]
    ZERO = z3.K(z3.IntSort(), z3.IntVal(0))
    mxv = z3.Const("max_values", IntArr)
    calls = []

    def coord(i, d):
        v = ivs[i]
        lo, hi = xr2x(MINV[v]), xr2x(MAXV[v])
        step = xr.div(xr.sub(hi, lo), xr.py_max(xr.const(1.0), X(xr.F, xr.I0, z3.ToReal(res))))
        return xr.ite(active(v), xr.add(lo, xr.mul(X(xr.F, xr.I0, z3.ToReal(d)), step)), xr2x(VAL[v]))

    def row_ok(row, d):
        return z3.And(z3.Length(row) == n, z3.Implies(z3.And(0 <= iS, iS < n), x2xr(coord(iS, d[iS])) == row[iS]))

    class IncContract2(Contract):
        def call(s, ex, p, recv, args, kwargs, node):
            x, mn_, mx_ = args[:3]
            x2 = z3.FreshConst(IntArr, "digits_after"); ret = z3.FreshConst(z3.BoolSort(), "incremented")
            ex.oblige(f"pre/line{node.lineno - ex.fn_line}:the three lists have the same length", p, z3.And(x.n == mn_.n, mn_.n == mx_.n))
            p.pc.append(z3.If(z3.Or(x.n == 0), z3.And(z3.Not(ret), x2 == x.arr), succ_spec(x.arr, x2, ret, mn_.arr, mx_.arr, x.n - 1, x.n)))
            for nm, v in list(p.env.items()):
                if v is x:
                    p.env[nm] = ArrV(x2, x.n)
            return Bool(ret, False, True)

    class GridExec(IntListExec, ParserExec):
        mutating_calls = {"Op.increment": [0]}          # the first argument (the digits) is mutated in place: it belongs to the havoc set of the loop

        def ev_Call(s, p, e):
            t = ast.unparse(e.func)
            if t == "Op.increment":
                return IncContract2().call(s, p, None, [s.ev(p, a) for a in e.args], {}, e)
            if t == "set" and len(e.args) == 1:
                return ("set", "given")
            if isinstance(e.func, ast.Attribute) and e.func.attr == "astype" and ast.unparse(e.args[0]) == "float":
                return s.ev(p, e.func.value)
            if t == "self.write":
                calls.append((p.fork(), [s.ev(p, a) for a in e.args]))
                return None
            return super().ev_Call(p, e)

        def np_call(s, p, name, e):
            if name == "take" and len(e.args) == 2 and ast.unparse(e.args[1]) == "-1":
                return s.ev(p, e.args[0])           # the last element of the variable's value (a scalar here)
            if name == "array" and len(e.args) == 1:
                return s.ev(p, e.args[0])
            return super().np_call(p, name, e)

        def binop(s, op, l, r, e, p):
            if isinstance(op, ast.Mult) and isinstance(l, tuple) and l and l[0] == "const-list":
                return ArrV(z3.K(z3.IntSort(), z3.IntVal(l[1])), toint(s, r, e))
            return super().binop(op, l, r, e, p)

        def ev_List(s, p, e):
            if len(e.elts) == 1 and isinstance(e.elts[0], ast.Constant) and isinstance(e.elts[0].value, int):
                return ("const-list", e.elts[0].value)
            return super().ev_List(p, e)

        def ev_ListComp(s, p, e):
            if ast.unparse(e) == "[resolution if iv in active_variables else 0 for iv in engine.input_variables]":
                i = z3.Int("i")
                p.pc.append(z3.ForAll([i], z3.Implies(z3.And(0 <= i, i < n), mxv[i] == z3.If(active(ivs[i]), toint(s, p.env["resolution"]), 0))))
                return ArrV(mxv, n)
            raise Unsupported(f"list comprehension at line {e.lineno}")

        def contains(s, p, item, coll, e):
            if isinstance(coll, tuple) and coll and coll[0] == "set" and isinstance(item, RefV):
                return active(item.r)
            return super().contains(p, item, coll, e)

        def stmt(s, p, n_):
            if isinstance(n_, ast.AnnAssign) and isinstance(n_.target, ast.Name) and ast.unparse(n_.annotation) == "list[list[float]]":
                p.env[n_.target.id] = SeqV(z3.Empty(SeqRow), "seq:num")
                return [(p, None)]
            if isinstance(n_, ast.Assign) and len(n_.targets) == 1 and isinstance(n_.targets[0], ast.Name) and isinstance(n_.value, ast.List) and not n_.value.elts:
                p.env[n_.targets[0].id] = SeqV(z3.Empty(SeqXR), "num")
                return [(p, None)]
            return super().stmt(p, n_)

    def rows_of(ex_, p):
        return ex_.local(p, "input_values").q

    def outer_inv(ex_, p, m, seq):
        rows = rows_of(ex_, p)
        sv = p.env["sample_values"]
        inc = ex_.boo(p.env["incremented"]).b if not isinstance(p.env["incremented"], bool) else z3.BoolVal(p.env["incremented"])
        i = z3.Int("i")
        return z3.And(sv.n == n, z3.ForAll([i], z3.Implies(z3.And(0 <= i, i < n), sv.arr[i] == D(m)[i])), z3.Implies(z3.And(0 <= iS, iS < n), sv.arr[iS] == D(m)[iS]), z3.Length(rows) == m,
                      inc == z3.If(m == 0, True, RET(m - 1)),
                      z3.Implies(z3.And(0 <= mS, mS < m), rows[mS] == ROW(mS)),
                      z3.Implies(z3.And(0 <= mS, mS < m), row_ok(ROW(mS), D(mS))),
                      z3.Implies(z3.And(0 <= mS, mS + 1 < m), RET(mS)),
                      z3.Implies(z3.And(0 <= mS, mS + 1 <= m), z3.If(n == 0, z3.Not(RET(mS)), succ_spec(D(mS), D(mS + 1), RET(mS), ZERO, mxv, n - 1, n))))

    def outer_ghost(ex_, q, m, seq):
        sv = q.env["sample_values"]
        inc = ex_.boo(q.env["incremented"]).b
        i = z3.Int("i")
        row = ex_.local(q, "row")
        return [z3.ForAll([i], z3.Implies(z3.And(0 <= i, i < n), D(m + 1)[i] == sv.arr[i])), RET(m) == inc] + ([ROW(m) == row.q] if isinstance(row, SeqV) else [])

    def inner_inv(ex_, p, k, seq):
        row = ex_.local(p, "row")
        sv = p.env["sample_values"]
        if not isinstance(row, SeqV):
            return k == 0
        return z3.And(z3.Length(row.q) == k, z3.Implies(z3.And(0 <= iS, iS < k), x2xr(coord(iS, sv.arr[iS])) == row.q[iS]))

    def outer_inst(ex_, p, m, seq):
        # the invariant holds for every index (it is proved for an arbitrary one): its instance at the last completed iteration
        return [z3.substitute(outer_inv(ex_, p, m, seq), (mS, m - 1))]

    loops = {0: LoopSpec(outer_inv, ghost=outer_ghost, inst=outer_inst, name="loop0.grid"), 1: LoopSpec(inner_inv, name="loop1.row")}
    ex = GridExec(src, "exporter", sc, contracts={}, interfaces=W.INTERFACES, inline={"Variable.drange", "Variable.value", "Variable.minimum", "Variable.maximum"}, loops=loops, fnname=fq)
    ex.skolems = [mS, iS]
    ex.fn_line = fn.lineno
    loop_nodes = sorted([(x.lineno, x.col_offset) for st in rest for x in ast.walk(st) if isinstance(x, (ast.For, ast.While))])
    ex.loop_index = {pos: i for i, pos in enumerate(loop_nodes)}
    i = z3.Int("i")
    pre = [eng != NONE, self_ != NONE, res >= 0, n >= 0, z3.ForAll([i], z3.Implies(z3.And(0 <= i, i < n), z3.And(D(0)[i] == 0, ivs[i] != NONE)))]
    env = {"self": RefV(self_, "FldExporter"), "engine": RefV(eng, "Engine"), "writer": ("opaque", "writer"), "resolution": mkint(res), "active_variables": ("set", "given")}
    outs = ex.block([HPath(env, pre, H0)], rest)
    split = []
    for nm, pc, goal, meta in ex.obls:          # one obligation per conjunct of an invariant (much easier for the solver than the conjunction)
        if "/inv." in nm and z3.is_and(goal) and goal.num_args() > 1:
            split += [(f"{nm}&{j}", pc, goal.arg(j), meta) for j in range(goal.num_args())]
        else:
            split.append((nm, pc, goal, meta))
    ex.obls = split
    emit(run, ex, f"{fq}[grid]", [], RP_FLD)
    run.add(static(f"{fq}/grid.calls_write_once", len(calls) == 1, f"{len(calls)} call(s) of self.write after the loop", fn=fq, meta={"replay": RP_FLD}))
    for k, (q, args) in enumerate(calls):
        rows = args[2].q if len(args) >= 3 and isinstance(args[2], SeqV) else None
        if rows is None:
            run.add(static(f"{fq}/grid.rows_passed_to_write[call{k}]", False, "the third argument of write is not the list of rows", fn=fq)); continue
        M = z3.Length(rows)
        hy = q.pc
        run.add(Obl(f"{fq}/grid.first_point_is_all_minimum_digits[call{k}]", hy, z3.And(M >= 1, z3.Implies(z3.And(0 <= iS, iS < n), D(0)[iS] == 0)), fn=fq, meta={"replay": dict(RP_FLD, kwargs={"budget": 40, "only_class": "fld-coordinates"})}, qf=False))
        run.add(Obl(f"{fq}/grid.row_m_holds_the_coordinates_of_point_m[call{k}]", hy, z3.Implies(z3.And(0 <= mS, mS < M), z3.And(rows[mS] == ROW(mS), row_ok(rows[mS], D(mS)))), fn=fq, meta={"replay": dict(RP_FLD, kwargs={"budget": 40, "only_class": "fld-coordinates"})}, qf=False))
        run.add(Obl(f"{fq}/grid.next_point_is_the_successor_last_input_fastest[call{k}]", hy,
                    z3.Implies(z3.And(0 <= mS, mS + 1 < M), z3.And(RET(mS), z3.If(n == 0, z3.BoolVal(True), succ_spec(D(mS), D(mS + 1), RET(mS), ZERO, mxv, n - 1, n)))), fn=fq,
                    meta={"replay": dict(RP_FLD, kwargs={"budget": 40, "only_class": "fld-order"})}, qf=False))
        run.add(Obl(f"{fq}/grid.stops_exactly_at_the_wrap_around[call{k}]", hy,
                    z3.And(z3.Not(RET(M - 1)), z3.If(n == 0, z3.BoolVal(True), succ_spec(D(M - 1), D(M), RET(M - 1), ZERO, mxv, n - 1, n))), fn=fq,
                    meta={"replay": dict(RP_FLD, kwargs={"budget": 40, "only_class": "fld-rowcount"})}, qf=False))
        i2 = z3.Int("i")
        run.add(Obl(f"{fq}/grid.digit_bounds_are_resolution_for_active_inputs[call{k}]", hy, z3.Implies(z3.And(0 <= iS, iS < n), mxv[iS] == z3.If(active(ivs[iS]), res, 0)), fn=fq, meta={"replay": RP_FLD}, qf=False))


def verify_wrappers(run):
    """to_string_* / to_file_* are thin entry points of write_from_scope / write_from_reader: every parameter of the entry point reaches the parameter of the same
    name of the function it calls (read from the AST of both; positional arguments mapped through the callee's signature)"""
    src = run.src
    RPW = {"module": "contracts.fld_native", "func": "replay_wrappers", "kwargs": {}, "vars": {}}
    targets = {"to_string_from_scope": "write_from_scope", "to_file_from_scope": "write_from_scope", "to_string_from_reader": "write_from_reader", "to_file_from_reader": "write_from_reader"}
    for w, final in targets.items():
        fq = f"exporter.FldExporter.{w}"
        fn = src.func("exporter", f"FldExporter.{w}")
        run.under_contract("exporter", f"FldExporter.{w}", fn)
        params = [a.arg for a in fn.args.args if a.arg not in ("self", "path")]
        calls = [c for c in ast.walk(fn) if isinstance(c, ast.Call) and isinstance(c.func, ast.Attribute) and isinstance(c.func.value, ast.Name) and c.func.value.id == "self"
                 and c.func.attr in set(targets) | set(targets.values())]
        problems = []
        if len(calls) != 1:
            problems.append(f"{len(calls)} calls to an export function")
        else:
            c = calls[0]
            callee = src.func("exporter", f"FldExporter.{c.func.attr}")
            cparams = [a.arg for a in callee.args.args if a.arg != "self"]
            got = dict(zip(cparams, c.args))
            got.update({k.arg: k.value for k in c.keywords if k.arg})
            for p_ in params:
                v = got.get(p_)
                if not (isinstance(v, ast.Name) and v.id == p_):
                    problems.append(f"parameter `{p_}` is not passed on to {c.func.attr} (receives {ast.unparse(v) if v is not None else 'nothing: the default'})")
            if c.func.attr != final and targets.get(c.func.attr) != final:
                problems.append(f"calls {c.func.attr}")
        run.add(static(f"{fq}/forwards_every_argument", not problems, "; ".join(problems) if problems else f"{params} passed on to {calls[0].func.attr}", fn=fq, meta={"soft": True, "replay": RPW}))
    run.bounded("exporter.FldExporter/entry_points_agree.runtime", "contracts.fld_native", "replay_wrappers", [dict()],
                bound="string / file / writer entry points on an engine with 2 inputs x both scopes x values 3, 5, 16 x active variables (all, first, second); reader entry points x skip_lines 0..3: identical text")


def build(run):
    run.not_demanded = tuple(NOT_DEMANDED)
    run.assume("A-PY", "A-MSG", "A-LOG")
    plan = [("operation.Op.increment", verify_increment), ("exporter.FldExporter.write_from_scope", verify_resolution),
            ("exporter.FldExporter.write_from_scope.grid", verify_grid_loop),
            ("exporter.FldExporter.write_from_reader", verify_reader), ("exporter.FldExporter.write", verify_format), ("exporter.FldExporter.to_*", verify_wrappers)]
    for fq, f in plan:
        try:
            f(run)
        except ANALYSIS as ex_:
            run.add(undecided(f"{fq}/subset", f"outside the verified subset: {ex_}", fn=fq))
        except NotFound as ex_:
            run.add(static(f"{fq}/exists", False, f"function under contract not found: {ex_}", fn=fq))
    b = 200 if run.tier == "quick" else 4000
    run.bounded("operation.Op.increment/exhaustive_small_counters.runtime", N_, "replay_increment", [dict(seed=run.seed)], bound="every state of every counter with 0-4 digits and radices 1-4, every position incl. None")
    run.bounded("exporter.FldExporter/dataset_vs_independent_tabulation.runtime", N_, "replay_fld", [dict(seed=run.seed, budget=b, skip_classes=NOT_DEMANDED)],
                bound=f"row counts for ALL values 1..2000 with 1-4 input variables (both scopes sampled for `each variable`), grid order and coordinates at every k^n-1, k^n, k^n+1, full value comparison of {150 if b == 200 else 'more'} exports over generated and shipped engines x separators x decimals x switches, reader contents with comments/blank/skipped lines")


if __name__ == "__main__":
    sys.exit(main("C18", build, "FuzzyLite Dataset export is a faithful tabulation of the engine"))
