"""Order theorem for Function.infix_to_postfix (shared by C06 and C17): WHERE each token of the formula ends up in the postfix text.

Scope (precondition, `requires`): every token that names an element of the function factory is a BINARY operator with a non-zero associativity sign, and
there is no comma - the grammar of rule antecedents (`and`, `or`, parentheses, everything else an operand) and of arithmetic formulas without function calls and
prefix operators.  Inside this scope the real loop nest (main token loop, the three popping loops, the final flush) is verified with inductive invariants.

Ghost provenance (no effect on the computation): every string the code moves between `token`, `stack` and `queue` is a token of the formula, so it is carried
together with the POSITION it was read at (TokV).  The stack is the real list of strings plus P (position of each element), SI (index of a position that is
on the stack) and CO (number of "(" below each index); the queue is the real deque of strings plus QP (position of each element), EM (index at which a position
was emitted, -1 if not) and ES (the step - index of the token being processed, len(tokens) for the final flush - during which it was emitted).

Theorem (on every returning path), with depth(i) = number of "(" minus number of ")" before token i and, for an operator i,
    closes(j, i)  :=  depth(j) = depth(i)  and  ( token j is ")"  or  token j is an operator that pops i:
                                                  (assoc(j) < 0 and prec(j) <= prec(i)) or (assoc(j) > 0 and prec(j) < prec(i)) )
  * the postfix text is ' '.join(Q) where Q is a permutation of the operand and operator tokens (parentheses dropped): EM/QP are inverse bijections;
  * an operand is emitted during its own step: ES(i) = i;
  * an operator i is emitted during the step of ITS FIRST CLOSER: ES(i) = min { j > i : closes(j, i) }, or len(tokens) if there is none;
  * Q is ordered by (ES, position descending): earlier step first; within one step the operator read last comes first.
This pins the output uniquely and is the positional form of "higher precedence binds tighter, equal precedence associates to the left (right for a
positive sign), parentheses override": operator i takes as its right operand exactly the tokens between i and its first closer.
"""
import sys, os
sys.path.insert(0, os.path.dirname(os.path.dirname(os.path.abspath(__file__))))
import ast
import z3
from pyvc.numexec import Unsupported
from pyvc.heap import HPath, LoopSpec, Str, SeqStr, StrV, SeqV, strc, str_distinct
from pyvc.parsers import split_fn, join_fn
from pyvc.hlib import init_heap, emit, split_invariants
from pyvc.solve import Obl, static, undecided
from contracts import wiring as W
from props.C16 import InfixExec, is_elem, is_fn, el_prec, el_assoc, el_arity, dep, element_type_facts

I = z3.IntSort()
IntArr = z3.ArraySort(I, I)
OPEN, CLOSE, COMMA = strc("("), strc(")"), strc(",")


class TokV(StrV):
    """a token of the formula together with the position it was read at (ghost)"""

    def __init__(s, t, pos):
        super().__init__(t)
        s.pos = pos


class PStack(SeqV):
    def __init__(s, q, P, SI, CO):
        super().__init__(q, "str")
        s.P, s.SI, s.CO = P, SI, CO


class PQueue(SeqV):
    def __init__(s, q, QP, EM, ES):
        super().__init__(q, "str")
        s.QP, s.EM, s.ES = QP, EM, ES


class OrderExec(InfixExec):
    in_main = False
    ntok = None

    def step(s):
        return s.cur_k[0] if s.in_main else s.ntok

    def for_loop(s, p, n):
        main = s.loop_index.get((n.lineno, n.col_offset)) == 0
        if main:
            s.in_main = True
        try:
            return super().for_loop(p, n)
        finally:
            if main:
                s.in_main = False

    def assign(s, p, t, v):
        if isinstance(t, ast.Name) and t.id == "token" and isinstance(v, StrV) and not isinstance(v, TokV) and s.in_main:
            v = TokV(v.t, s.cur_k[0])
        return super().assign(p, t, v)

    def havoc_value(s, v, hint):
        if isinstance(v, PStack):
            return PStack(z3.FreshConst(SeqStr, hint), z3.FreshConst(IntArr, hint + ".P"), z3.FreshConst(IntArr, hint + ".SI"), z3.FreshConst(IntArr, hint + ".CO"))
        if isinstance(v, PQueue):
            return PQueue(z3.FreshConst(SeqStr, hint), z3.FreshConst(IntArr, hint + ".QP"), z3.FreshConst(IntArr, hint + ".EM"), z3.FreshConst(IntArr, hint + ".ES"))
        if isinstance(v, TokV):
            return StrV(z3.FreshConst(Str, hint))
        return super().havoc_value(v, hint)

    def _frames(s, p, cur, new, ln):
        for j in list(getattr(s, "skolems", [])) + [ln - 1, ln - 2]:
            p.pc.append(z3.Implies(z3.And(j >= 0, j < ln), new[j] == cur[j]))

    def stmt(s, p, n):
        if isinstance(n, ast.AnnAssign) and isinstance(n.target, ast.Name) and n.target.id in ("stack", "queue") and n.value is not None:
            out = super().stmt(p, n)
            v = p.env.get(n.target.id)
            if isinstance(v, SeqV) and v.kind == "str" and not isinstance(v, (PStack, PQueue)):
                if n.target.id == "stack":
                    co = z3.FreshConst(IntArr, "CO0")
                    p.pc.append(co[0] == 0)
                    p.env["stack"] = PStack(v.q, z3.FreshConst(IntArr, "P0"), z3.FreshConst(IntArr, "SI0"), co)
                else:
                    p.env["queue"] = PQueue(v.q, z3.FreshConst(IntArr, "QP0"), z3.K(I, z3.IntVal(-1)), z3.FreshConst(IntArr, "ES0"))
            return out
        if isinstance(n, ast.Expr) and isinstance(n.value, ast.Call) and isinstance(n.value.func, ast.Attribute) and n.value.func.attr == "append" \
                and isinstance(n.value.func.value, ast.Name) and isinstance(p.env.get(n.value.func.value.id), (PStack, PQueue)) and len(n.value.args) == 1:
            nm = n.value.func.value.id
            cur = p.env[nm]
            v = s.ev(p, n.value.args[0])
            if not isinstance(v, TokV):
                raise Unsupported(f"{nm}.append of a value that is not a token of the formula (line {n.lineno})")
            cur = p.env[nm]          # the argument may have popped from the same list
            ln = z3.Length(cur.q)
            new = z3.FreshConst(SeqStr, nm + "@app")
            p.pc += [new == z3.Concat(cur.q, z3.Unit(v.t)), z3.Length(new) == ln + 1, new[ln] == v.t]
            s._frames(p, cur.q, new, ln)
            if isinstance(cur, PStack):
                p.env[nm] = PStack(new, z3.Store(cur.P, ln, v.pos), z3.Store(cur.SI, v.pos, ln), z3.Store(cur.CO, ln + 1, cur.CO[ln] + z3.If(v.t == OPEN, 1, 0)))
            else:
                p.env[nm] = PQueue(new, z3.Store(cur.QP, ln, v.pos), z3.Store(cur.EM, v.pos, ln), z3.Store(cur.ES, v.pos, s.step()))
            return [(p, None)]
        return super().stmt(p, n)

    def ev_Call(s, p, e):
        f = e.func
        if isinstance(f, ast.Attribute) and isinstance(f.value, ast.Name) and isinstance(p.env.get(f.value.id), PStack) and f.attr == "pop" and not e.args:
            cur = p.env[f.value.id]
            n = z3.Length(cur.q)
            s.oblige(f"safety/line{e.lineno - s.fn_line}:pop from a non-empty {f.value.id}", p, n > 0)
            rest = z3.FreshConst(SeqStr, f.value.id + "@rest")
            top = cur.q[n - 1]
            p.pc += [cur.q == z3.Concat(rest, z3.Unit(top)), z3.Length(rest) == n - 1]
            for j in list(getattr(s, "skolems", [])) + [n - 2, n - 3]:
                p.pc.append(z3.Implies(z3.And(j >= 0, j < n - 1), rest[j] == cur.q[j]))
            p.env[f.value.id] = PStack(rest, cur.P, cur.SI, cur.CO)
            return TokV(top, cur.P[n - 1])
        if isinstance(f, ast.Attribute) and isinstance(f.value, ast.Name) and isinstance(p.env.get(f.value.id), PQueue) and f.attr in ("pop", "popleft"):
            raise Unsupported("the queue is append-only in the verified subset")
        return super().ev_Call(p, e)


# ---------------------------------------------------------------------------------------------------------------- the specification over positions
class Spec:
    def __init__(s, T):
        s.T = T
        s.n = z3.Length(T)

    def tk(s, i): return s.T[i]
    def is_open(s, i): return s.T[i] == OPEN
    def is_close(s, i): return s.T[i] == CLOSE
    def is_op(s, i): return z3.And(is_elem(s.T[i]), z3.Not(is_fn(s.T[i])))
    def is_operand(s, i): return z3.And(z3.Not(is_elem(s.T[i])), s.T[i] != OPEN, s.T[i] != CLOSE, s.T[i] != COMMA)
    def kept(s, i): return z3.Or(s.is_operand(i), s.is_op(i))
    def prec(s, i): return el_prec(s.T[i])
    def assoc(s, i): return el_assoc(s.T[i])

    def pops(s, j, i):
        return z3.Or(z3.And(s.assoc(j) < 0, s.prec(j) <= s.prec(i)), z3.And(s.assoc(j) > 0, s.prec(j) < s.prec(i)))

    def closes(s, j, i):
        return z3.And(dep(j) == dep(i), z3.Or(s.is_close(j), z3.And(s.is_op(j), s.pops(j, i))))

    def in_scope(s, i):
        """requires: token i is not a comma, and if it names an element it is a binary operator with an associativity sign"""
        t = s.T[i]
        return z3.And(t != COMMA, z3.Implies(is_elem(t), z3.And(z3.Not(is_fn(t)), el_arity(t) == 2, el_assoc(t) != 0)))


class Q:
    """a universally quantified clause: proved for fresh constants, assumed as a quantified formula"""
    n = 0

    def __init__(s, name, nvars, body, pats=None):
        s.name, s.nvars, s.body, s.pats = name, nvars, body, pats
        s.sk = [z3.Int(f"{name}.{'abc'[i]}*") for i in range(nvars)]

    def goal(s):
        return s.body(*s.sk)

    def assumed(s):
        if s.nvars == 0:
            return s.body()
        vs = [z3.Int(f"{s.name}.{'abc'[i]}") for i in range(s.nvars)]
        if s.pats is None:
            return z3.ForAll(vs, s.body(*vs))
        # explicit triggers (alternatives; a tuple is a multi-pattern): chosen so that an instance creates no new term of a trigger's shape (no matching loops)
        pats = [z3.MultiPattern(*p_) if isinstance(p_, tuple) else p_ for p_ in s.pats(*vs)]
        return z3.ForAll(vs, s.body(*vs), patterns=pats)


def clauses(sp, st, qu, kk, step_max, strict, same_step):
    """the invariant with `kk` tokens accounted for; every emitted token has ES <= step_max (< if strict); `same_step` = the step being processed
    (tokens emitted during it lie above everything still on the stack), or None at the head of the main loop"""
    ns, nq = z3.Length(st.q), z3.Length(qu.q)
    P, SI, CO, QP, EM, ES = st.P, st.SI, st.CO, qu.QP, qu.EM, qu.ES
    T = sp.T
    on_stack = lambda i: z3.And(0 <= SI[i], SI[i] < ns, P[SI[i]] == i)
    imp = z3.Implies
    cl = [
        Q("S1", 1, lambda s: imp(z3.And(0 <= s, s < ns), z3.And(0 <= P[s], P[s] < kk, st.q[s] == T[P[s]], SI[P[s]] == s, z3.Or(sp.is_open(P[s]), sp.is_op(P[s])), EM[P[s]] == -1)),
          pats=lambda s: [P[s], st.q[s]]),
        Q("S2", 2, lambda s, t: imp(z3.And(0 <= s, s < t, t < ns), P[s] < P[t]), pats=lambda s, t: [(P[s], P[t])]),
        Q("S3", 1, lambda s: imp(z3.And(0 <= s, s < ns), z3.And(CO[s + 1] == CO[s] + z3.If(sp.is_open(P[s]), 1, 0), dep(P[s]) == CO[s])), pats=lambda s: [P[s]]),
        Q("S3c", 0, lambda: z3.And(CO[0] == 0, CO[ns] == dep(kk), ns >= 0, nq >= 0)),
        Q("S3e", 2, lambda s, t: imp(z3.And(0 <= s, s < t, t <= ns), z3.And(CO[s] <= CO[t], imp(sp.is_open(P[s]), CO[s] < CO[t]))), pats=lambda s, t: [(CO[s], CO[t])]),
        Q("S4", 2, lambda s, t: imp(z3.And(0 <= s, s < t, t < ns, CO[s] == CO[t], sp.is_op(P[s]), sp.is_op(P[t])), sp.prec(P[s]) <= sp.prec(P[t])), pats=lambda s, t: [(P[s], P[t])]),
        Q("S5", 2, lambda s, j: imp(z3.And(0 <= s, s < ns, sp.is_op(P[s]), P[s] < j, j < kk), z3.Not(sp.closes(j, P[s]))), pats=lambda s, j: [(P[s], dep(j))]),
        Q("C1", 1, lambda i: imp(z3.And(0 <= i, i < kk), z3.And(imp(sp.is_operand(i), EM[i] >= 0), imp(sp.is_op(i), z3.Or(EM[i] >= 0, on_stack(i))))), pats=lambda i: [EM[i], SI[i]]),
        Q("Q1", 1, lambda m: imp(z3.And(0 <= m, m < nq), z3.And(0 <= QP[m], QP[m] < kk, EM[QP[m]] == m, qu.q[m] == T[QP[m]], sp.kept(QP[m]))), pats=lambda m: [QP[m], qu.q[m]]),
        Q("Q2", 1, lambda i: z3.And(EM[i] >= -1, imp(EM[i] >= 0, z3.And(EM[i] < nq, QP[EM[i]] == i))), pats=lambda i: [EM[i]]),
        Q("Q3", 1, lambda i: imp(z3.Or(i < 0, i >= kk), EM[i] == -1), pats=lambda i: [EM[i]]),
        Q("E1", 1, lambda i: imp(EM[i] >= 0, z3.And(imp(sp.is_operand(i), ES[i] == i),
                                                      imp(sp.is_op(i), z3.And(i < ES[i], ES[i] <= sp.n, imp(ES[i] < sp.n, sp.closes(ES[i], i)))),
                                                      (ES[i] < step_max) if strict else (ES[i] <= step_max))), pats=lambda i: [EM[i], ES[i]]),
        Q("E2", 2, lambda i, j: imp(z3.And(EM[i] >= 0, sp.is_op(i), i < j, j < ES[i]), z3.Not(sp.closes(j, i))), pats=lambda i, j: [(ES[i], dep(j))]),
        Q("O", 2, lambda x, y: imp(z3.And(EM[x] >= 0, EM[y] >= 0), z3.And(imp(ES[x] < ES[y], EM[x] < EM[y]), imp(z3.And(ES[x] == ES[y], x > y), EM[x] < EM[y]))), pats=lambda x, y: [(EM[x], EM[y])]),
    ]
    if same_step is not None:
        cl.append(Q("E4", 2, lambda i, s: imp(z3.And(EM[i] >= 0, ES[i] == same_step, 0 <= s, s < ns), i > P[s]), pats=lambda i, s: [(ES[i], P[s])]))
    return cl


def verify_infix_order(run, rp):
    src = run.src
    fq = "term.Function.infix_to_postfix"
    fn = src.func("term", "Function.infix_to_postfix")
    run.under_contract("term", "Function.infix_to_postfix", fn)
    sc = W.schema(src)
    H0 = init_heap(sc)
    facts0 = [z3.Not(is_elem(OPEN)), z3.Not(is_elem(CLOSE)), z3.Not(is_elem(COMMA)), dep(0) == 0]
    iq = z3.Int("scope.i")

    def state(ex_, p):
        T = split_fn(ex_.local(p, "formula").t)
        st, qu = p.env.get("stack"), p.env.get("queue")
        if not isinstance(st, PStack) or not isinstance(qu, PQueue):
            return None
        return Spec(T), st, qu

    def mk(kind):
        """kind: main (head of the token loop, k tokens accounted) | inner (a popping loop while token K is processed) | flush"""
        def get(ex_, p, k):
            s_ = state(ex_, p)
            if s_ is None:
                return None
            sp, st, qu = s_
            ex_.ntok = sp.n
            if kind == "main":
                return clauses(sp, st, qu, k, k, True, None)
            if kind == "inner":
                K = ex_.cur_k[0]
                return clauses(sp, st, qu, K, K, False, K)
            return clauses(sp, st, qu, sp.n, sp.n, False, sp.n)

        def inv(ex_, p, k, seq):
            cl = get(ex_, p, k)
            return z3.BoolVal(False) if cl is None else z3.And(*[c.goal() for c in cl])

        def inst(ex_, p, k, seq):
            cl = get(ex_, p, k)
            if cl is None:
                return []
            out = [c.assumed() for c in cl]
            # ground instances of the assumed clauses at the indices the goals speak about (the skolem stack indices of the stack clauses, the top of
            # the stack): everything here is an instance of a quantified clause above, given explicitly to save the solver the search
            by = {c.name: c for c in cl}
            ns = z3.Length(p.env["stack"].q)
            sks = [z3.Int(f"{nm}.{v}*") for nm, v in (("S1", "a"), ("S2", "a"), ("S2", "b"), ("S3", "a"), ("S3e", "a"), ("S3e", "b"), ("S4", "a"), ("S4", "b"), ("S5", "a"), ("E4", "b"))]
            for a in sks + [ns - 1, ns - 2]:
                out += [by["S1"].body(a), by["S3"].body(a)]
            for a in sks:
                for b in (ns - 1, ns):
                    out.append(by["S3e"].body(a, b))
                out += [by["S4"].body(a, ns - 1), by["S2"].body(a, ns - 1)]
            out.append(by["S3e"].body(ns - 1, ns))
            # ... and at the positions the goals speak about (skolem positions of the position clauses, the position on top of the stack)
            st_ = p.env["stack"]
            pks = [z3.Int(f"{nm}.{v}*") for nm, v in (("C1", "a"), ("Q2", "a"), ("Q3", "a"), ("E1", "a"), ("E2", "a"), ("O", "a"), ("O", "b"), ("E4", "a"), ("S5", "b"), ("E2", "b"))] + [st_.P[ns - 1]]
            for a in pks:
                out += [by["C1"].body(a), by["Q2"].body(a), by["Q3"].body(a), by["E1"].body(a)]
            out += [by["O"].body(z3.Int("O.a*"), z3.Int("O.b*")), by["E2"].body(z3.Int("E2.a*"), z3.Int("E2.b*")), by["S5"].body(ns - 1, z3.Int("E2.b*")), by["S5"].body(z3.Int("S5.a*"), z3.Int("S5.b*"))]
            out += [by["O"].body(z3.Int("O.a*"), st_.P[ns - 1]), by["O"].body(st_.P[ns - 1], z3.Int("O.b*"))]
            if "E4" in by:
                out += [by["E4"].body(z3.Int("O.a*"), ns - 1), by["E4"].body(z3.Int("O.b*"), ns - 1), by["E4"].body(z3.Int("E4.a*"), z3.Int("E4.b*")), by["E4"].body(z3.Int("E4.a*"), ns - 1)]
            return out
        return inv, inst

    def scope_facts(ex_, p, k, seq):
        s_ = state(ex_, p)
        if s_ is None:
            return []
        sp = s_[0]
        return [z3.ForAll([iq], z3.Implies(z3.And(0 <= iq, iq < sp.n), sp.in_scope(iq)))]

    def main_ghost(ex_, q, k, seq):
        t = seq[k]
        return [dep(k + 1) == dep(k) + z3.If(t == OPEN, 1, z3.If(t == CLOSE, -1, 0))]

    loops = {}
    for lo, (kind, nm) in enumerate([("main", "loop0.tokens"), ("inner", "loop1.comma"), ("inner", "loop2.operator"), ("inner", "loop3.close"), ("flush", "loop4.flush")]):
        inv, inst = mk(kind)
        loops[lo] = LoopSpec(inv, inst=inst, facts=scope_facts, ghost=main_ghost if kind == "main" else None, name=nm)
    ex = OrderExec(src, "term", sc, contracts={}, interfaces=W.INTERFACES, inline=set(), loops=loops, fnname=fq)
    # skolem indices of the clauses that speak about elements of the real lists (frame lemmas of append / pop are instantiated at them)
    ex.skolems = [z3.Int("S1.a*"), z3.Int("Q1.a*")]
    formula = z3.Const("formula", Str)
    outs = ex.run_fn(fn, HPath({"cls": "Function", "formula": StrV(formula)}, list(facts0), H0))
    split_invariants(ex)
    emit(run, ex, fq, [], rp, label=fq + "/order", retries=2)
    def radd(o):
        o.retries = 2
        run.add(o)
    n_ret = 0
    for i, (kind, val, q) in enumerate(outs):
        if kind == "raise":
            continue
        n_ret += 1
        tag = f"[path{i}]"
        s_ = state(ex, q)
        if s_ is None or not isinstance(val, StrV):
            run.add(static(f"{fq}/order/returns_joined_queue{tag}", False, "the returned value is not the joined queue", fn=fq)); continue
        sp, st, qu = s_
        nq = z3.Length(qu.q)
        QP, EM, ES = qu.QP, qu.EM, qu.ES
        i_, j_, m_, x_, y_ = z3.Int("i*"), z3.Int("j*"), z3.Int("m*"), z3.Int("x*"), z3.Int("y*")
        # instances of the (assumed, quantified) flush invariant at the indices the postconditions speak about
        by = {c.name: c for c in clauses(sp, st, qu, sp.n, sp.n, False, sp.n)}
        ground = []
        for a in (i_, x_, y_, QP[m_]):
            ground += [by["C1"].body(a), by["Q2"].body(a), by["Q3"].body(a), by["E1"].body(a)]
        ground += [by["E2"].body(i_, j_), by["Q1"].body(m_), by["Q1"].body(EM[i_]), by["O"].body(x_, y_)]
        hy = q.pc + ground + str_distinct()
        m = {"replay": rp}
        radd(Obl(f"{fq}/order/ensures.postfix_is_the_joined_queue{tag}", hy, val.t == join_fn(qu.q), fn=fq, meta=m))
        radd(Obl(f"{fq}/order/ensures.every_operand_and_operator_is_emitted_once{tag}", hy,
                    z3.And(z3.Implies(z3.And(0 <= i_, i_ < sp.n, sp.kept(i_)), z3.And(0 <= EM[i_], EM[i_] < nq, QP[EM[i_]] == i_)),
                           z3.Implies(z3.And(0 <= m_, m_ < nq), z3.And(0 <= QP[m_], QP[m_] < sp.n, sp.kept(QP[m_]), qu.q[m_] == sp.T[QP[m_]], EM[QP[m_]] == m_))), fn=fq, meta=m))
        radd(Obl(f"{fq}/order/ensures.operand_emitted_in_its_own_step{tag}", hy, z3.Implies(z3.And(0 <= i_, i_ < sp.n, sp.is_operand(i_)), ES[i_] == i_), fn=fq, meta=m))
        radd(Obl(f"{fq}/order/ensures.operator_emitted_at_its_first_closer{tag}", hy,
                    z3.Implies(z3.And(0 <= i_, i_ < sp.n, sp.is_op(i_)),
                               z3.And(i_ < ES[i_], ES[i_] <= sp.n, z3.Implies(ES[i_] < sp.n, sp.closes(ES[i_], i_)), z3.Implies(z3.And(i_ < j_, j_ < ES[i_]), z3.Not(sp.closes(j_, i_))))),
                    fn=fq, meta=m))
        radd(Obl(f"{fq}/order/ensures.queue_ordered_by_step_then_position_descending{tag}", hy,
                    z3.Implies(z3.And(0 <= x_, x_ < sp.n, sp.kept(x_), 0 <= y_, y_ < sp.n, sp.kept(y_)),
                               z3.And(z3.Implies(ES[x_] < ES[y_], EM[x_] < EM[y_]), z3.Implies(z3.And(ES[x_] == ES[y_], x_ > y_), EM[x_] < EM[y_]))), fn=fq, meta=m))
    run.add(static(f"{fq}/order/returns", n_ret > 0, f"{n_ret} returning path(s)", fn=fq))
    # vacuity: the scope is inhabited (an antecedent like `a and ( b or c )`)
    return ex


if __name__ == "__main__":
    from pyvc.runner import main

    def build(run):
        run.assume("A-STR", "A-PY", "A-MSG", "A-LOG")
        verify_infix_order(run, {"module": "contracts.wiring_native", "func": "replay_antecedent", "kwargs": {}, "vars": {}})
    sys.exit(main("C06", build, "order theorem (development entry point)"))
