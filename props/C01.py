"""C01 - Engine output equals the documented inference pipeline (DESIGN 8/C01).

Engine.process is verified as wiring over the contracts of its callees: (1) every output variable's fuzzy output is cleared before
any block runs, (2) the enabled rule blocks - and only those - are activated in order, each on the outputs accumulated so far
(history functions Tb/Db/Gb indexed by the block number; the effect of one activation is the interface contract act_T/act_D/act_G
whose meaning for each method is C08: rules fire with weight x antecedent (C06), conclusions contribute per C07), (3) then every
output variable is defuzzified once on the final fuzzy outputs (C12 cascade of defuzz_val, C09/C10).  Values are extended reals, so
NaN, +-inf, range bounds and breakpoints are all covered; engines have any number of variables, blocks and rules.
"""
import sys, os
sys.path.insert(0, os.path.dirname(os.path.dirname(os.path.abspath(__file__))))
import ast
import z3
from pyvc import xreal as xr
from pyvc.numexec import Num, Bool, Unsupported, ANALYSIS
from pyvc.heap import (HeapExec, HPath, LoopSpec, Ref, NONE, XR, cls_of, SeqAct, x2xr, xr2x, RefV, SeqV, canon, str_distinct)
from pyvc.hlib import init_heap, emit, frame_goal
from pyvc.solve import Obl, static, undecided
from pyvc.runner import main
from pyvc.source import NotFound
from contracts import wiring as W

W_N = "contracts.wiring_native"


def verify_process(run):
    src = run.src
    fq = "engine.Engine.process"
    fn = src.func("engine", "Engine.process")
    run.under_contract("engine", "Engine.process", fn)
    run.under_contract("rule", "RuleBlock.activate", src.func("rule", "RuleBlock.activate"))
    run.under_contract("term", "Aggregated.clear", src.func("term", "Aggregated.clear"))
    sc = W.schema(src)
    H0 = init_heap(sc)
    self_ = z3.Const("self", Ref)
    vS, bS = z3.Int("v*"), z3.Int("b*")
    outs_ = H0["Engine.output_variables"][self_]; blocks = H0["Engine.rule_blocks"][self_]
    LO, LB = z3.Length(outs_), z3.Length(blocks)
    OUT = sc.ids["OutputVariable"]
    V0 = H0["Variable._value"]
    Tb = z3.Function("Tb", z3.IntSort(), W.TArr); Db = z3.Function("Db", z3.IntSort(), W.DArr); Gb = z3.Function("Gb", z3.IntSort(), W.GArr)
    vv = outs_[vS]
    fzv = H0["OutputVariable.fuzzy"][vv]

    def wf_out(i):
        v = outs_[i]
        return [v != NONE, cls_of(v) == OUT] + W.wf_output_variable(sc, H0, v)

    def distinct_out(i, j):      # wf_engine: an output variable occurs once in the list
        return [z3.Implies(i != j, outs_[i] != outs_[j])]

    # ---- loop 0: clear every fuzzy output
    def inv0(ex, p, k, seq):
        return z3.Implies(z3.And(vS >= 0, vS < k), z3.Length(p.heap["Aggregated.terms"][fzv]) == 0)

    def facts0(ex, p, k, seq):
        return wf_out(k) + wf_out(vS) + distinct_out(k, vS)

    # ---- loop 1: rule blocks in order
    def step(j):
        b = blocks[j]
        a = H0["RuleBlock.activation"][b]
        en = H0["RuleBlock.enabled"][b]
        return z3.And(Tb(j + 1) == z3.If(en, W.act_T(a, b, Tb(j), V0), Tb(j)),
                      Db(j + 1) == z3.If(en, W.act_D(a, b, Tb(j), V0, Db(j)), Db(j)),
                      Gb(j + 1) == z3.If(en, W.act_G(a, b, Tb(j), V0, Gb(j)), Gb(j)))

    def inv1(ex, p, k, seq):
        return z3.And(p.heap["Aggregated.terms"] == Tb(k), p.heap["Rule.activation_degree"] == Db(k), p.heap["Rule.triggered"] == Gb(k),
                      z3.Implies(z3.And(bS >= 0, bS < k), step(bS)))

    def facts1(ex, p, k, seq):
        return [blocks[k] != NONE, blocks[bS] != NONE]

    def ghost1(ex, q, k, seq):
        return [Tb(k + 1) == q.heap["Aggregated.terms"], Db(k + 1) == q.heap["Rule.activation_degree"], Gb(k + 1) == q.heap["Rule.triggered"]]

    # ---- loop 2: defuzzify every output variable on the final fuzzy outputs
    def H_final(p):
        return dict(H0, **{"Aggregated.terms": Tb(LB)})

    def inv2(ex, p, k, seq):
        Hf = H_final(p)
        done = z3.And(p.heap["Variable._value"][vv] == z3.If(H0["Variable.enabled"][vv], W.defuzzified(Hf, vv), V0[vv]),
                      p.heap["OutputVariable.previous_value"][vv] == z3.If(H0["Variable.enabled"][vv], V0[vv], H0["OutputVariable.previous_value"][vv]))
        todo = z3.And(p.heap["Variable._value"][vv] == V0[vv], p.heap["OutputVariable.previous_value"][vv] == H0["OutputVariable.previous_value"][vv])
        return z3.And(z3.Implies(z3.And(vS >= 0, vS < k), done), z3.Implies(z3.And(vS >= k, vS < LO), todo))

    def facts2(ex, p, k, seq):
        return wf_out(k) + wf_out(vS) + distinct_out(k, vS)

    loops = {0: LoopSpec(inv0, facts=facts0, name="loop0.clear", modifies={"Aggregated.terms"}),
             1: LoopSpec(inv1, facts=facts1, ghost=ghost1, name="loop1.blocks", modifies=set(W.ACTIVATE_MODIFIES)),
             2: LoopSpec(inv2, facts=facts2, name="loop2.defuzzify", modifies={"Variable._value", "OutputVariable.previous_value"},
                         inst=lambda ex, p, k, seq: [])}
    ex = HeapExec(src, "engine", sc, contracts={"OutputVariable.defuzzify": W.DefuzzifyContract()}, interfaces=W.INTERFACES,
                  inline={"Aggregated.clear", "RuleBlock.activate"}, loops=loops, fnname=fq)
    # the state when loop 1 starts defines Tb(0) etc.: bound through the entry of loop 1 (ghost initialisation)
    pre = [self_ != NONE, vS >= 0, vS < LO, bS >= 0, bS < LB]

    class Init(LoopSpec):
        pass
    p0 = HPath({"self": RefV(self_, "Engine")}, pre, H0)
    # ghost initialisation Tb(0) := state at the entry of loop 1 is expressed by making inv.init of loop 1 an assumption-free definition:
    orig_for = ex.for_loop

    def for_loop(p, n):
        lo = ex.loop_index.get((n.lineno, n.col_offset))
        if lo == 1:
            p.pc += [Tb(0) == p.heap["Aggregated.terms"], Db(0) == p.heap["Rule.activation_degree"], Gb(0) == p.heap["Rule.triggered"]]
            ex.at_loop1 = p.fork()
        if lo == 2:
            ex.at_loop2 = p.fork()
        return orig_for(p, n)
    ex.for_loop = for_loop
    outs = ex.run_fn(fn, p0)
    rp = {"module": W_N, "func": "replay_pipeline", "kwargs": {}, "vars": {}}
    emit(run, ex, fq, [], rp)
    run.add(Obl(f"{fq}/pre.sat", pre + [LO > 1, LB > 1], None, expect="sat", fn=fq))
    # between the loops: what is known when loop 1 / loop 2 start
    if hasattr(ex, "at_loop1"):
        q = ex.at_loop1
        run.add(Obl(f"{fq}/ensures.all_outputs_cleared_before_activation", q.pc + wf_out(vS), z3.Length(Tb(0)[fzv]) == 0, fn=fq, meta={"replay": rp}))
        run.add(Obl(f"{fq}/ensures.clear_touches_only_fuzzy_outputs", q.pc, frame_goal(q, H0, {"Aggregated.terms"}), fn=fq, meta={"replay": rp}))
    if hasattr(ex, "at_loop2"):
        q = ex.at_loop2
        run.add(Obl(f"{fq}/ensures.blocks_in_order_enabled_only", q.pc, z3.And(step(bS), q.heap["Aggregated.terms"] == Tb(LB)), fn=fq, meta={"replay": rp}))
        run.add(Obl(f"{fq}/ensures.activation_touches_only_rules_and_fuzzy_outputs", q.pc, frame_goal(q, H0, set(W.ACTIVATE_MODIFIES)), fn=fq, meta={"replay": rp}))
    for i, (kind, val, q) in enumerate(outs):
        tag = f"[path{i}]"
        if kind == "raise":
            # process raises only what a callee raises (missing activation / defuzzifier, or a callee's own failure) - never on its own
            run.add(static(f"{fq}/raises.from_callees_only{tag}", val in ("ValueError", "ActivationFailure", "DefuzzifierFailure"), f"raising outcome {val}", fn=fq))
            continue
        Hf = H_final(q)
        goal = z3.And(q.heap["Variable._value"][vv] == z3.If(H0["Variable.enabled"][vv], W.defuzzified(Hf, vv), V0[vv]),
                      q.heap["OutputVariable.previous_value"][vv] == z3.If(H0["Variable.enabled"][vv], V0[vv], H0["OutputVariable.previous_value"][vv]),
                      q.heap["Aggregated.terms"] == Tb(LB), step(bS), z3.Length(Tb(0)[fzv]) == 0)
        run.add(Obl(f"{fq}/ensures.pipeline{tag}", q.pc + wf_out(vS), goal, fn=fq, meta={"replay": rp}))
        run.add(Obl(f"{fq}/frame{tag}", q.pc, frame_goal(q, H0, set(W.ACTIVATE_MODIFIES) | {"Variable._value", "OutputVariable.previous_value"}), fn=fq, meta={"replay": rp}))
    run.add(static(f"{fq}/modifies", ex.writes <= set(W.ACTIVATE_MODIFIES) | {"Variable._value", "OutputVariable.previous_value"}, f"heap fields written: {sorted(ex.writes)}", fn=fq))


def build(run):
    run.assume("A-REAL", "A-NP", "A-PY", "A-MSG", "A-LOG", "A-LISTVAL", "A-ACTVAL", "A-WF")
    rp = {"module": W_N, "func": "replay_pipeline", "kwargs": {}, "vars": {}}
    for fq, f in (("engine.Engine.process", verify_process),):
        try:
            f(run)
        except ANALYSIS as ex_:
            run.add(undecided(f"{fq}/subset", f"outside the verified subset: {ex_}", fn=fq, meta={"replay": rp}))
        except NotFound as ex_:
            run.add(static(f"{fq}/exists", False, f"function under contract not found: {ex_}", fn=fq))


    budget = 2000 if run.tier == "quick" else 40000
    run.bounded("engine.Engine.process/pipeline.runtime", W_N, "replay_pipeline", [dict(seed=run.seed, budget=budget)],
                bound=f"{budget} generated engines (1-3 inputs, 1-2 outputs, 1-2 rule blocks, nested and/or antecedents with hedges and `any`, weights, enabled/disabled rules, blocks and "
                      "variables, output variables in antecedents, Mamdani and Takagi-Sugeno outputs, lock/default settings) x 3 successive steps x input rows incl. bounds, out of range, +-inf, NaN; "
                      "all seven activation methods (one-pass methods evaluate every rule on the outputs accumulated so far); against an independently wired reference pipeline")


if __name__ == "__main__":
    sys.exit(main("C01", build, "Engine output equals the documented inference pipeline"))
