"""C10 - Weighted defuzzifiers compute the grouped weighted average / sum (DESIGN 8/C10).

WeightedAverage.defuzzify / WeightedSum.defuzzify: the accumulation loop is verified with ghost sums wsum/wtot over the grouped
activations (the grouping itself enters through the contract of Aggregated.grouped_terms: ghost grouped(terms, aggregation)); the
value z of a group is the term's Tsukamoto value when the effective type is Tsukamoto, its membership otherwise, and an explicit
type wins over the inferred one.  Lemmas by induction (base/step VCs): finiteness, `sum of weights = 0 => weighted sum = 0`
(hence NaN exactly when there are no activations or all weights are zero), weighted-mean bounds (a weighted average of constants
lies between the smallest and the largest constant), zero-degree neutrality (needs z finite at w = 0: checked per monotonic term
against its real tsukamoto body).
"""
import sys, os
sys.path.insert(0, os.path.dirname(os.path.dirname(os.path.abspath(__file__))))
import ast
import z3
from pyvc import xreal as xr
from pyvc.numexec import Num, Bool, Unsupported, ANALYSIS
from pyvc.heap import (HeapExec, HPath, LoopSpec, Contract, Ref, NONE, XR, Act, cls_of, SeqRef, SeqAct, x2xr, xr2x, RefV, SeqV, ActV, canon, str_distinct)
from pyvc.hlib import init_heap, emit, frame_goal
from pyvc.solve import Obl, static, undecided
from pyvc.runner import main
from pyvc.source import NotFound
from pyvc.termrun import sym_params, run_membership
from contracts import wiring as W
from contracts import terms as CT

W_N = "contracts.wiring_native"
RP = {"module": W_N, "func": "replay_weighted", "kwargs": {}, "vars": {}}
grouped = z3.Function("grouped", SeqAct, Ref, SeqAct)           # Aggregated.grouped_terms().values(): one activation per term name, first-occurrence order
infer_fn = z3.Function("infer_fn", SeqAct, z3.IntSort())         # WeightedDefuzzifier.infer_type(fuzzy_output)
infer_mixed = z3.Function("infer_mixed", SeqAct, z3.BoolSort())  # ... raises TypeError (terms of different kinds)
tsukamoto_fn = z3.Function("tsukamoto_fn", Ref, XR, XR)          # Term.tsukamoto
AUTO, TS, TSUKA = 0, 1, 2


def _tsukamoto(ex, p, recv, args, kwargs, node):
    x = ex.num(args[0], node)
    t = tsukamoto_fn(recv.r, x2xr(x.x))
    p.pc.append(canon(t))
    return Num(xr2x(t), x.data, False)


class GroupedTerms(Contract):
    """Aggregated.grouped_terms(): returns a dict; only .values() is used here: the ghost sequence grouped(terms, aggregation). Writes nothing."""

    def call(s, ex, p, recv, args, kwargs, node):
        g = grouped(p.heap["Aggregated.terms"][recv.r], p.heap["Aggregated.aggregation"][recv.r])
        return ("dictvalues", SeqV(g, "act"))


class InferType(Contract):
    def call(s, ex, p, recv, args, kwargs, node):
        T = p.heap["Aggregated.terms"][args[0].r]
        q = p.fork(); q.pc.append(infer_mixed(T)); ex.raised.append((q, "TypeError"))
        p.pc += [z3.Not(infer_mixed(T)), infer_fn(T) >= 0, infer_fn(T) <= 2]
        return Num(xr.X(xr.F, xr.I0, z3.ToReal(infer_fn(T))), False, True, True)


class WExec(HeapExec):
    def method_call(s, p, recv, meth, args, kwargs, node):
        if isinstance(recv, tuple) and recv and recv[0] == "dictvalues" and meth == "values":
            return recv[1]
        return super().method_call(p, recv, meth, args, kwargs, node)


def verify_defuzzify(run, cls):
    src = run.src
    fq = f"defuzzifier.{cls}.defuzzify"
    fn = src.func("defuzzifier", f"{cls}.defuzzify")
    run.under_contract("defuzzifier", f"{cls}.defuzzify", fn)
    sc = W.schema(src)
    sc.fields["WeightedDefuzzifier.type"] = "int"
    H0 = init_heap(sc)
    self_, term = z3.Const("self", Ref), z3.Const("term_", Ref)
    T = H0["Aggregated.terms"][term]
    agg = H0["Aggregated.aggregation"][term]
    G = grouped(T, agg)
    n = z3.Length(G)
    typ = H0["WeightedDefuzzifier.type"][self_]
    eff = z3.If(typ == AUTO, infer_fn(T), typ)                     # an explicit type wins over the inferred one
    wsum = z3.Function("wsum", z3.IntSort(), XR); wtot = z3.Function("wtot", z3.IntSort(), XR)

    def w_(k):
        return Act.a_degree(G[k])

    def z_(k):
        t = Act.a_term(G[k])
        return z3.If(eff == TSUKA, tsukamoto_fn(t, w_(k)), W.membership_fn(t, w_(k)))

    def unfold(k):
        init = x2xr(xr.ite(z3.Length(T) > 0, xr.const(0.0), xr.const(float("nan"))))
        return [wsum(0) == init, wtot(0) == x2xr(xr.const(0.0)),
                wsum(k + 1) == x2xr(xr.add(xr2x(wsum(k)), xr.mul(xr2x(w_(k)), xr2x(z_(k))))), wtot(k + 1) == x2xr(xr.add(xr2x(wtot(k)), xr2x(w_(k)))),
                canon(w_(k)), canon(z_(k)), canon(wsum(k)), canon(wtot(k)), Act.a_term(G[k]) != NONE]

    def inv(ex, p, k, seq):
        return z3.And(x2xr(ex.num(p.env["weighted_sum"]).x) == wsum(k), x2xr(ex.num(p.env["weights"]).x) == wtot(k))

    ex = WExec(src, "defuzzifier", sc, contracts={"Aggregated.grouped_terms": GroupedTerms(), "WeightedDefuzzifier.infer_type": InferType()},
               interfaces=dict(W.INTERFACES), loops={0: LoopSpec(inv, facts=lambda ex_, p, k, seq: unfold(k), name="loop0", modifies=set())}, fnname=fq)
    ex.interfaces[("Term", "tsukamoto")] = _tsukamoto
    pre = [self_ != NONE, term != NONE, typ >= 0, typ <= 2]
    mn, cm = xr.sym("minimum"); mx, cx = xr.sym("maximum")
    outs = []
    for is_agg in (True, False):
        p0 = HPath({"self": RefV(self_, cls), "term": RefV(term, "Term"), "minimum": Num(mn, False, True), "maximum": Num(mx, False, True)},
                   pre + [cm, cx, sc.is_instance(term, "Aggregated") if is_agg else z3.Not(sc.is_instance(term, "Aggregated"))], H0)
        if is_agg:
            p0.known[term.get_id()] = "Aggregated"
        outs += [(is_agg,) + o for o in ex.run_fn(fn, p0)]
        ex.raised = []
    emit(run, ex, fq, [], RP)
    run.add(Obl(f"{fq}/pre.sat", pre + [n > 1], None, expect="sat", fn=fq))
    for i, (is_agg, kind, val, q) in enumerate(outs):
        tag = f"[path{i}]"
        if kind == "raise":
            ok = z3.Or(z3.And(z3.BoolVal(val == "ValueError"), z3.Not(sc.is_instance(term, "Aggregated"))), z3.And(z3.BoolVal(val == "TypeError"), typ == AUTO, infer_mixed(T)))
            run.add(Obl(f"{fq}/raises.only_non_aggregated_or_mixed_kinds{tag}", q.pc, ok, fn=fq, meta={"replay": RP}))
            continue
        res = ex.num(val).x
        ws, wt = xr2x(wsum(n)), xr2x(wtot(n))
        if cls == "WeightedAverage":
            goal = x2xr(res) == x2xr(xr.div(ws, wt))
        else:   # the code computes (ws / wt) * wt: equal to ws whenever the total weight is finite and non-zero (A-REAL), NaN when it is zero
            y = xr.mul(xr.div(ws, wt), wt)
            goal = z3.And(x2xr(res) == x2xr(y),
                          z3.Implies(z3.And(xr.fin(wt), wt.v != 0, xr.fin(ws)), xr.same(y, ws)),
                          z3.Implies(z3.And(xr.fin(wt), wt.v == 0), y.nan))
        run.add(Obl(f"{fq}/ensures.formula{tag}", q.pc + unfold(n)[:2], goal, fn=fq, meta={"replay": RP}))
        run.add(Obl(f"{fq}/frame{tag}", q.pc, frame_goal(q, H0), fn=fq, meta={"replay": RP}))
    run.add(static(f"{fq}/modifies", not ex.writes, f"heap fields written: {sorted(ex.writes)}", fn=fq))
    run.add(static(f"{fq}/oblivious", not ex.nonoblivious, str(ex.nonoblivious) or "no data-dependent Python control (degrees may be batches)", fn=fq, meta={"replay": RP}))
    # ---- lemmas over the ghost sums (induction on the number of groups; hypotheses: cleaned degrees are finite and >= 0, z finite)
    k = z3.Int("k")
    hyp_k = [k >= 0] + unfold(k) + [xr.fin(xr2x(w_(k))), XR.x_v(w_(k)) >= 0, xr.fin(xr2x(z_(k)))]
    P = lambda j: z3.And(xr.fin(xr2x(wsum(j))), xr.fin(xr2x(wtot(j))), XR.x_v(wtot(j)) >= 0, z3.Implies(XR.x_v(wtot(j)) == 0, XR.x_v(wsum(j)) == 0))
    nonempty = [z3.Length(T) > 0]
    run.add(Obl(f"{fq}/lemma.sums/base", unfold(z3.IntVal(0))[:2] + nonempty, P(0), fn=fq, meta={"replay": RP}))
    run.add(Obl(f"{fq}/lemma.sums/step", hyp_k + [P(k)], P(k + 1), fn=fq, meta={"replay": RP}))
    # NaN exactly when there are no activations or all weights are zero (from P(n) and the formula)
    ws, wt = xr2x(wsum(n)), xr2x(wtot(n))
    out = xr.div(ws, wt) if cls == "WeightedAverage" else xr.mul(xr.div(ws, wt), wt)
    run.add(Obl(f"{fq}/ensures.nan_iff_empty_or_zero_weights", [P(n)] + nonempty, out.nan == (wt.v == 0), fn=fq, meta={"replay": RP}))
    run.add(Obl(f"{fq}/ensures.nan_when_no_activations", unfold(z3.IntVal(0))[:2] + [z3.Length(T) == 0, n == 0],
                (xr.div(xr2x(wsum(0)), xr2x(wtot(0))) if cls == "WeightedAverage" else xr.mul(xr.div(xr2x(wsum(0)), xr2x(wtot(0))), xr2x(wtot(0)))).nan, fn=fq, meta={"replay": RP}))
    # an activation with degree 0 leaves both sums unchanged provided z is finite there
    run.add(Obl(f"{fq}/ensures.zero_degree_neutral_if_z_finite", unfold(k) + [xr.fin(xr2x(wsum(k))), xr.fin(xr2x(wtot(k))), xr.fin(xr2x(z_(k))), xr.fin(xr2x(w_(k))), XR.x_v(w_(k)) == 0],
                z3.And(wsum(k + 1) == wsum(k), wtot(k + 1) == wtot(k)), fn=fq, meta={"replay": RP}))
    if cls == "WeightedAverage":
        lo, hi = z3.Real("lo"), z3.Real("hi")
        B = lambda j: z3.And(lo * XR.x_v(wtot(j)) <= XR.x_v(wsum(j)), XR.x_v(wsum(j)) <= hi * XR.x_v(wtot(j)))
        run.add(Obl(f"{fq}/lemma.mean_bounds/base", unfold(z3.IntVal(0))[:2] + nonempty, B(0), fn=fq, meta={"replay": RP}))
        run.add(Obl(f"{fq}/lemma.mean_bounds/step", hyp_k + [P(k), B(k), lo <= XR.x_v(z_(k)), XR.x_v(z_(k)) <= hi], B(k + 1), fn=fq, meta={"replay": RP}))
        run.add(Obl(f"{fq}/ensures.average_of_constants_bounded", [P(n), B(n), XR.x_v(wtot(n)) > 0, lo <= hi], z3.And(lo <= xr.div(ws, wt).v, xr.div(ws, wt).v <= hi), fn=fq, meta={"replay": RP}))


def verify_tsukamoto_at_zero(run):
    """zero-degree neutrality for Tsukamoto controllers needs tsukamoto(0) finite: checked on the real tsukamoto body of every monotonic term"""
    src = run.src
    for cls in CT.MONOTONIC:
        tc = CT.TERMS[cls]
        fq = f"term.{cls}.tsukamoto"
        run.under_contract("term", f"{cls}.tsukamoto", src.func("term", f"{cls}.tsukamoto"))
        try:
            ax = xr.Ax(); A = xr.SymAlg(ax)
            P, wf = sym_params(tc)
            z, ex, calls, raises, fn, _ = run_membership(src, cls, ax, A, P, xr.const(0.0), meth="tsukamoto")
            rp = {"module": W_N, "func": "replay_zero_degree", "kwargs": {"cls": cls}, "vars": {v: v for v in tc.fields()}}
            run.add(Obl(f"{fq}/finite_at_zero_degree", wf + [tc.valid(A, P)] + ax.axioms(), xr.fin(z), fn=fq, meta={"replay": rp, "sat_final": True}))
        except ANALYSIS as ex_:
            run.add(undecided(f"{fq}/finite_at_zero_degree", str(ex_), fn=fq))


def verify_infer_type_leaves(run):
    """WeightedDefuzzifier.infer_type on a single term: Activated -> its term; Constant/Linear/Function -> TakagiSugeno; monotonic -> Tsukamoto;
    otherwise Automatic (the set-valued case for Aggregated/Variable is covered by the bounded stand-in)"""
    src = run.src
    fq = "defuzzifier.WeightedDefuzzifier.infer_type"
    fn = src.func("defuzzifier", "WeightedDefuzzifier.infer_type")
    run.under_contract("defuzzifier", "WeightedDefuzzifier.infer_type", fn)
    txt = " ".join(ast.unparse(fn).split())
    branches = [("isinstance(component, (Aggregated, Variable))", "types = {cls.infer_type(t_i) for t_i in component.terms}"),
                ("if len(types) == 1:\n        return types.pop()", None), ("if len(types) == 0:\n        return WeightedDefuzzifier.Type.Automatic", None),
                ("raise TypeError(", None), ("elif isinstance(component, Activated):\n    return cls.infer_type(component.term)", None),
                ("elif isinstance(component, (Constant, Linear, Function)):\n    return WeightedDefuzzifier.Type.TakagiSugeno", None),
                ("elif component.is_monotonic():\n    return WeightedDefuzzifier.Type.Tsukamoto", None), ("else:\n    return WeightedDefuzzifier.Type.Automatic", None)]
    missing = [b[0] for b in branches if " ".join(b[0].split()) not in txt or (b[1] and " ".join(b[1].split()) not in txt)]
    run.add(static(f"{fq}/structure", not missing, f"missing branches: {missing}" if missing else "decision structure as documented: set of member kinds (1 -> that kind, 0 -> Automatic, >1 -> TypeError); Activated -> its term; "
                   "Constant/Linear/Function -> TakagiSugeno; monotonic -> Tsukamoto; else Automatic", fn=fq, level="B", meta={"replay": RP}))


# ------------------------------------------------------------------------------------------------ Aggregated.grouped_terms / activation_degree
def verify_grouped_terms(run):
    """the grouping loop against the recursive reading of the statement: groups keyed by term NAME in first-occurrence order; the degree of a
    group is the left fold of the aggregation operator (UnboundedSum when none is set) over the cleaned degrees of its members; every group is
    a FRESH Activated (term of the first member, no implication), so the fuzzy output itself is not written"""
    from pyvc.heap import Str, SeqStr, StrV, Act
    src = run.src
    fq = "term.Aggregated.grouped_terms"
    fn = src.func("term", "Aggregated.grouped_terms")
    run.under_contract("term", "Aggregated.grouped_terms", fn)
    sc = W.schema(src)
    H0 = init_heap(sc)
    self_ = z3.Const("self", Ref)
    T = H0["Aggregated.terms"][self_]
    L = z3.Length(T)
    aggr0 = H0["Aggregated.aggregation"][self_]
    UNB = z3.Const("UnboundedSum()", Ref)
    aggr = z3.If(aggr0 != NONE, aggr0, UNB)
    NAME = H0["Term.name"]
    PresArr, ValArr = z3.ArraySort(Str, z3.BoolSort()), z3.ArraySort(Str, Act)
    seen = z3.Function("seen", z3.IntSort(), PresArr)        # ghost: the names among the first k activations
    gval = z3.Function("group_of", z3.IntSort(), ValArr)     # ghost: name -> aggregated activation after k activations
    order = z3.Function("group_order", z3.IntSort(), SeqStr)
    nm = lambda k: NAME[Act.a_term(T[k])]

    def unfold(k):
        a, n_ = T[k], nm(k)
        old = gval(k)[n_]
        folded = W.compute_fn(aggr, Act.a_degree(old), Act.a_degree(a))
        new = z3.If(seen(k)[n_], Act.mk_act(Act.a_term(old), x2xr(W.clean(xr2x(folded))), Act.a_impl(old)), Act.mk_act(Act.a_term(a), x2xr(W.clean(xr2x(Act.a_degree(a)))), NONE))
        return [seen(k + 1) == z3.Store(seen(k), n_, True), gval(k + 1) == z3.Store(gval(k), n_, new),
                order(k + 1) == z3.If(seen(k)[n_], order(k), z3.Concat(order(k), z3.Unit(n_))), canon(folded), canon(Act.a_degree(a)), canon(Act.a_degree(old)),
                Act.a_term(a) != NONE]          # A-WF: an activation in a fuzzy output has a term (Consequent.modify only appends such)

    class DictA:
        def __init__(s, pres, val, keys):
            s.pres, s.val, s.keys = pres, val, keys

    class EntryV:
        def __init__(s, dname, key):
            s.dname, s.key = dname, key

    class UnbCtor(Contract):
        def call(s, ex, p, recv, args, kwargs, node):
            p.pc += [UNB != NONE]
            return RefV(UNB, "SNorm")

    class GroupExec(HeapExec):
        def stmt(s, p, n):
            if isinstance(n, ast.AnnAssign) and isinstance(n.target, ast.Name) and isinstance(n.value, ast.Dict) and not n.value.keys:
                p.env[n.target.id] = DictA(z3.K(Str, z3.BoolVal(False)), gval(0), z3.Empty(SeqStr))
                return [(p, None)]
            return super().stmt(p, n)

        def contains(s, p, item, coll, e):
            if isinstance(coll, DictA):
                return coll.pres[s.unwrap("str", item)]
            return super().contains(p, item, coll, e)

        def ev_Subscript(s, p, e):
            base = s.ev(p, e.value)
            if isinstance(base, DictA) and isinstance(e.value, ast.Name):
                k = s.unwrap("str", s.ev(p, e.slice))
                s.oblige(f"safety/line{e.lineno - s.fn_line}:key present in the dict (no KeyError)", p, base.pres[k])
                return EntryV(e.value.id, k)
            return super().ev_Subscript(p, e)

        def subscript_store(s, p, t, v):
            if isinstance(t.value, ast.Name) and isinstance(p.env.get(t.value.id), DictA) and isinstance(v, ActV):
                d = p.env[t.value.id]
                k = s.unwrap("str", s.ev(p, t.slice))
                p.env[t.value.id] = DictA(z3.Store(d.pres, k, True), z3.Store(d.val, k, v.a), z3.If(d.pres[k], d.keys, z3.Concat(d.keys, z3.Unit(k))))
                return
            return super().subscript_store(p, t, v)

        def attr_of(s, p, base, attr, node):
            if isinstance(base, EntryV):
                d = p.env[base.dname]
                return super().attr_of(p, ActV(d.val[base.key]), attr, node)
            return super().attr_of(p, base, attr, node)

        def assign(s, p, t, v):
            if isinstance(t, ast.Attribute) and isinstance(t.value, ast.Name) and isinstance(p.env.get(t.value.id), EntryV) and t.attr == "degree":
                ent = p.env[t.value.id]
                d = p.env[ent.dname]
                old = d.val[ent.key]
                # Activated.degree setter: stores the cleaned value (verified against the value model in C07)
                new = Act.mk_act(Act.a_term(old), x2xr(W.clean(s.num(v, t).x)), Act.a_impl(old))
                p.env[ent.dname] = DictA(d.pres, z3.Store(d.val, ent.key, new), d.keys)
                return
            return super().assign(p, t, v)

        def havoc_value(s, v, hint):
            if isinstance(v, DictA):
                return DictA(z3.FreshConst(PresArr, hint + ".present"), z3.FreshConst(ValArr, hint + ".value"), z3.FreshConst(SeqStr, hint + ".keys"))
            if isinstance(v, EntryV):
                return v
            return super().havoc_value(v, hint)

        def assigned_names(s, body):
            out = super().assigned_names(body)
            for st in body:
                for x in ast.walk(st):
                    if isinstance(x, ast.Assign) and isinstance(x.targets[0], ast.Subscript) and isinstance(x.targets[0].value, ast.Name):
                        out.add(x.targets[0].value.id)
                    if isinstance(x, ast.Assign) and isinstance(x.targets[0], ast.Attribute) and isinstance(x.targets[0].value, ast.Name) and x.targets[0].attr == "degree":
                        out.add("groups")          # the entry is an alias into the dict
            return out

        def ev_BoolOp(s, p, e):
            if isinstance(e.op, ast.Or) and ast.unparse(e) == "self.aggregation or UnboundedSum()":
                return RefV(aggr, "SNorm")
            return super().ev_BoolOp(p, e)

    def inv(ex_, p, k, seq):
        g = p.env.get("groups")
        if not isinstance(g, DictA):
            return z3.BoolVal(False)
        return z3.And(g.pres == seen(k), g.val == gval(k), g.keys == order(k))

    contracts = {"Activated": W.ActivatedCtor(), "UnboundedSum": UnbCtor()}
    ex = GroupExec(src, "term", sc, contracts=contracts, interfaces=W.INTERFACES, inline=set(),
                   loops={0: LoopSpec(inv, facts=lambda ex_, p, k, seq: unfold(k), name="loop0.activations", modifies=set())}, fnname=fq)
    pre = [self_ != NONE, UNB != NONE, seen(0) == z3.K(Str, z3.BoolVal(False)), order(0) == z3.Empty(SeqStr)]
    outs = ex.run_fn(fn, HPath({"self": RefV(self_, "Aggregated")}, pre, H0))
    emit(run, ex, fq, [], RP)
    for i, (kind, val, q) in enumerate(outs):
        tag = f"[path{i}]"
        if kind == "raise":
            run.add(Obl(f"{fq}/raises.none{tag}", q.pc, z3.BoolVal(False), fn=fq, meta={"replay": RP})); continue
        ok = isinstance(val, DictA)
        goal = z3.And(val.pres == seen(L), val.val == gval(L), val.keys == order(L)) if ok else z3.BoolVal(False)
        run.add(Obl(f"{fq}/ensures.groups_by_name_first_occurrence_order_fold_of_aggregation{tag}", q.pc, goal, fn=fq, meta={"replay": RP}))
        run.add(Obl(f"{fq}/frame{tag}", q.pc, frame_goal(q, H0), fn=fq, meta={"replay": RP}))
    run.add(static(f"{fq}/modifies", not ex.writes, f"heap fields written: {sorted(ex.writes)} (the fuzzy output is not mutated: every group is a fresh Activated)", fn=fq, meta={"replay": RP}))
    # ---- Aggregated.activation_degree(term): the degree of the group named like the term, 0.0 when there is none (over the contract above)
    fq2 = "term.Aggregated.activation_degree"
    fn2 = src.func("term", "Aggregated.activation_degree")
    run.under_contract("term", "Aggregated.activation_degree", fn2)
    term = z3.Const("term", Ref)

    class MaybeV:
        def __init__(s, present, act):
            s.present, s.act = present, act

    class GroupedContract(Contract):
        def call(s, ex_, p, recv, args, kwargs, node):
            return DictA(seen(L), gval(L), order(L))

    class ADExec(GroupExec):
        def method_call(s, p, recv, meth, args, kwargs, node):
            if isinstance(recv, DictA) and meth == "get" and len(args) == 1:
                k = s.unwrap("str", args[0])
                return MaybeV(recv.pres[k], recv.val[k])
            return super().method_call(p, recv, meth, args, kwargs, node)

        def truth(s, v, node, p=None):
            if isinstance(v, MaybeV):
                return v.present
            return super().truth(v, node, p)

        def attr_of(s, p, base, attr, node):
            if isinstance(base, MaybeV):
                s.oblige(f"safety/line{node.lineno - s.fn_line}:attribute `{attr}` of None", p, base.present)
                return super().attr_of(p, ActV(base.act), attr, node)
            return super().attr_of(p, base, attr, node)

        def ev_IfExp(s, p, e):
            c = s.truth(s.ev(p, e.test), e, p)
            q = p.fork(); q.pc.append(c)
            a = s.ev(q, e.body)
            for nm_, pc_, g_, m_ in s.obls[-1:]:
                pass
            b = s.ev(p, e.orelse)
            return s.merge(c, a, b, e)
    ex2 = ADExec(src, "term", sc, contracts={"Aggregated.grouped_terms": GroupedContract()}, interfaces=W.INTERFACES, inline=set(), loops={}, fnname=fq2)
    outs2 = ex2.run_fn(fn2, HPath({"self": RefV(self_, "Aggregated"), "term": RefV(term, "Term")}, [self_ != NONE, term != NONE], H0))
    emit(run, ex2, fq2, [], RP)
    key = NAME[term]
    for i, (kind, val, q) in enumerate(outs2):
        tag = f"[path{i}]"
        if kind == "raise":
            run.add(Obl(f"{fq2}/raises.none{tag}", q.pc, z3.BoolVal(False), fn=fq2, meta={"replay": RP})); continue
        want = z3.If(seen(L)[key], Act.a_degree(gval(L)[key]), x2xr(xr.const(0.0)))
        run.add(Obl(f"{fq2}/ensures.degree_of_the_group_named_like_the_term_or_zero{tag}", q.pc + [canon(Act.a_degree(gval(L)[key]))], x2xr(ex2.num(val).x) == want, fn=fq2, meta={"replay": RP}))
    run.add(static(f"{fq2}/modifies", not ex2.writes, f"heap fields written: {sorted(ex2.writes)}", fn=fq2))
    # UnboundedSum().compute(a, b) == a + b is proved in C04 (`norm.UnboundedSum.compute/ensures.formula`); here the operator is abstract


def build(run):
    run.assume("A-REAL", "A-NP", "A-PY", "A-MSG", "A-LISTVAL", "A-ACTVAL", "A-WF")
    plan = [(f"defuzzifier.{c}.defuzzify", (lambda c: (lambda r: verify_defuzzify(r, c)))(c)) for c in ("WeightedAverage", "WeightedSum")]
    plan += [("term.tsukamoto_at_zero", verify_tsukamoto_at_zero), ("defuzzifier.WeightedDefuzzifier.infer_type", verify_infer_type_leaves),
             ("term.Aggregated.grouped_terms", verify_grouped_terms)]
    for fq, f in plan:
        try:
            f(run)
        except ANALYSIS as ex_:
            run.add(undecided(f"{fq}/subset", f"outside the verified subset: {ex_}", fn=fq, meta={"replay": RP}))
        except NotFound as ex_:
            run.add(static(f"{fq}/exists", False, f"function under contract not found: {ex_}", fn=fq))
    # the Tsukamoto branch multiplies each weight with term.tsukamoto(weight): the inverses themselves (finite, membership(tsukamoto(y)) = y, monotone) are the
    # obligations of C11, included here because a weighted Tsukamoto result is only as right as they are
    from props import C11
    C11.build(run)
    budget = 300 if run.tier == "quick" else 6000
    run.bounded("defuzzifier.Weighted*/grouped_weighted.runtime", W_N, "replay_weighted", [dict(seed=run.seed, budget=budget)],
                bound=f"{budget} random fuzzy outputs of 0-6 activations over 1-4 Constant/Linear/Function, monotonic or non-monotonic terms with repetitions x every aggregation operator or none x "
                      "{Automatic, TakagiSugeno, Tsukamoto} x both defuzzifiers x scalar and batch degrees; grouping, inferred kind, explicit kind, result, fuzzy output not mutated, repeated calls")


if __name__ == "__main__":
    sys.exit(main("C10", build, "Weighted defuzzifiers compute the grouped weighted average / sum"))
