"""C10 - Weighted defuzzifiers compute the grouped weighted average / sum (DESIGN 8/C10).

WeightedAverage.defuzzify / WeightedSum.defuzzify: the accumulation loop is verified with ghost sums wsum/wtot over the grouped
activations (the grouping itself enters through the contract of Aggregated.grouped_terms: ghost grouped(terms, aggregation)); the
value z of a group is the term's Tsukamoto value when the effective type is Tsukamoto, its membership otherwise, and an explicit
type wins over the inferred one.  Lemmas by induction (base/step VCs): finiteness, `sum of weights = 0 => weighted sum = 0`
(hence NaN exactly when there are no activations or all weights are zero), weighted-mean bounds (a weighted average of constants
lies between the smallest and the largest constant), zero-degree neutrality (needs z finite at w = 0: checked per monotonic term
against its real tsukamoto body).
"""
import sys, os
sys.path.insert(0, os.path.dirname(os.path.dirname(os.path.abspath(__file__))))
import ast
import z3
from pyvc import xreal as xr
from pyvc.numexec import Num, Bool, Unsupported
from pyvc.heap import (HeapExec, HPath, LoopSpec, Contract, Ref, NONE, XR, Act, cls_of, SeqRef, SeqAct, x2xr, xr2x, RefV, SeqV, ActV, canon, str_distinct)
from pyvc.hlib import init_heap, emit, frame_goal
from pyvc.solve import Obl, static, undecided
from pyvc.runner import main
from pyvc.source import NotFound
from pyvc.termrun import sym_params, run_membership
from contracts import wiring as W
from contracts import terms as CT

W_N = "contracts.wiring_native"
RP = {"module": W_N, "func": "replay_weighted", "kwargs": {}, "vars": {}}
grouped = z3.Function("grouped", SeqAct, Ref, SeqAct)           # Aggregated.grouped_terms().values(): one activation per term name, first-occurrence order
infer_fn = z3.Function("infer_fn", SeqAct, z3.IntSort())         # WeightedDefuzzifier.infer_type(fuzzy_output)
infer_mixed = z3.Function("infer_mixed", SeqAct, z3.BoolSort())  # ... raises TypeError (terms of different kinds)
tsukamoto_fn = z3.Function("tsukamoto_fn", Ref, XR, XR)          # Term.tsukamoto
AUTO, TS, TSUKA = 0, 1, 2


def _tsukamoto(ex, p, recv, args, kwargs, node):
    x = ex.num(args[0], node)
    t = tsukamoto_fn(recv.r, x2xr(x.x))
    p.pc.append(canon(t))
    return Num(xr2x(t), x.data, False)


class GroupedTerms(Contract):
    """Aggregated.grouped_terms(): returns a dict; only .values() is used here: the ghost sequence grouped(terms, aggregation). Writes nothing."""

    def call(s, ex, p, recv, args, kwargs, node):
        g = grouped(p.heap["Aggregated.terms"][recv.r], p.heap["Aggregated.aggregation"][recv.r])
        return ("dictvalues", SeqV(g, "act"))


class InferType(Contract):
    def call(s, ex, p, recv, args, kwargs, node):
        T = p.heap["Aggregated.terms"][args[0].r]
        q = p.fork(); q.pc.append(infer_mixed(T)); ex.raised.append((q, "TypeError"))
        p.pc += [z3.Not(infer_mixed(T)), infer_fn(T) >= 0, infer_fn(T) <= 2]
        return Num(xr.X(xr.F, xr.I0, z3.ToReal(infer_fn(T))), False, True, True)


class WExec(HeapExec):
    def method_call(s, p, recv, meth, args, kwargs, node):
        if isinstance(recv, tuple) and recv and recv[0] == "dictvalues" and meth == "values":
            return recv[1]
        return super().method_call(p, recv, meth, args, kwargs, node)


def verify_defuzzify(run, cls):
    src = run.src
    fq = f"defuzzifier.{cls}.defuzzify"
    fn = src.func("defuzzifier", f"{cls}.defuzzify")
    run.under_contract("defuzzifier", f"{cls}.defuzzify", fn)
    sc = W.schema(src)
    sc.fields["WeightedDefuzzifier.type"] = "int"
    H0 = init_heap(sc)
    self_, term = z3.Const("self", Ref), z3.Const("term_", Ref)
    T = H0["Aggregated.terms"][term]
    agg = H0["Aggregated.aggregation"][term]
    G = grouped(T, agg)
    n = z3.Length(G)
    typ = H0["WeightedDefuzzifier.type"][self_]
    eff = z3.If(typ == AUTO, infer_fn(T), typ)                     # an explicit type wins over the inferred one
    wsum = z3.Function("wsum", z3.IntSort(), XR); wtot = z3.Function("wtot", z3.IntSort(), XR)

    def w_(k):
        return Act.a_degree(G[k])

    def z_(k):
        t = Act.a_term(G[k])
        return z3.If(eff == TSUKA, tsukamoto_fn(t, w_(k)), W.membership_fn(t, w_(k)))

    def unfold(k):
        init = x2xr(xr.ite(z3.Length(T) > 0, xr.const(0.0), xr.const(float("nan"))))
        return [wsum(0) == init, wtot(0) == x2xr(xr.const(0.0)),
                wsum(k + 1) == x2xr(xr.add(xr2x(wsum(k)), xr.mul(xr2x(w_(k)), xr2x(z_(k))))), wtot(k + 1) == x2xr(xr.add(xr2x(wtot(k)), xr2x(w_(k)))),
                canon(w_(k)), canon(z_(k)), canon(wsum(k)), canon(wtot(k)), Act.a_term(G[k]) != NONE]

    def inv(ex, p, k, seq):
        return z3.And(x2xr(ex.num(p.env["weighted_sum"]).x) == wsum(k), x2xr(ex.num(p.env["weights"]).x) == wtot(k))

    ex = WExec(src, "defuzzifier", sc, contracts={"Aggregated.grouped_terms": GroupedTerms(), "WeightedDefuzzifier.infer_type": InferType()},
               interfaces=dict(W.INTERFACES), loops={0: LoopSpec(inv, facts=lambda ex_, p, k, seq: unfold(k), name="loop0", modifies=set())}, fnname=fq)
    ex.interfaces[("Term", "tsukamoto")] = _tsukamoto
    pre = [self_ != NONE, term != NONE, typ >= 0, typ <= 2]
    mn, cm = xr.sym("minimum"); mx, cx = xr.sym("maximum")
    outs = []
    for is_agg in (True, False):
        p0 = HPath({"self": RefV(self_, cls), "term": RefV(term, "Term"), "minimum": Num(mn, False, True), "maximum": Num(mx, False, True)},
                   pre + [cm, cx, sc.is_instance(term, "Aggregated") if is_agg else z3.Not(sc.is_instance(term, "Aggregated"))], H0)
        if is_agg:
            p0.known[term.get_id()] = "Aggregated"
        outs += [(is_agg,) + o for o in ex.run_fn(fn, p0)]
        ex.raised = []
    emit(run, ex, fq, [], RP)
    run.add(Obl(f"{fq}/pre.sat", pre + [n > 1], None, expect="sat", fn=fq))
    for i, (is_agg, kind, val, q) in enumerate(outs):
        tag = f"[path{i}]"
        if kind == "raise":
            ok = z3.Or(z3.And(z3.BoolVal(val == "ValueError"), z3.Not(sc.is_instance(term, "Aggregated"))), z3.And(z3.BoolVal(val == "TypeError"), typ == AUTO, infer_mixed(T)))
            run.add(Obl(f"{fq}/raises.only_non_aggregated_or_mixed_kinds{tag}", q.pc, ok, fn=fq, meta={"replay": RP}))
            continue
        res = ex.num(val).x
        ws, wt = xr2x(wsum(n)), xr2x(wtot(n))
        if cls == "WeightedAverage":
            goal = x2xr(res) == x2xr(xr.div(ws, wt))
        else:   # the code computes (ws / wt) * wt: equal to ws whenever the total weight is finite and non-zero (A-REAL), NaN when it is zero
            y = xr.mul(xr.div(ws, wt), wt)
            goal = z3.And(x2xr(res) == x2xr(y),
                          z3.Implies(z3.And(xr.fin(wt), wt.v != 0, xr.fin(ws)), xr.same(y, ws)),
                          z3.Implies(z3.And(xr.fin(wt), wt.v == 0), y.nan))
        run.add(Obl(f"{fq}/ensures.formula{tag}", q.pc + unfold(n)[:2], goal, fn=fq, meta={"replay": RP}))
        run.add(Obl(f"{fq}/frame{tag}", q.pc, frame_goal(q, H0), fn=fq, meta={"replay": RP}))
    run.add(static(f"{fq}/modifies", not ex.writes, f"heap fields written: {sorted(ex.writes)}", fn=fq))
    run.add(static(f"{fq}/oblivious", not ex.nonoblivious, str(ex.nonoblivious) or "no data-dependent Python control (degrees may be batches)", fn=fq, meta={"replay": RP}))
    # ---- lemmas over the ghost sums (induction on the number of groups; hypotheses: cleaned degrees are finite and >= 0, z finite)
    k = z3.Int("k")
    hyp_k = [k >= 0] + unfold(k) + [xr.fin(xr2x(w_(k))), XR.x_v(w_(k)) >= 0, xr.fin(xr2x(z_(k)))]
    P = lambda j: z3.And(xr.fin(xr2x(wsum(j))), xr.fin(xr2x(wtot(j))), XR.x_v(wtot(j)) >= 0, z3.Implies(XR.x_v(wtot(j)) == 0, XR.x_v(wsum(j)) == 0))
    nonempty = [z3.Length(T) > 0]
    run.add(Obl(f"{fq}/lemma.sums/base", unfold(z3.IntVal(0))[:2] + nonempty, P(0), fn=fq, meta={"replay": RP}))
    run.add(Obl(f"{fq}/lemma.sums/step", hyp_k + [P(k)], P(k + 1), fn=fq, meta={"replay": RP}))
    # NaN exactly when there are no activations or all weights are zero (from P(n) and the formula)
    ws, wt = xr2x(wsum(n)), xr2x(wtot(n))
    out = xr.div(ws, wt) if cls == "WeightedAverage" else xr.mul(xr.div(ws, wt), wt)
    run.add(Obl(f"{fq}/ensures.nan_iff_empty_or_zero_weights", [P(n)] + nonempty, out.nan == (wt.v == 0), fn=fq, meta={"replay": RP}))
    run.add(Obl(f"{fq}/ensures.nan_when_no_activations", unfold(z3.IntVal(0))[:2] + [z3.Length(T) == 0, n == 0],
                (xr.div(xr2x(wsum(0)), xr2x(wtot(0))) if cls == "WeightedAverage" else xr.mul(xr.div(xr2x(wsum(0)), xr2x(wtot(0))), xr2x(wtot(0)))).nan, fn=fq, meta={"replay": RP}))
    # an activation with degree 0 leaves both sums unchanged provided z is finite there
    run.add(Obl(f"{fq}/ensures.zero_degree_neutral_if_z_finite", unfold(k) + [xr.fin(xr2x(wsum(k))), xr.fin(xr2x(wtot(k))), xr.fin(xr2x(z_(k))), xr.fin(xr2x(w_(k))), XR.x_v(w_(k)) == 0],
                z3.And(wsum(k + 1) == wsum(k), wtot(k + 1) == wtot(k)), fn=fq, meta={"replay": RP}))
    if cls == "WeightedAverage":
        lo, hi = z3.Real("lo"), z3.Real("hi")
        B = lambda j: z3.And(lo * XR.x_v(wtot(j)) <= XR.x_v(wsum(j)), XR.x_v(wsum(j)) <= hi * XR.x_v(wtot(j)))
        run.add(Obl(f"{fq}/lemma.mean_bounds/base", unfold(z3.IntVal(0))[:2] + nonempty, B(0), fn=fq, meta={"replay": RP}))
        run.add(Obl(f"{fq}/lemma.mean_bounds/step", hyp_k + [P(k), B(k), lo <= XR.x_v(z_(k)), XR.x_v(z_(k)) <= hi], B(k + 1), fn=fq, meta={"replay": RP}))
        run.add(Obl(f"{fq}/ensures.average_of_constants_bounded", [P(n), B(n), XR.x_v(wtot(n)) > 0, lo <= hi], z3.And(lo <= xr.div(ws, wt).v, xr.div(ws, wt).v <= hi), fn=fq, meta={"replay": RP}))


def verify_tsukamoto_at_zero(run):
    """zero-degree neutrality for Tsukamoto controllers needs tsukamoto(0) finite: checked on the real tsukamoto body of every monotonic term"""
    src = run.src
    for cls in CT.MONOTONIC:
        tc = CT.TERMS[cls]
        fq = f"term.{cls}.tsukamoto"
        run.under_contract("term", f"{cls}.tsukamoto", src.func("term", f"{cls}.tsukamoto"))
        try:
            ax = xr.Ax(); A = xr.SymAlg(ax)
            P, wf = sym_params(tc)
            z, ex, calls, raises, fn, _ = run_membership(src, cls, ax, A, P, xr.const(0.0), meth="tsukamoto")
            rp = {"module": W_N, "func": "replay_zero_degree", "kwargs": {"cls": cls}, "vars": {v: v for v in tc.fields()}}
            run.add(Obl(f"{fq}/finite_at_zero_degree", wf + [tc.valid(A, P)] + ax.axioms(), xr.fin(z), fn=fq, meta={"replay": rp, "sat_final": True}))
        except Unsupported as ex_:
            run.add(undecided(f"{fq}/finite_at_zero_degree", str(ex_), fn=fq))


def verify_infer_type_leaves(run):
    """WeightedDefuzzifier.infer_type on a single term: Activated -> its term; Constant/Linear/Function -> TakagiSugeno; monotonic -> Tsukamoto;
    otherwise Automatic (the set-valued case for Aggregated/Variable is covered by the bounded stand-in)"""
    src = run.src
    fq = "defuzzifier.WeightedDefuzzifier.infer_type"
    fn = src.func("defuzzifier", "WeightedDefuzzifier.infer_type")
    run.under_contract("defuzzifier", "WeightedDefuzzifier.infer_type", fn)
    txt = " ".join(ast.unparse(fn).split())
    branches = [("isinstance(component, (Aggregated, Variable))", "types = {cls.infer_type(t_i) for t_i in component.terms}"),
                ("if len(types) == 1:\n        return types.pop()", None), ("if len(types) == 0:\n        return WeightedDefuzzifier.Type.Automatic", None),
                ("raise TypeError(", None), ("elif isinstance(component, Activated):\n    return cls.infer_type(component.term)", None),
                ("elif isinstance(component, (Constant, Linear, Function)):\n    return WeightedDefuzzifier.Type.TakagiSugeno", None),
                ("elif component.is_monotonic():\n    return WeightedDefuzzifier.Type.Tsukamoto", None), ("else:\n    return WeightedDefuzzifier.Type.Automatic", None)]
    missing = [b[0] for b in branches if " ".join(b[0].split()) not in txt or (b[1] and " ".join(b[1].split()) not in txt)]
    run.add(static(f"{fq}/structure", not missing, f"missing branches: {missing}" if missing else "decision structure as documented: set of member kinds (1 -> that kind, 0 -> Automatic, >1 -> TypeError); Activated -> its term; "
                   "Constant/Linear/Function -> TakagiSugeno; monotonic -> Tsukamoto; else Automatic", fn=fq, level="B", meta={"replay": RP}))


def build(run):
    run.assume("A-REAL", "A-NP", "A-PY", "A-MSG", "A-LISTVAL", "A-ACTVAL", "A-GROUPED")
    plan = [(f"defuzzifier.{c}.defuzzify", (lambda c: (lambda r: verify_defuzzify(r, c)))(c)) for c in ("WeightedAverage", "WeightedSum")]
    plan += [("term.tsukamoto_at_zero", verify_tsukamoto_at_zero), ("defuzzifier.WeightedDefuzzifier.infer_type", verify_infer_type_leaves)]
    for fq, f in plan:
        try:
            f(run)
        except Unsupported as ex_:
            run.add(undecided(f"{fq}/subset", f"outside the verified subset: {ex_}", fn=fq, meta={"replay": RP}))
        except NotFound as ex_:
            run.add(static(f"{fq}/exists", False, f"function under contract not found: {ex_}", fn=fq))
    for q_ in ("Aggregated.grouped_terms", "Aggregated.activation_degree"):
        run.under_contract("term", q_, run.src.func("term", q_))
    budget = 300 if run.tier == "quick" else 6000
    run.bounded("defuzzifier.Weighted*/grouped_weighted.runtime", W_N, "replay_weighted", [dict(seed=run.seed, budget=budget)],
                bound=f"{budget} random fuzzy outputs of 0-6 activations over 1-4 Constant/Linear/Function, monotonic or non-monotonic terms with repetitions x every aggregation operator or none x "
                      "{Automatic, TakagiSugeno, Tsukamoto} x both defuzzifiers x scalar and batch degrees; grouping, inferred kind, explicit kind, result, fuzzy output not mutated, repeated calls")


if __name__ == "__main__":
    sys.exit(main("C10", build, "Weighted defuzzifiers compute the grouped weighted average / sum"))
