"""C05 - Hedges compute their formulas and keep degrees in [0,1] (DESIGN 8/C05)."""
import sys, os
sys.path.insert(0, os.path.dirname(os.path.dirname(os.path.abspath(__file__))))
import ast
import z3
from pyvc import xreal as xr
from pyvc.numexec import Unsupported, ANALYSIS
from pyvc.numrun import exec_method, merged_return
from pyvc.solve import Obl, static, undecided
from pyvc.runner import main
from pyvc.source import NotFound
from contracts import hedges as C


def hedge(run, cls, ax, x):
    outs, ex, fn, module = exec_method(run.src, cls, "hedge", ax, {}, [x])
    v, raises = merged_return(outs, ex, f"{cls}.hedge")
    if raises:
        raise Unsupported(f"{cls}.hedge has raising paths")
    return v, ex


def class_set(run, name, in_source, covered, what):
    """every class the contracts cover must exist (a missing one is a violation: the statement names it); a class the source has IN ADDITION has no
    contract - nothing is claimed about it: undecided, never an alarm"""
    missing, extra = sorted(set(covered) - set(in_source)), sorted(set(in_source) - set(covered))
    if missing or not extra:
        run.add(static(name, not missing, f"{what} in source {sorted(in_source)}; contracts cover {sorted(covered)}" + (f"; MISSING {missing}" if missing else "")))
    else:
        run.add(undecided(name, f"{what} without a contract: {extra} (new classes are outside what this check decides)"))


def build(run):
    run.assume("A-REAL", "A-NP", "A-PY", "A-LIFT")
    src = run.src
    concrete = [c for c in src.subclasses("hedge", "Hedge") if c not in ("HedgeLambda", "HedgeFunction")]
    class_set(run, "hedge/classes", concrete, list(C.HEDGES), "hedges")
    inunit = lambda t: z3.And(xr.fin(t), t.v >= 0, t.v <= 1)
    code = {}
    for cls in C.HEDGES:
        fq = f"hedge.{cls}.hedge"
        if not src.has_func("hedge", f"{cls}.hedge"):
            run.add(static(f"{fq}/exists", False, "function under contract not found in the source")); continue
        run.under_contract("hedge", f"{cls}.hedge", src.func("hedge", f"{cls}.hedge"))
        try:
            ax = xr.Ax(); A = xr.SymAlg(ax)
            x, x2 = xr.finsym("x"), xr.finsym("x2")
            pre, pre2 = [C.unit(A, x)], [C.unit(A, x, x2)]
            y, ex = hedge(run, cls, ax, x)
            y2, _ = hedge(run, cls, ax, x2)
            code[cls] = lambda ax_, v, cls=cls: hedge(run, cls, ax_, v)[0]
            rp = lambda clause, vs, **kw: {"replay": {"module": "contracts.hedges", "func": "replay", "kwargs": dict(clause=clause, hedge=cls, **kw),
                                                     "vars": {v: v for v in vs}}, "sat_final": True}
            run.add(Obl(f"{fq}/pre.sat", pre2, None, expect="sat", fn=fq))
            run.add(static(f"{fq}/oblivious", not ex.nonoblivious, str(ex.nonoblivious) if ex.nonoblivious else
                           "no Python control decision depends on x (element-wise on arrays by A-LIFT)", fn=fq, meta=rp("elementwise", ["x", "x2"])))
            for nm, pc, goal in ex.safety:
                run.add(Obl(f"{fq}/safety/{nm}", pre + pc, goal, fn=fq))
            spec = C.HEDGES[cls](A, x)
            axs = ax.axioms()
            run.add(Obl(f"{fq}/ensures.formula", pre + axs, xr.same(y, spec), fn=fq, meta=rp("formula", "x")))
            run.add(Obl(f"{fq}/ensures.range", pre + axs, inunit(y), fn=fq, meta=rp("range", "x")))
            y0, _ = hedge(run, cls, ax, xr.const(0.0)); y1, _ = hedge(run, cls, ax, xr.const(1.0))
            e0, e1 = (1.0, 0.0) if cls == "Not" else (1.0, 1.0) if cls == "Any" else (0.0, 1.0)
            run.add(Obl(f"{fq}/ensures.fixes_0_1", ax.axioms(), z3.And(xr.same(y0, xr.const(e0)), xr.same(y1, xr.const(e1))), fn=fq, meta=rp("fixes", [])))
            mono = xr.ge(y, y2) if cls == "Not" else xr.le(y, y2)
            run.add(Obl(f"{fq}/ensures.monotone", pre2 + [xr.le(x, x2)] + ax.axioms(), mono, fn=fq, meta=rp("monotone", ["x", "x2"])))
        except ANALYSIS as ex_:
            run.add(undecided(f"{fq}/subset", f"outside the verified subset: {ex_}", fn=fq,
                              meta={"replay": {"module": "contracts.hedges", "func": "replay", "kwargs": {"clause": "all", "hedge": cls}, "vars": {}}}))
    # relations between hedges, over the code's own symbolic results; inner results are used through `ensures.range`
    try:
        ax = xr.Ax(); A = xr.SymAlg(ax); x = xr.finsym("x"); pre = [C.unit(A, x)]
        rp = lambda clause, cls, **kw: {"replay": {"module": "contracts.hedges", "func": "replay", "kwargs": dict(clause=clause, hedge=cls, **kw), "vars": {"x": "x"}}}
        if "Very" in code and "Somewhat" in code:
            v, s_ = code["Very"](ax, x), code["Somewhat"](ax, x)
            run.add(Obl("hedge/law.very_le_x_le_somewhat", pre + ax.axioms(), z3.And(xr.le(v, x), xr.le(x, s_)), meta=rp("very_le_x_le_somewhat", "Very")))
        for f, g in C.INVERSES:
            if f in code and g in code:
                ax = xr.Ax(); A = xr.SymAlg(ax)
                fx = xr.finite_part(code[f](ax, x)); gx = xr.finite_part(code[g](ax, x))
                gf, fg = code[g](ax, fx), code[f](ax, gx)
                run.add(Obl(f"hedge/law.inverse[{g}.{f}]", pre + [C.unit(A, fx, gx)] + ax.axioms(), xr.same(gf, x), meta=rp("inverse", f, other=g)))
                run.add(Obl(f"hedge/law.inverse[{f}.{g}]", pre + [C.unit(A, fx, gx)] + ax.axioms(), xr.same(fg, x), meta=rp("inverse", f, other=g)))
        if "Not" in code:
            ax = xr.Ax(); A = xr.SymAlg(ax)
            nx = xr.finite_part(code["Not"](ax, x))
            run.add(Obl("hedge/law.not_involution", pre + [C.unit(A, nx)], xr.same(code["Not"](ax, nx), x), meta=rp("involution", "Not")))
    except ANALYSIS as ex_:
        run.add(undecided("hedge/laws/subset", f"outside the verified subset: {ex_}"))
    # registration (static on the source + bounded run-time confirmation): HedgeFactory registers h().name -> h and Hedge.name
    # is the lower-cased class name
    try:
        nm = src.func("hedge", "Hedge.name", "getter")
        body = [s for s in nm.body if not (isinstance(s, ast.Expr) and isinstance(s.value, ast.Constant))]
        ok1 = len(body) == 1 and ast.unparse(body[0]) == "return self.__class__.__name__.lower()"
        init = src.func("factory", "HedgeFactory.__init__")
        txt = ast.unparse(init)
        ok2 = "{h().name: h for h in self.import_from(hedge, Hedge)}" in txt and "super().__init__(constructors=hedges)" in txt
        overrides = [c for c in C.HEDGES if src.has_func("hedge", f"{c}.name")]
        run.add(static("factory.HedgeFactory/registration", ok1 and ok2 and not overrides and all(C.NAMES[c] == c.lower() for c in C.HEDGES),
                       f"Hedge.name = lower-cased class name: {ok1}; HedgeFactory registers h().name -> h: {ok2}; name overridden in {overrides}"))
    except NotFound as ex_:
        run.add(static("factory.HedgeFactory/registration", False, f"not found: {ex_}"))
    ns = 400 if run.tier == "quick" else 20000
    run.bounded("hedge.*.hedge/sampled_formula_and_arrays.runtime", "contracts.hedges", "replay", [dict(clause="sampled", hedge=c, vals={"seed": run.seed, "n": ns}) for c in C.HEDGES],
                bound=f"per hedge: {ns} exact dyadic points k/2^20 and {ns} random doubles of [0,1] plus 0.5 and its neighbours - the documented formula to 2 ulp, not(not(x)) == x on the "
                      "grid; arrays of shape (), (4,), (2,3), (2,1,1) against their elements one by one (same shape); a second call after the caller scaled the first result in place")
    run.bounded("factory.HedgeFactory/registration.runtime", "contracts.hedges", "replay", [dict(clause="registration", hedge="Any", vals={})],
                bound="the 6 registered hedge names, constructed through the live factory (A-REFLECT cross-check)")


if __name__ == "__main__":
    sys.exit(main("C05", build, "Hedges compute their formulas and keep degrees in [0,1]"))
