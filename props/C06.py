"""C06 - Rule antecedents mean what the rule grammar says (DESIGN 8/C06)."""
import sys, os
sys.path.insert(0, os.path.dirname(os.path.dirname(os.path.abspath(__file__))))
import ast
import z3
from pyvc import xreal as xr
from pyvc.numexec import Num, Bool, Unsupported, ANALYSIS
from pyvc.heap import (HeapExec, HPath, LoopSpec, Contract, Ref, NONE, XR, Act, cls_of, SeqRef, SeqAct, x2xr, xr2x, RefV, SeqV, ActV, canon, strc, str_distinct)
from pyvc.hlib import init_heap, emit, frame_goal
from pyvc.solve import Obl, static, undecided
from pyvc.runner import main
from pyvc.source import NotFound
from contracts import wiring as W

W_N = "contracts.wiring_native"


class SelfContract(Contract):
    """the recursive calls of Antecedent.activation_degree are replaced by its own contract (requires a well-formed node of smaller
    height; returns sem_node)"""

    def __init__(s, ctx):
        s.ctx = ctx

    def call(s, ex, p, recv, args, kwargs, node):
        c = s.ctx
        conj, disj, nd = args[0], args[1], args[2]
        cr, dr = W._ref(conj), W._ref(disj)
        ex.oblige(f"rec.pre/line{node.lineno - ex.fn_line}:recursive call on a well-formed node", p, z3.And(nd.r != NONE, W.wf_expr(nd.r, cr, dr)))
        ex.oblige(f"rec.decreases/line{node.lineno - ex.fn_line}:height decreases and stays non-negative", p, z3.And(W.height(nd.r) >= 0, W.height(nd.r) < c["measure"]))
        ex.oblige(f"rec.args/line{node.lineno - ex.fn_line}:connectives passed unchanged", p, z3.And(cr == c["conj"], dr == c["disj"], recv.r == c["self"]))
        t = W.sem_node(nd.r, cr, dr, p.heap["Aggregated.terms"], p.heap["Variable._value"])
        p.pc.append(canon(t))
        return Num(xr2x(t), True, False)


def verify_activation_degree(run):
    src = run.src
    fq = "rule.Antecedent.activation_degree"
    fn = src.func("rule", "Antecedent.activation_degree")
    run.under_contract("rule", "Antecedent.activation_degree", fn)
    sc = W.schema(src)
    H0 = init_heap(sc)
    self_ = z3.Const("self", Ref); conj = z3.Const("conjunction", Ref); disj = z3.Const("disjunction", Ref); node = z3.Const("node", Ref)
    T, V = H0["Aggregated.terms"], H0["Variable._value"]
    expr = H0["Antecedent.expression"][self_]
    rp = {"module": W_N, "func": "replay_antecedent", "kwargs": {}, "vars": {}}

    def loop_inv(which):
        def inv(ex, p, j, seq):
            ent = ex.entry[which]
            d_in = ex.num(ent.env["result"]).x
            return x2xr(ex.num(p.env["result"]).x) == W.hedged(seq, j, x2xr(d_in))
        return inv

    def loop_facts(which):
        def facts(ex, p, j, seq):
            ent = ex.entry[which]
            d_in = x2xr(ex.num(ent.env["result"]).x)
            h = seq[z3.Length(seq) - 1 - j]
            return W.hedged_unfold(seq, j, d_in) + [h != NONE, W.any_hedge_axiom(sc, h, W.hedged(seq, j, d_in))]
        return facts

    for mode in ("toplevel", "node"):
        ctx = {"self": self_, "conj": conj, "disj": disj}
        ex = HeapExec(src, "rule", sc, interfaces=W.INTERFACES, inline={"Variable.__len__"},
                      loops={0: LoopSpec(loop_inv(0), facts=loop_facts(0), name="loop0", modifies=set()),
                             1: LoopSpec(loop_inv(1), facts=loop_facts(1), name="loop1", modifies=set())}, fnname=fq)
        ex.contracts = {"Antecedent.activation_degree": SelfContract(ctx)}
        if mode == "toplevel":
            # activation_degree(conjunction, disjunction): node is None; a loaded antecedent has a well-formed expression
            ctx["measure"] = W.height(expr) + 1
            pre = [self_ != NONE, z3.Implies(expr != NONE, W.wf_expr(expr, conj, disj))] + W.sem_unfold(sc, H0, expr, conj, disj, T, V)
            nodev = None
        else:
            ctx["measure"] = W.height(node)
            pre = [self_ != NONE, node != NONE, W.wf_expr(node, conj, disj)] + W.sem_unfold(sc, H0, node, conj, disj, T, V)
            hs = H0["Proposition.hedges"][node]
            pre += W.hedged_unfold(hs, z3.Length(hs), x2xr(xr.const(float("nan"))))[:1]
            nodev = RefV(node, "Expression")
        p0 = HPath({"self": RefV(self_, "Antecedent"), "conjunction": RefV(conj, "TNorm"), "disjunction": RefV(disj, "SNorm"), "node": nodev}, pre, H0)
        outs = ex.run_fn(fn, p0)
        tag = f"[{mode}]"
        emit(run, ex, fq + tag, [], rp)
        run.add(Obl(f"{fq}{tag}/pre.sat", pre + str_distinct(), None, expect="sat", fn=fq))
        target = expr if mode == "toplevel" else node
        spec = W.sem_node(target, conj, disj, T, V)
        for i, (kind, val, q) in enumerate(outs):
            if kind == "raise":
                if mode == "toplevel":
                    # not loaded -> RuntimeError; nothing else raises for a loaded, well-formed antecedent
                    run.add(Obl(f"{fq}{tag}/raises.RuntimeError_iff_unloaded[path{i}]", q.pc + str_distinct(), z3.And(z3.BoolVal(val == "RuntimeError"), expr == NONE), fn=fq, meta={"replay": rp}))
                else:
                    run.add(Obl(f"{fq}{tag}/raises.none_when_wellformed[{val}@path{i}]", q.pc + str_distinct(), z3.BoolVal(False), fn=fq, meta={"replay": rp}))
                continue
            hs = H0["Proposition.hedges"][target]
            extra = W.hedged_unfold(hs, z3.Length(hs), x2xr(xr.const(float("nan"))))[:1] + str_distinct()
            run.add(Obl(f"{fq}{tag}/ensures.sem[path{i}]", q.pc + extra, x2xr(ex.num(val).x) == spec, fn=fq, meta={"replay": rp}))
            run.add(Obl(f"{fq}{tag}/frame[path{i}]", q.pc, frame_goal(q, H0), fn=fq, meta={"replay": rp}))
        run.add(static(f"{fq}{tag}/modifies", not ex.writes, f"heap fields written: {sorted(ex.writes)}", fn=fq))
        run.add(static(f"{fq}{tag}/oblivious", not ex.nonoblivious, str(ex.nonoblivious) or "no data-dependent control", fn=fq))


class ActivationDegreeContract(Contract):
    """Antecedent.activation_degree(conjunction, disjunction) at call sites: requires a loaded, well-formed antecedent; returns the
    value of its expression on the current fuzzy outputs and input values; writes nothing (proved above)."""

    def call(s, ex, p, recv, args, kwargs, node):
        H = p.heap
        cr, dr = W._ref(args[0]), W._ref(args[1])
        e = H["Antecedent.expression"][recv.r]
        ex.oblige(f"call.pre/line{node.lineno - ex.fn_line}:Antecedent.activation_degree requires a loaded antecedent", p, e != NONE)
        t = W.sem_node(e, cr, dr, H["Aggregated.terms"], H["Variable._value"])
        # sem_fn(antecedent, ...) is by definition the value of the antecedent's expression
        p.pc += [canon(t), W.sem_fn(recv.r, cr, dr, H["Aggregated.terms"], H["Variable._value"]) == t]
        return Num(xr2x(t), True, False)


def verify_activate_with(run):
    src = run.src
    fq = "rule.Rule.activate_with"
    fn = src.func("rule", "Rule.activate_with")
    run.under_contract("rule", "Rule.activate_with", fn)
    sc = W.schema(src)
    H0 = init_heap(sc)
    self_ = z3.Const("self", Ref); conj = z3.Const("conjunction", Ref); disj = z3.Const("disjunction", Ref)
    ex = HeapExec(src, "rule", sc, contracts={"Antecedent.activation_degree": ActivationDegreeContract()}, interfaces=W.INTERFACES,
                  inline={"Rule.is_loaded", "Antecedent.is_loaded", "Consequent.is_loaded"}, fnname=fq)
    ant, cons = H0["Rule.antecedent"][self_], H0["Rule.consequent"][self_]
    pre = [self_ != NONE, ant != NONE, cons != NONE, canon(H0["Rule.weight"][self_])]
    p0 = HPath({"self": RefV(self_, "Rule"), "conjunction": RefV(conj, "TNorm"), "disjunction": RefV(disj, "SNorm")}, pre, H0)
    outs = ex.run_fn(fn, p0)
    rp = {"module": W_N, "func": "replay_antecedent", "kwargs": {}, "vars": {}}
    emit(run, ex, fq, [], rp)
    run.add(Obl(f"{fq}/pre.sat", pre, None, expect="sat", fn=fq))
    for i, (kind, val, q) in enumerate(outs):
        if kind == "raise":
            run.add(Obl(f"{fq}/raises.RuntimeError_iff_unloaded[path{i}]", q.pc, z3.And(z3.BoolVal(val == "RuntimeError"), z3.Not(W.loaded(H0, self_)), frame_goal(q, H0)), fn=fq, meta={"replay": rp}))
            continue
        d = W.fire(H0, self_, conj, disj)
        run.add(Obl(f"{fq}/ensures.weight_times_antecedent[path{i}]", q.pc,
                    z3.And(W.loaded(H0, self_), q.heap["Rule.activation_degree"][self_] == d, x2xr(ex.num(val).x) == d), fn=fq, meta={"replay": rp}))
        run.add(Obl(f"{fq}/frame[path{i}]", q.pc, z3.And(frame_goal(q, H0, {"Rule.activation_degree"}),
                                                       q.heap["Rule.activation_degree"] == z3.Store(H0["Rule.activation_degree"], self_, d)), fn=fq, meta={"replay": rp}))


def verify_and_or_table(run):
    """static: `and` binds tighter than `or`, both binary and left-associative (read from FunctionFactory._create_operators)"""
    src = run.src
    fn = src.func("factory", "FunctionFactory._create_operators")
    run.under_contract("factory", "FunctionFactory._create_operators", fn)
    rows = {}
    alias = {t.id: ast.unparse(st.value) for st in fn.body if isinstance(st, (ast.Assign, ast.AnnAssign)) and getattr(st, "value", None) is not None
             for t in (st.targets if isinstance(st, ast.Assign) else [st.target]) if isinstance(t, ast.Name)}
    for call in ast.walk(fn):
        if isinstance(call, ast.Call) and ast.unparse(call.func) == "Function.Element" and call.args:
            a0 = call.args[0]
            name = a0.value if isinstance(a0, ast.Constant) else {"Rule.AND": "and", "Rule.OR": "or"}.get(ast.unparse(a0), ast.unparse(a0))
            kw = {k.arg: k.value for k in call.keywords}
            prec = kw.get("precedence"); assoc = kw.get("associativity"); ar = kw.get("arity")
            rows[name] = (int(prec.args[0].value) if isinstance(prec, ast.Call) and (alias.get(prec.func.id) if isinstance(prec.func, ast.Name) else ast.unparse(prec.func)) == "self._precedence" else None,
                          (assoc.value if isinstance(assoc, ast.Constant) else ast.literal_eval(ast.unparse(assoc))) if assoc is not None else -1,
                          ar.value if isinstance(ar, ast.Constant) else None)
    # precedence(importance) = 100 - 10*importance: smaller importance binds tighter; default associativity -1 = left
    pf = src.func("factory", "FunctionFactory._precedence")
    pok = "return maximum - importance * step" in ast.unparse(pf)
    a, o = rows.get("and"), rows.get("or")
    ok = bool(a and o and pok and a[0] is not None and o[0] is not None and a[0] < o[0] and a[1] == -1 and o[1] == -1 and a[2] == 2 and o[2] == 2)
    run.add(static("factory.FunctionFactory/and_or_table", ok, f"and: (importance, associativity, arity) = {a}; or: {o}; precedence decreasing in importance: {pok}",
                   fn="factory.FunctionFactory._create_operators", meta={"replay": {"module": W_N, "func": "replay_antecedent", "kwargs": {}, "vars": {}}}))
    el = src.func("term", "Function.Element.__init__")
    dflt = {a.arg: d for a, d in zip(el.args.args[-len(el.args.defaults):], el.args.defaults)}
    run.add(static("term.Function.Element/default_associativity_left", "associativity" in dflt and ast.unparse(dflt["associativity"]) == "-1",
                   f"default associativity = {ast.unparse(dflt.get('associativity')) if 'associativity' in dflt else None} (-1 = left)"))
    cr = {k: src.class_const("rule", "Rule", k) if hasattr(src, "class_const") else None for k in ("AND", "OR")}


def build(run):
    run.assume("A-REAL", "A-NP", "A-PY", "A-MSG", "A-LOG", "A-LISTVAL", "A-ACTVAL", "A-WF", "A-STR", "A-POSTFIX")
    rp = {"module": W_N, "func": "replay_antecedent", "kwargs": {}, "vars": {}}
    # "a loaded rule": Rule.load rebuilds the expression tree unconditionally from the CURRENT antecedent text (driver shared with C13)
    from props import C13
    for fq, f in (("rule.Antecedent.activation_degree", verify_activation_degree), ("rule.Rule.activate_with", verify_activate_with),
                  ("factory.FunctionFactory/and_or_table", verify_and_or_table), ("rule.Rule.load", C13.verify_rule_load),
                  # postfix text -> tree: every node is the standard postfix reading of its own token span (proposition = variable is hedge* term with the hedges in
                  # text order; operator: right = the tree ending just before it, left = the tree ending where right begins) - driver shared with C16
                  ("rule.Antecedent.load", lambda r: __import__("props.C16", fromlist=["x"]).verify_antecedent_load(r, RP=rp))):
        try:
            f(run)
        except ANALYSIS as ex_:
            run.add(undecided(f"{fq}/subset", f"outside the verified subset: {ex_}", fn=fq, meta={"replay": rp}))
        except NotFound as ex_:
            run.add(static(f"{fq}/exists", False, f"function under contract not found: {ex_}", fn=fq))
    # WHERE every token of the antecedent ends up in the postfix text: each operand in its own step, each `and`/`or` at its first closer (the next operator
    # of the same parenthesis depth that does not bind tighter, or the closing parenthesis of its group) - loop invariants on the real shunting-yard loops
    from props import shunting
    try:
        shunting.verify_infix_order(run, rp)
    except ANALYSIS as ex_:
        run.add(undecided("term.Function.infix_to_postfix/order/subset", f"outside the verified subset: {ex_}", fn="term.Function.infix_to_postfix", meta={"replay": rp}))
    except NotFound as ex_:
        run.add(static("term.Function.infix_to_postfix/order/exists", False, f"function under contract not found: {ex_}", fn="term.Function.infix_to_postfix"))
    # bounded stand-in (level B): text -> tree -> value end to end, incl. infix->postfix (shunting-yard) which is not under contract
    depth = 3 if run.tier == "quick" else 4
    for q_ in ("Antecedent.load",):
        run.under_contract("rule", q_, run.src.func("rule", q_))
    run.under_contract("term", "Function.infix_to_postfix", run.src.func("term", "Function.infix_to_postfix"))
    run.bounded("rule.Antecedent.load+term.Function.infix_to_postfix/grammar.runtime", W_N, "replay_antecedent", [dict(depth=depth, seed=run.seed, budget=1500 if run.tier == "quick" else 40000)],
                bound=f"and/or expression skeletons up to depth {depth} over 1-3 variables, 0-3 hedges, `any`, minimal/full/redundant parentheses, with/without spaces around parentheses, non-commutative operator pairs, weights, enabled flags; reference recursive-descent parser of the documented grammar")


if __name__ == "__main__":
    sys.exit(main("C06", build, "Rule antecedents mean what the rule grammar says"))
