"""C15 - Python export reconstructs an identical engine (DESIGN 8/C15).

Deductive part, per class and for ALL field values: the real __init__ is executed on symbolic arguments (an arbitrary object of the class);
the real __repr__ is executed on it - `representation.as_constructor` runs the real Representation.construction_arguments over the
constructor parameters read from the AST - giving a constructor call; the call is bound to the real __init__ again (positional arguments in
order, then keywords, omitted parameters take their defaults); obligations:
  * every field of the rebuilt object equals the original's (an omitted parameter is omitted ONLY when the field equals the default;
    positional arguments land on the right parameter; a missing argument without default is never produced);
  * __repr__ of the rebuilt object is the same constructor call (the representation is a fixed point);
  * static: inf / nan / array are exported names of the package, so the alias-prefixed spellings resolve under every import statement.
Hypothesis of the statement: heights are 1 or farther from 1 than the comparison tolerance.
Bounded (B): exec/eval of the real exports of generated engines and every component x aliases x plain/encapsulated/formatted
(contracts/export_native.py).
"""
import sys, os
sys.path.insert(0, os.path.dirname(os.path.dirname(os.path.abspath(__file__))))
import ast
import z3
from pyvc import xreal as xr
from pyvc.xreal import X
from pyvc.numexec import Num, Bool, Obj, Unsupported, Path
from pyvc.heap import Str, strc, str_distinct, x2xr, canon
from pyvc.tokexec import Enum, MultiReturn, PyL
from pyvc.reprexec import ReprExec, SStr, LstV, RefO, CtorV, ArgV, veq, ListVal, ObjRef, NONE_REF, EMPTY_LIST
from pyvc.solve import Obl, static, undecided
from pyvc.runner import main
from pyvc.source import NotFound

N_ = "contracts.export_native"
NOT_DEMANDED = []
KNOWN = {"C15-1": ("py-exec-error:SyntaxError:class-name", "exporter.PythonExporter/encapsulated_class_name.witness"),
         "C15-2": ("py-exec-error:TypeError:class-shadows", "exporter.PythonExporter/encapsulated_class_shadows_library_name.witness")}
def RP(cls=None):
    kw = {"budget": 40, "skip_classes": NOT_DEMANDED + ([] if cls else [v[0] for v in KNOWN.values()])}       # a fallback search looks for something NEW
    if cls:
        kw["only_class"] = cls
    return {"replay": {"module": N_, "func": "replay_python_roundtrip", "kwargs": kw, "vars": {}}}

SKIP = {"Activated": "run-time value", "Aggregated": "run-time value", "Discrete": "array-valued field (values): bounded stand-in", "Linear": "list + engine reference: bounded stand-in",
        "Function": "formula text, dict of variables and engine reference: bounded stand-in", "OutputVariable": "owns an Aggregated sub-object (minimum/maximum/aggregation are properties): bounded stand-in",
        "Rule": "__repr__ is Rule.create(<text>): text level (C14/C16)", "Antecedent": "text holder", "Consequent": "text holder", "Engine": "constructor loads rules and updates references: bounded stand-in"}
KINDS = {"name": "str", "description": "str", "text": "str", "enabled": "bool", "lock_range": "bool", "lock_previous": "bool", "rules": None, "resolution": "optint",
         "terms": "list", "hedges": "list", "conjunction": "ref", "disjunction": "ref", "implication": "ref", "activation": "ref", "aggregation": "ref", "defuzzifier": "ref",
         "variable": "ref", "term": "ref", "engine": "ref", "comparator": ("enum", "Threshold.Comparator", 6), "type": ("enum", "WeightedDefuzzifier.Type", 3)}


def sym_arg(cls, n, tag):
    k = KINDS.get(n, "float")
    if n == "rules":
        k = "list" if cls == "RuleBlock" else "int"
    if k == "str":
        return SStr(z3.Const(f"{tag}.{n}", Str)), []
    if k == "bool":
        return Bool(z3.Bool(f"{tag}.{n}"), False, True), []
    if k == "int":
        return Num(X(xr.F, xr.I0, z3.ToReal(z3.Int(f"{tag}.{n}"))), False, True, True), []
    if k == "optint":          # `resolution or default`: any int; 0 and None mean the default
        return Num(X(xr.F, xr.I0, z3.ToReal(z3.Int(f"{tag}.{n}"))), False, True, True), []
    if k == "list":
        return LstV(z3.Const(f"{tag}.{n}", ListVal)), []
    if k == "ref":
        return RefO(z3.Const(f"{tag}.{n}", ObjRef)), []
    if isinstance(k, tuple):
        i = z3.Int(f"{tag}.{n}")
        return Enum(k[1], i), [i >= 0, i < k[2]]
    x, w = xr.sym(f"{tag}.{n}")
    return Num(x, False, True), [w, canon(x2xr(x))]


def construct(src, cls, args_by_name, pc, shared=None):
    """run the real cls.__init__ with the given keyword arguments (missing ones take their defaults); returns [(fields, path)]"""
    m, owner, fn = src.resolve_method(cls, "__init__")
    ex = ReprExec(src, m, xr.Ax(), selfobj=Obj(cls, {}))
    ex.target_cls = cls
    ex.cur_cls = [owner]
    if shared is not None:
        ex.axioms, ex.seen_fmt = shared.axioms, shared.seen_fmt
    env = ex.bind(fn, [], dict(args_by_name))
    outs = ex.run(fn, env, pc=list(pc))
    res = []
    for k, v, q in outs:
        if k == "return":
            res.append((dict(q.env.get("__self_fields__", {})), q))
        else:
            res.append((None, q))
    return ex, res


def bind_call(src, cls, ctor):
    """Python's binding of the printed constructor call to the parameters of __init__: positional in order, then keywords"""
    m, owner, fn = src.resolve_method(cls, "__init__")
    names = [x.arg for x in fn.args.args][1:]
    out, i = {}, 0
    seen_kw = False
    for a in ctor.args:
        if a.name is None:
            if seen_kw:
                return None, "positional argument after keyword argument (SyntaxError when evaluated)"
            if i >= len(names):
                return None, "too many positional arguments"
            out[names[i]] = a.value; i += 1
        else:
            seen_kw = True
            if a.name in out:
                return None, f"multiple values for argument {a.name}"
            if a.name not in names:
                return None, f"unexpected keyword argument {a.name}"
            out[a.name] = a.value
    return out, None


def verify_class(run, module, cls):
    src = run.src
    fq = f"{module}.{cls}"
    rp = RP(f"py-component:{cls}")
    try:
        mi = src.resolve_method(cls, "__init__")
        has_ctor = True
    except NotFound:
        mi, has_ctor = None, False
    mr = src.resolve_method(cls, "__repr__")
    run.under_contract(mr[0], f"{mr[1]}.__repr__", mr[2])
    if has_ctor:
        run.under_contract(mi[0], f"{mi[1]}.__init__", mi[2])
    names = [x.arg for x in mi[2].args.args][1:] if has_ctor else []
    args, wf = {}, []
    for n in names:
        v, w = sym_arg(cls, n, "a")
        args[n] = v; wf += w
    # hypothesis of the statement: a height is 1 or farther from 1 than the comparison tolerance
    hyp = []
    if not has_ctor:
        objs = [({}, Path({}, []))]
        ex0 = None
    else:
        ex0, objs = construct(src, cls, args, wf)
    n_ok = 0
    for k0, (F0, p0) in enumerate(objs):
        if F0 is None:
            continue          # the constructor rejects these arguments: no object to represent
        exr = ReprExec(src, mr[0], xr.Ax(), selfobj=Obj(cls, dict(F0)))
        exr.target_cls, exr.has_ctor = cls, has_ctor
        exr.cur_cls = [mr[1]]
        pc0 = list(p0.pc)
        if "height" in F0 and isinstance(F0["height"], Num):
            h = F0["height"]
            close = exr.boo(exr.ev(Path({"h": h}, []), ast.parse("Op.is_close(h, 1.0)").body[0].value)).b
            pc0.append(z3.Implies(close, xr.same(h.x, xr.const(1.0))))
        try:
            outs = exr.run(mr[2], {"self": exr.selfobj}, pc=pc0)
        except (Unsupported, MultiReturn) as ex_:
            run.add(undecided(f"{fq}.__repr__/subset[obj{k0}]", f"outside the verified subset: {ex_}", fn=fq, meta=rp)); continue
        for nm, pc, goal in exr.safety:
            run.add(Obl(f"{fq}.__repr__/safety/{nm}[obj{k0}]", pc, goal, fn=fq, meta=rp))
        for j, (q, exc) in enumerate(exr.raised):
            run.add(Obl(f"{fq}.__repr__/never_raises[obj{k0}][raise{j}:{exc}]", q.pc + str_distinct(), z3.BoolVal(False), fn=fq, meta=rp))
        for k1, (kind, val, p1) in enumerate(outs):
            tag = f"[obj{k0}.repr{k1}]"
            if kind != "return" or not isinstance(val, CtorV):
                run.add(Obl(f"{fq}.__repr__/returns_a_constructor_call{tag}", p1.pc + str_distinct(), z3.BoolVal(False), fn=fq, meta=rp)); continue
            bound, err = bind_call(src, cls, val) if has_ctor else ({}, None if not val.args else "arguments for a class without constructor")
            run.add(static(f"{fq}/printed_call_binds_to_the_constructor{tag}", err is None, err or f"arguments: {[(a.name or 'positional') for a in val.args]}", fn=fq, meta=rp))
            if err is not None:
                continue
            if has_ctor:
                try:
                    ex1, objs1 = construct(src, cls, bound, p1.pc, shared=exr)
                except (Unsupported, MultiReturn) as ex_:
                    run.add(undecided(f"{fq}.__init__/subset.rebuild{tag}", f"{ex_}", fn=fq, meta=rp)); continue
            else:
                objs1 = [({}, p1)]
            for k2, (F1, p2) in enumerate(objs1):
                t2 = f"{tag}.{k2}"
                if F1 is None:
                    run.add(Obl(f"{fq}/rebuilding_never_raises{t2}", p2.pc + str_distinct(), z3.BoolVal(False), fn=fq, meta=rp)); continue
                goals = [veq(F1.get(f), F0[f], exr) if f in F1 else z3.BoolVal(False) for f in F0]
                run.add(Obl(f"{fq}/rebuilt_object_has_the_same_fields{t2}", p2.pc + str_distinct(), z3.And(*goals) if goals else z3.BoolVal(True), fn=fq, meta=rp))
                # representation of the rebuilt object: the same constructor call
                ex2 = ReprExec(src, mr[0], xr.Ax(), selfobj=Obj(cls, dict(F1)))
                ex2.target_cls, ex2.has_ctor, ex2.cur_cls = cls, has_ctor, [mr[1]]
                try:
                    outs2 = ex2.run(mr[2], {"self": ex2.selfobj}, pc=list(p2.pc))
                except (Unsupported, MultiReturn) as ex_:
                    run.add(undecided(f"{fq}.__repr__/subset.second{t2}", f"{ex_}", fn=fq, meta=rp)); continue
                for k3, (kind3, val3, p3) in enumerate(outs2):
                    if kind3 != "return" or not isinstance(val3, CtorV):
                        run.add(Obl(f"{fq}/repr_again.no_raise{t2}.{k3}", p3.pc + str_distinct(), z3.BoolVal(False), fn=fq, meta=rp)); continue
                    same_shape = [a.name for a in val3.args] == [a.name for a in val.args]
                    goal = z3.And(*[veq(a.value, b.value, exr) for a, b in zip(val3.args, val.args)]) if same_shape and val.args else z3.BoolVal(same_shape)
                    run.add(Obl(f"{fq}/repr_of_the_rebuilt_object_is_the_same{t2}.{k3}", p3.pc + str_distinct(), goal, fn=fq, meta=rp))
                n_ok += 1
    run.add(static(f"{fq}/analysed", n_ok > 0, f"{n_ok} construct/repr/rebuild combination(s)", fn=fq))


def verify_alias(run):
    """inf / nan / array are printed as <package_of(settings)><name>: the names must be exported by the package for every import statement"""
    src = run.src
    fq = "library.Representation"
    lib = src.mod["library"]
    allv = None
    for n in lib.body:
        if isinstance(n, ast.Assign) and any(isinstance(t, ast.Name) and t.id == "__all__" for t in n.targets):
            allv = [e.value for e in n.value.elts if isinstance(e, ast.Constant)]
    init = open(os.path.join(src.pkg, "__init__.py")).read()
    ok = allv is not None and all(x in allv for x in ("inf", "nan", "array")) and "from .library import" in init
    star = "from .library import *" in init or all(x in init for x in ("inf", "nan", "array"))
    run.add(static(f"{fq}/inf_nan_array_are_exported_names", ok and star, f"library.__all__ contains inf/nan/array: {ok}; re-exported by the package: {star}", fn=fq, meta=RP("py-exec-error")))
    fn = src.func("library", "Representation.import_statement")
    run.under_contract("library", "Representation.import_statement", fn)
    txt = ast.unparse(fn)
    want = ["return 'import fuzzylite'", "return 'from fuzzylite import *'", "return f'import fuzzylite as {settings.alias}'"]
    run.add(static(f"{fq}.import_statement/three_alias_cases", all(w in txt for w in want), "no alias -> `import fuzzylite`; '*' -> `from fuzzylite import *`; otherwise `import fuzzylite as <alias>`", fn=fq, meta=dict(RP("py-exec-error"), soft=True)))
    pk = ast.unparse(src.func("library", "Representation.package_of"))
    run.under_contract("library", "Representation.package_of", src.func("library", "Representation.package_of"))
    run.add(static(f"{fq}.package_of/prefix_matches_the_import_statement", all(w in pk for w in ("if not settings.alias:", "package = module.__name__", "elif settings.alias == '*':", "package = ''", "package = settings.alias")),
                   "no alias -> module name prefix; '*' -> no prefix; otherwise the alias", fn=fq, meta=dict(RP("py-exec-error"), soft=True)))
    rf = src.func("library", "Representation.repr_float")
    run.under_contract("library", "Representation.repr_float", rf)
    body = ast.unparse(rf)
    run.add(static(f"{fq}.repr_float/inf_nan_through_the_alias_else_builtin_repr", "infinity = f'{self.package_of(settings)}{np.abs(x)!r}'" in body and "return f'{self.package_of(settings)}{x!r}'" in body and "return builtins.repr(x)" in body,
                   "inf/-inf/nan are printed as <prefix>inf / -<prefix>inf / <prefix>nan, every other float with repr() (shortest round-tripping decimal, A-FMT)", fn=fq, meta=dict(RP("py-values"), soft=True)))


def verify_statics(run):
    """two structural facts the round trip of whole engines depends on"""
    src = run.src
    fn = src.func("library", "Representation.repr_ndarray")
    run.under_contract("library", "Representation.repr_ndarray", fn)
    assigns = [ast.unparse(n.value) for n in ast.walk(fn) if isinstance(n, ast.Assign) and any(isinstance(t, ast.Name) and t.id == "elements" for t in n.targets)]
    run.add(static("library.Representation.repr_ndarray/every_element_through_repr1", assigns == ["', '.join((self.repr1(y, level) for y in x))"],
                   f"assignments to `elements`: {assigns} (every element is printed by repr1, so that inf/nan get the alias prefix at any position)", fn="library.Representation.repr_ndarray",
                   meta={"soft": True, "replay": {"module": "contracts.repr_native", "func": "replay_array_repr", "kwargs": {}, "vars": {}}}))
    # reprlib truncates containers at its max* limits (4 entries for a dict by default): every container limit must be raised, or a large
    # collection is printed with a literal `...` that is not Python
    ri = src.func("library", "Representation.__init__")
    run.under_contract("library", "Representation.__init__", ri)
    raised = sorted({ast.unparse(n.target)[5:] for n in ast.walk(ri) if isinstance(n, ast.AugAssign) and isinstance(n.op, ast.Mult) and ast.unparse(n.target).startswith("self.max")}
                    | {ast.unparse(n.targets[0])[5:] for n in ast.walk(ri) if isinstance(n, ast.Assign) and ast.unparse(n.targets[0]).startswith("self.max")})
    need = ["maxarray", "maxdeque", "maxdict", "maxfrozenset", "maxlist", "maxlong", "maxother", "maxset", "maxstring", "maxtuple"]
    missing = [x for x in need if x not in raised]
    loops = [ast.unparse(n) for n in ast.walk(ri) if isinstance(n, ast.For)]
    run.add(static("library.Representation.__init__/every_reprlib_limit_is_raised", not missing and not loops, f"limits set in the constructor: {raised}; missing: {missing}; loops (not analysed): {len(loops)}",
                   fn="library.Representation.__init__", meta={"soft": True, "replay": {"module": "contracts.repr_native", "func": "replay_large_collections", "kwargs": {}, "vars": {}}}))
    # the import header of the encapsulated export is computed at export time from the CURRENT alias (nothing cached in the exporter object)
    pe_init, enc = src.func("exporter", "PythonExporter.__init__"), src.func("exporter", "PythonExporter.encapsulate")
    run.under_contract("exporter", "PythonExporter.encapsulate", enc)
    cached = [ast.unparse(n)[:80] for n in ast.walk(pe_init) if isinstance(n, ast.Call) and ("import_statement" in ast.unparse(n.func) or "package_of" in ast.unparse(n.func))] \
        + [ast.unparse(n)[:80] for n in ast.walk(pe_init) if isinstance(n, ast.Attribute) and ast.unparse(n).startswith("settings.")]
    at_export = any(isinstance(n, ast.Call) and ast.unparse(n.func) == "representation.import_statement" for n in ast.walk(enc))
    run.add(static("exporter.PythonExporter/import_header_computed_at_export_time", not cached and at_export, f"settings-dependent values computed in the constructor: {cached}; encapsulate() calls representation.import_statement(): {at_export}",
                   fn="exporter.PythonExporter.encapsulate", meta={"soft": True, "replay": {"module": "contracts.repr_native", "func": "replay_exporter_reuse", "kwargs": {}, "vars": {}}}))
    # the component methods of the exporter forward to to_string unconditionally (only norm / activation / defuzzifier, which may be None, print "None")
    bad = []
    for meth in ("engine", "input_variable", "output_variable", "rule_block", "term", "rule", "norm", "activation", "defuzzifier"):
        try:
            fm = src.func("exporter", f"PythonExporter.{meth}")
        except NotFound:
            bad.append(f"{meth}: not found"); continue
        run.under_contract("exporter", f"PythonExporter.{meth}", fm)
        body = [ast.unparse(x) for x in fm.body if not (isinstance(x, ast.Expr) and isinstance(x.value, ast.Constant))]
        arg = fm.args.posonlyargs[-1].arg if fm.args.posonlyargs else fm.args.args[-1].arg
        okb = [f"return self.to_string({arg})"] + ([f"return self.to_string({arg}) if {arg} else 'None'"] if meth in ("norm", "activation", "defuzzifier") else [])
        if body[-1:] == [] or body[0] not in okb or len(body) != 1:
            bad.append(f"{meth}: {body}")
    run.add(static("exporter.PythonExporter/component_methods_forward_to_to_string", not bad, f"not of the form `return self.to_string(x)`: {bad}" if bad else "engine, input_variable, output_variable, rule_block, term, rule return self.to_string(x); norm, activation, defuzzifier print None for None",
                   fn="exporter.PythonExporter.to_string", meta={"soft": True, "replay": {"module": "contracts.repr_native", "func": "replay_exporter_components", "kwargs": {}, "vars": {}}}))
    ei = src.func("engine", "Engine.__init__")
    run.under_contract("engine", "Engine.__init__", ei)
    loops = [ast.unparse(n) for n in ast.walk(ei) if isinstance(n, ast.For)]
    want = "for variable in self.variables:\n    for term in variable.terms:\n        term.update_reference(self)"
    vp = ast.unparse(src.func("engine", "Engine.variables", "getter").body[-1])
    run.add(static("engine.Engine.__init__/references_of_the_terms_of_all_variables_are_updated", want in loops and vp in ("return self.input_variables + self.output_variables", "return [*self.input_variables, *self.output_variables]"),
                   f"loops in the constructor: {[l.splitlines()[0] for l in loops]}; Engine.variables: `{vp}`", fn="engine.Engine.__init__",
                   meta={"soft": True, "replay": {"module": "contracts.repr_native", "func": "replay_rebuild_references", "kwargs": {}, "vars": {}}}))


def verify_binding(run):
    """Representation.construction_arguments on its own (real body): positional arguments in signature order, keywords after the first omitted
    parameter, ValueError for a missing parameter without default"""
    src = run.src
    fq = "library.Representation.construction_arguments"
    fn = src.func("library", "Representation.construction_arguments")
    run.under_contract("library", "Representation.construction_arguments", fn)
    from pyvc.reprexec import ParamV, DictV
    params = PyL([ParamV("self", False), ParamV("p1", False), ParamV("p2", True), ParamV("p3", True)])
    cases = [("all_given.positional", {"p1", "p2", "p3"}, True, [None, None, None], None), ("middle_omitted.positional", {"p1", "p3"}, True, [None, "p3"], None),
             ("all_given.keywords", {"p1", "p2", "p3"}, False, ["p1", "p2", "p3"], None), ("last_omitted.positional", {"p1", "p2"}, True, [None, None], None),
             ("required_missing", {"p2", "p3"}, True, None, "ValueError")]
    for tag, given, positional, want, exc in cases:
        class Ex(ReprExec):
            def signature_params(s):
                return params
        ex = Ex(src, "library", xr.Ax(), selfobj=Obj("Synthetic", {}))
        ex.target_cls, ex.has_ctor = "Synthetic", True
        vals = {k: Num(xr.sym(f"v.{k}")[0], False, True) for k in given}
        try:
            outs = ex.run(fn, {"self": "REPRESENTATION", "x": ex.selfobj, "fields": DictV(vals), "positional": positional, "cast_as": None})
        except (Unsupported, MultiReturn) as ex_:
            run.add(undecided(f"{fq}/binding[{tag}]", f"outside the verified subset: {ex_}", fn=fq, meta=RP("py-component"))); continue
        kinds = [(k, v) for k, v, q in outs]
        if exc:
            ok = len(kinds) == 1 and kinds[0][0] == "raise" and kinds[0][1] == exc
            det = f"outcomes: {[(k, v if k == 'raise' else '...') for k, v in kinds]}"
        else:
            ok = len(kinds) == 1 and kinds[0][0] == "return" and isinstance(kinds[0][1], PyL) and [a.name for a in kinds[0][1].items] == want \
                and all(a.value is vals[n] for a, n in zip(kinds[0][1].items, [p_ for p_ in ("p1", "p2", "p3") if p_ in given]))
            det = f"arguments: {[a.name or 'positional' for a in kinds[0][1].items] if kinds and isinstance(kinds[0][1], PyL) else kinds} (expected {[w or 'positional' for w in want]})"
        run.add(static(f"{fq}/binding[{tag}]", ok, det, fn=fq, meta=RP("py-component")))


def build(run):
    run.not_demanded = tuple(NOT_DEMANDED)
    run.assume("A-FMT", "A-REFLECT", "A-SET", "A-PY", "A-MSG", "A-LISTVAL")
    src = run.src
    from props import C14
    try:
        C14.verify_is_close(run)          # the representations decide on Op.is_close(height, 1.0): the helper's contract (shared with C14)
    except NotFound as ex_:
        run.add(static("operation.Op.is_close/exists", False, str(ex_)))
    plan = [("term", c) for c in src.subclasses("term", "Term")] + [("variable", "Variable"), ("variable", "InputVariable"), ("variable", "OutputVariable"), ("rule", "RuleBlock"), ("rule", "Rule"), ("engine", "Engine")] \
        + [("activation", c) for c in src.subclasses("activation", "Activation")] + [("defuzzifier", c) for c in src.subclasses("defuzzifier", "Defuzzifier") if c not in ("IntegralDefuzzifier", "WeightedDefuzzifier")] \
        + [("norm", c) for c in src.subclasses("norm", "Norm") if c not in ("TNorm", "SNorm", "NormLambda", "NormFunction")] + [("hedge", c) for c in src.subclasses("hedge", "Hedge") if c not in ("HedgeLambda", "HedgeFunction")]
    for module, c in plan:
        if c in SKIP:
            run.notes.append(f"{c}: {SKIP[c]}")
            continue
        try:
            verify_class(run, module, c)
        except (Unsupported, MultiReturn) as ex_:
            run.add(undecided(f"{module}.{c}/subset", f"outside the verified subset: {ex_}", fn=f"{module}.{c}", meta=RP(f"py-component:{c}")))
        except NotFound as ex_:
            run.add(static(f"{module}.{c}/exists", False, f"not found: {ex_}", fn=f"{module}.{c}"))
    verify_alias(run)
    verify_binding(run)
    verify_statics(run)
    b = 800 if run.tier == "quick" else 6000
    known = [c for c, _ in KNOWN.values()]
    run.bounded("exporter.PythonExporter+library.Representation/exec_eval_round_trip.runtime", N_, "replay_python_roundtrip", [dict(seed=run.seed, budget=b, skip_classes=NOT_DEMANDED + known)],
                bound=f"{b // 5} generated engines (arbitrary finite doubles, inf/NaN, quotes in descriptions, weights on the decimals grid; every 4th imported from FLL) x aliases fl / '' / * / fuzzy x repr / encapsulated / formatted; every component class x parameter variants x 4 aliases x repr / create(): exec of the import statement, eval/exec of the export, equal repr, equal FLL export, bit-identical outputs")
    run.bounded("library.Representation.repr_ndarray/array_elements.runtime", "contracts.repr_native", "replay_array_repr", [dict(seed=run.seed)],
                bound="Discrete terms and arrays whose rows contain +-inf / NaN / plain numbers at every position x aliases fl, '', *, fuzzy: eval(repr) after the import statement, equal values and repr")
    run.bounded("engine.Engine.__init__/rebuilt_engine_references.runtime", "contracts.repr_native", "replay_rebuild_references", [dict(seed=run.seed)],
                bound="an engine with Function and Linear terms in an input variable and in an output variable, rebuilt from repr and from the encapsulated export under 3 aliases: bit-identical outputs on 5 input rows")
    run.bounded("library.Representation/large_collections.runtime", "contracts.repr_native", "replay_large_collections", [dict(seed=run.seed)],
                bound="a Function term with 12 variables, a Discrete term with 40 pairs, a Linear term with 30 coefficients, a variable with 25 terms, a rule block with 30 rules: eval(repr) under aliases fl and *")
    run.bounded("exporter.PythonExporter/component_methods.runtime", "contracts.repr_native", "replay_exporter_components", [dict(seed=run.seed)],
                bound="the nine component methods on full and EMPTY components (a variable without terms, a rule block without rules, an empty engine, None operators) under aliases fl / '' / *, formatted or not: the code evaluates to an object with the same representation")
    run.bounded("exporter.PythonExporter/exporter_object_reused_across_aliases.runtime", "contracts.repr_native", "replay_exporter_reuse", [dict(seed=run.seed)],
                bound="one PythonExporter object (plain and encapsulated) created under one alias and used under the four aliases: the export executes after its own first line / the import statement")
    for fid, (cls, name) in KNOWN.items():
        others = [c for c, _ in KNOWN.values() if c != cls]
        run.bounded_known(name, N_, "replay_python_roundtrip", dict(seed=run.seed, budget=200, only_class=cls, skip_classes=others), fid)


if __name__ == "__main__":
    sys.exit(main("C15", build, "Python export reconstructs an identical engine"))
