"""C11 - Tsukamoto values invert the monotonic membership functions (DESIGN 8/C11)."""
import sys, os
sys.path.insert(0, os.path.dirname(os.path.dirname(os.path.abspath(__file__))))
import ast
import z3
from pyvc import xreal as xr
from pyvc.numexec import Unsupported, ANALYSIS
from pyvc.termrun import sym_params, run_membership, is_monotonic_source
from pyvc.solve import Obl, static, undecided
from pyvc.runner import main
from contracts import terms as C
from props.C03 import DEFAULTS


def build(run):
    run.assume("A-REAL", "A-TF", "A-NP", "A-PY", "A-LIFT", "A-MSG")
    src = run.src
    structural = {"Activated", "Aggregated"}
    terms = [c for c in src.subclasses("term", "Term") if c not in structural]
    # class structure: a class overrides tsukamoto iff its is_monotonic() returns True; the base refuses unconditionally
    mono_src = []
    for c in terms:
        try:
            if is_monotonic_source(src, c):
                mono_src.append(c)
        except ANALYSIS as ex_:
            run.add(undecided(f"term.{c}.is_monotonic/subset", str(ex_)))
    run.add(static("term/monotonic.classes", sorted(mono_src) == sorted(C.MONOTONIC), f"is_monotonic() is True for {sorted(mono_src)}; contracts: {sorted(C.MONOTONIC)}"))
    # the structural terms (an activated term, an aggregated fuzzy set) are terms as well: they do not declare themselves monotonic and refuse like the others
    struct_mono = []
    for c in sorted(structural):
        try:
            if c in src.subclasses("term", "Term") and is_monotonic_source(src, c):
                struct_mono.append(c)
        except ANALYSIS as ex_:
            run.add(undecided(f"term.{c}.is_monotonic/subset", str(ex_)))
    for c in terms + [c_ for c_ in sorted(structural) if c_ in src.subclasses("term", "Term")]:
        owner = src.resolve_method(c, "tsukamoto")[1]       # looked up through the MRO read from the source
        has = owner != "Term"
        own = src.has_func("term", f"{c}.tsukamoto")
        mono_c = c in mono_src or c in struct_mono
        run.add(static(f"term.{c}/tsukamoto.refuses_iff_not_monotonic", has == mono_c and (own or not has),
                       f"{c}: tsukamoto resolves to {owner}.tsukamoto (own definition: {own}), is_monotonic()={mono_c}", fn=f"term.{c}.tsukamoto",
                       meta={"replay": {"module": "contracts.terms", "func": "replay_refuses", "kwargs": {"cls": c, "monotonic": mono_c}, "vars": {}}}))
    base = src.func("term", "Term.tsukamoto")
    run.under_contract("term", "Term.tsukamoto", base)
    body = [s for s in base.body if not (isinstance(s, ast.Expr) and isinstance(s.value, ast.Constant))]
    refuses = len(body) == 1 and isinstance(body[0], ast.Raise) and isinstance(body[0].exc, ast.Call) and getattr(body[0].exc.func, "id", "") == "RuntimeError"
    if refuses:
        run.add(static("term.Term.tsukamoto/raises.always", True, "Term.tsukamoto is a single unconditional `raise RuntimeError(...)`: non-monotonic terms refuse", fn="term.Term.tsukamoto"))
    else:
        # written in another way (e.g. the exception built by a helper): what it raises is not read off the statement - undecided; the refusal is then searched natively
        run.add(undecided("term.Term.tsukamoto/raises.always", "Term.tsukamoto is not a single `raise RuntimeError(...)` statement: " + "; ".join(ast.unparse(b)[:80] for b in body), fn="term.Term.tsukamoto",
                          meta={"replay": {"module": "contracts.terms", "func": "replay_refuses", "kwargs": {"cls": "Triangle", "monotonic": False}, "vars": {}}}))
    for cls in C.MONOTONIC:
        tc = C.TERMS[cls]
        fq = f"term.{cls}.tsukamoto"
        if not src.has_func("term", f"{cls}.tsukamoto"):
            run.add(static(f"{fq}/exists", False, "function under contract not found")); continue
        run.under_contract("term", f"{cls}.tsukamoto", src.func("term", f"{cls}.tsukamoto"))
        rp = lambda clause, vs: {"replay": {"module": "contracts.terms", "func": "replay", "kwargs": dict(clause=clause, cls=cls),
                                            "vars": {v: v for v in list(tc.fields()) + list(vs)}, "default": dict(DEFAULTS.get(cls, {}), y=0.3, y2=0.6)}}
        try:
            ax = xr.Ax(); A = xr.SymAlg(ax)
            P, wf = sym_params(tc)
            y, y2 = xr.finsym("y"), xr.finsym("y2")
            h = P["height"]
            valid = tc.valid(A, P) if tc.invertible is None else z3.And(tc.valid(A, P), tc.invertible(A, P))
            iny = lambda v: z3.And(v.v > 0, v.v < h.v)
            pre = wf + [valid, iny(y)]
            z, ex, calls, raises, fn, _ = run_membership(src, cls, ax, A, P, y, meth="tsukamoto")
            z2, _, _, _, _, _ = run_membership(src, cls, ax, A, P, y2, meth="tsukamoto")
            mu_z = tc.oracle(A, P, z)          # through the membership *contract* (closed form proved in C03)
            uf = lambda: {"sat_final": not bool(ax.used)}
            run.add(Obl(f"{fq}/pre.sat", pre + ax.axioms(), None, expect="sat", fn=fq))
            run.add(static(f"{fq}/oblivious", not ex.nonoblivious, str(ex.nonoblivious) if ex.nonoblivious else "no Python control decision depends on y", fn=fq,
                           meta=rp("tsukamoto.elementwise", ["y", "y2"])))
            run.add(static(f"{fq}/raises.none", not raises, f"{[r for r, _ in raises]}", fn=fq))
            for nm, pc, goal in ex.safety:
                run.add(Obl(f"{fq}/safety/{nm}", pre + pc, goal, fn=fq))
            run.add(Obl(f"{fq}/ensures.finite", pre + ax.axioms(), xr.fin(z), fn=fq, meta=dict(rp("tsukamoto.finite", ["y"]), **uf())))
            run.add(Obl(f"{fq}/ensures.roundtrip", pre + ax.axioms(), xr.same(mu_z, y), fn=fq, meta=dict(rp("tsukamoto.roundtrip", ["y"]), **uf())))
            inc, dec = tc.monotone(A, P)
            run.add(Obl(f"{fq}/ensures.monotone", pre + [iny(y2), y.v <= y2.v] + ax.axioms(),
                        z3.And(z3.Implies(inc, xr.le(z, z2)), z3.Implies(dec, xr.ge(z, z2))), fn=fq, meta=dict(rp("tsukamoto.monotone", ["y", "y2"]), **uf())))
        except ANALYSIS as ex_:
            run.add(undecided(f"{fq}/subset", f"outside the verified subset: {ex_}", fn=fq,
                              meta={"replay": {"module": "contracts.terms", "func": "replay_sampled", "kwargs": {"cls": cls, "what": "tsukamoto", "budget": 200}, "vars": {}}}))
    nb = 60 if run.tier == "quick" else 1500
    run.bounded("term.*.tsukamoto/sampled_roundtrip.runtime", "contracts.terms", "replay_sampled", [dict(what="tsukamoto", seed=run.seed, budget=nb)],
                bound=f"{nb} sampled valid parameter vectors per monotonic class (several heights) x activation degrees in (0, height): finite, membership(tsukamoto(y)) = y, "
                      "monotone, arrays against the degrees one by one", first_failure=True)


if __name__ == "__main__":
    sys.exit(main("C11", build, "Tsukamoto values invert the monotonic membership functions"))
