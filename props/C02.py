"""C02 - Batch (vectorised) processing equals row-by-row float processing (DESIGN 8/C02).

Deductive part (array layer): the path  Activated.membership -> Aggregated.membership -> <integral defuzzifier>.defuzzify  is executed from
/repo's AST with arrays of symbolic size in the four shape cases {N = 1, N > 1} x {r = 1, r > 1} (batch size N, resolution r; after the
case split every rank is concrete, so np.atleast_2d / .T / squeeze are exact) and for every mix of activated terms whose degrees are
input-independent scalars (S) or batch vectors (B) - up to two terms, the broadcast of longer lists being the broadcast of their kinds:
  * shape: a batch of N > 1 rows yields N defuzzified values;
  * row-wise: value i is built from the degrees of row i only, element (i, j) of the aggregated membership being the aggregation fold of
    implication(degree_k[i], mu_k(x_j)) - the float computation of row i.
The per-row meaning of every primitive (memberships, norms, hedges element-wise without data-dependent control) is C03/C04/C05/C11, the
lock-previous / default / lock-range cascade over a batch equals the sequential one by the split lemma of C12, the weighted defuzzifiers are
C10, rule activation over abstract values (scalars and batches alike) is C01/C06/C07/C08.
Bounded (B): shipped and generated General-activation engines, batches with NaN/inf rows, per-variable arrays and input matrices against
row-by-row float processing from the same starting state (contracts/batch_native.py replay_batch).
"""
import sys, os
sys.path.insert(0, os.path.dirname(os.path.dirname(os.path.abspath(__file__))))
import ast
import itertools
import z3
from pyvc import xreal as xr
from pyvc.xreal import X
from pyvc.numexec import Unsupported, ANALYSIS
from pyvc.arrays import ArrExec, Arr, Sc, IntS, ObjA, Raised, rint, INT, REAL
from pyvc.solve import Obl, static, undecided
from pyvc.runner import main
from pyvc.source import NotFound, body_of

N_ = "contracts.batch_native"
KNOWN = {"C02-1": ("batch-shape:*:r=1", "resolution = 1"), "C02-2": ("batch-shape:*:no-activations", "no activation"),
         "C02-3": ("batch-shape:*:scalar-degrees", "only input-independent degrees")}
def RP(cls=None):
    kw = {"budget": 60, "skip_classes": [] if cls else [v[0] for v in KNOWN.values()]}       # a fallback search looks for something NEW: not in the region of a listed finding
    if cls:
        kw["only_class"] = cls
    return {"replay": {"module": N_, "func": "replay_batch", "kwargs": kw, "vars": {}}}

impl = z3.Function("implication", REAL, REAL, REAL)
agg = z3.Function("aggregation", REAL, REAL, REAL)
mu = z3.Function("mu_term", INT, REAL, REAL)
deg = z3.Function("degree", INT, INT, REAL)          # degree(k, i): degree of activated term k in row i
sdeg = z3.Function("scalar_degree", INT, REAL)
Nsym, rsym = z3.Int("N"), z3.Int("resolution")
mn, mx = z3.Real("minimum"), z3.Real("maximum")
iS, jS = z3.Int("i*"), z3.Int("j*")


def fx(v):
    return X(xr.F, xr.I0, v)


def pipeline(run, cls, N, r, kinds):
    """one shape case: returns (z, y, ex)"""
    src = run.src
    mp = src.func("operation", "Operation.midpoints")
    fn = src.func("defuzzifier", f"{cls}.defuzzify")

    def midpoints(ex, e, env):
        args = [ex.ev(a, env) for a in e.args]
        sub = ArrExec(src, "operation"); sub.hyps = ex.hyps; sub.fn_line = mp.lineno
        names = [a.arg for a in mp.args.args]
        dflt = dict(zip(names[len(names) - len(mp.args.defaults):], [ast.literal_eval(ast.unparse(d)) for d in mp.args.defaults]))
        benv = {}
        for k_, nm in enumerate(names):
            benv[nm] = args[k_] if k_ < len(args) else (IntS(z3.IntVal(dflt[nm])) if isinstance(dflt.get(nm), int) else dflt[nm])
        return sub.block(body_of(mp), benv)

    def norm_compute(f):
        def h(ex, recv, args, node):
            a, b = args
            r_ = ex.ew(lambda u, v: fx(f(u.v, v.v)), a, b, node)
            return r_ if r_ is not None else Sc(fx(f(ex.scal(a).v, ex.scal(b).v)))
        return h

    def term_membership(ex, recv, args, node):
        x = args[0]
        k = recv.fields["id"]
        if isinstance(x, Arr):
            return Arr(x.shape, lambda *idx: fx(mu(k, x.elem(*idx).v)))
        return Sc(fx(mu(k, ex.scal(x).v)))

    ex = ArrExec(src, "defuzzifier", hooks={"Op.midpoints": midpoints, ("TNorm", "compute"): norm_compute(impl), ("SNorm", "compute"): norm_compute(agg), ("Term", "membership"): term_membership})
    ex.hyps = [mn < mx] + ([Nsym > 1] if not isinstance(N, int) else []) + ([rsym > 1] if not isinstance(r, int) else [])
    terms = []
    for k, kind in enumerate(kinds):
        d = Sc(fx(sdeg(k))) if kind == "S" else Arr((N,), lambda i, _k=k: fx(deg(_k, i)))
        terms.append(ObjA("Activated", {"term": ObjA("Term", {"id": k}), "degree": d, "implication": ObjA("TNorm", {})}))
    fuzzy = ObjA("Aggregated", {"terms": terms, "aggregation": ObjA("SNorm", {})})
    env = {"self": ObjA(cls, {"resolution": r if isinstance(r, int) else IntS(r)}), "term": fuzzy, "minimum": Sc(fx(mn)), "maximum": Sc(fx(mx))}
    z = ex.run(fn, env)
    return z, env.get("y"), ex


def describe(shape):
    return "(" + ", ".join(str(d) for d in shape) + ")"


def verify_shapes(run):
    src = run.src
    for q in ("Activated.membership", "Aggregated.membership"):
        run.under_contract("term", q, src.func("term", q))
    results = {}
    mixes = [(), ("S",), ("B",), ("S", "S"), ("S", "B"), ("B", "S"), ("B", "B")]
    for cls in [c for c in src.subclasses("defuzzifier", "IntegralDefuzzifier")]:
        fq = f"defuzzifier.{cls}.defuzzify"
        run.under_contract("defuzzifier", f"{cls}.defuzzify", src.func("defuzzifier", f"{cls}.defuzzify"))
        groups = {"resolution = 1": [], "no activation": [], "only input-independent degrees": [], "otherwise": []}
        for N, r, kinds in itertools.product((1, Nsym), (1, rsym), mixes):
            tag = f"N{'=1' if isinstance(N, int) else '>1'},r{'=1' if isinstance(r, int) else '>1'},terms={''.join(kinds) or 'none'}"
            try:
                z, y, ex = pipeline(run, cls, N, r, kinds)
            except Raised as ex_:
                groups["otherwise"].append((tag, False, f"raises {ex_.exc}")); continue
            except ANALYSIS as ex_:
                run.add(undecided(f"{fq}/subset[{tag}]", f"outside the verified subset: {ex_}", fn=fq, meta=RP())); continue
            zshape = z.shape if isinstance(z, Arr) else ()
            want = () if isinstance(N, int) else (N,)
            ok = (len(zshape) == len(want) and all((a is b) or (not isinstance(a, int) and not isinstance(b, int) and a.eq(b)) for a, b in zip(zshape, want))) if not isinstance(N, int) \
                else all(isinstance(d, int) and d == 1 for d in zshape)
            grp = "otherwise"
            if not isinstance(N, int):
                if not kinds:
                    grp = "no activation"
                elif "B" not in kinds:
                    grp = "only input-independent degrees"
                elif isinstance(r, int):
                    grp = "resolution = 1"
            groups[grp].append((tag, ok, f"defuzzified value has shape {describe(zshape)}, membership array {describe(y.shape) if isinstance(y, Arr) else y}"))
            results[(cls, tag)] = (z, y, ex, N, r, kinds, ok)
        for grp, items in groups.items():
            bad = [f"{t}: {d}" for t, ok, d in items if not ok]
            name = f"{fq}/batch_of_N_rows_gives_N_values[{grp}]"
            cls_pat = {"resolution = 1": "batch-shape:*:r=1", "no activation": "batch-shape:*:no-activations", "only input-independent degrees": "batch-shape:*:scalar-degrees"}.get(grp, "batch-shape")
            run.add(static(name, not bad, (f"{len(items)} shape case(s) analysed; " + ("all give one value per row" if not bad else "WRONG: " + "; ".join(bad[:4]))), fn=fq, meta=RP(cls_pat)))
    # row-wise elements (one representative defuzzifier is enough for the membership array; each defuzzifier's reductions are row-wise by C09)
    for (cls, tag), (z, y, ex, N, r, kinds, ok) in results.items():
        if cls != "Centroid" or not ok or not isinstance(y, Arr) or y.ndim != 2 or not kinds:
            continue
        fq = "term.Aggregated.membership"
        R, C = y.shape
        hy = ex.hyps + [0 <= iS, iS < (R if not isinstance(R, int) else z3.IntVal(R)), 0 <= jS, jS < (C if not isinstance(C, int) else z3.IntVal(C))]
        xj = mn + (rint(jS) + z3.RealVal("1/2")) * (mx - mn) / rint(r)
        val = z3.RealVal(0)
        for k, kind in enumerate(kinds):
            d = sdeg(k) if kind == "S" else deg(k, iS)
            val = agg(val, impl(d, mu(k, xj)))
        run.add(Obl(f"{fq}/rowwise_element[{tag}]", hy, z3.And(xr.fin(y.elem(iS, jS)), y.elem(iS, jS).v == val), fn=fq, meta=RP("batch-values")))


def build(run):
    run.assume("A-REAL", "A-NP", "A-PY", "A-LIFT", "A-BCAST")
    try:
        verify_shapes(run)
    except NotFound as ex_:
        run.add(static("pipeline/exists", False, f"function under contract not found: {ex_}"))
    b = 200 if run.tier == "quick" else 2000
    known = [c for c, _ in KNOWN.values()]
    run.bounded("engine.Engine.process/batch_vs_row_by_row.runtime", N_, "replay_batch", [dict(seed=run.seed, budget=b, skip_classes=known)],
                bound=f"39 shipped General-activation engines + {b} generated engines (every term/norm/defuzzifier type, all lock-previous/default/lock-range combinations) x batches of 1,2,3,7 rows incl. NaN, +-inf and out-of-range rows, continued from a held state x per-variable arrays and engine-level input matrix against row-by-row float processing: values, fuzzy outputs, exceptions")
    for fid, (cls, what) in KNOWN.items():
        run.bounded_known(f"engine.Engine.process/batch_shape.witness[{what}]", N_, "replay_batch", dict(seed=1, budget=200, only_class=cls), fid)


if __name__ == "__main__":
    sys.exit(main("C02", build, "Batch (vectorised) processing equals row-by-row float processing"))
