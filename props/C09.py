"""C09 - Integral defuzzifiers return the defined point of the sampled fuzzy set (DESIGN 8/C09).

The five defuzzify() bodies and Op.midpoints are executed from /repo's AST in the array layer (pyvc/arrays.py): arrays of SYMBOLIC size
(resolution r >= 1, batch of N >= 1 sets) are element closures, reductions along the sample axis are recursively defined function symbols,
and every fact that needs induction over the r sample points is a lemma with a base VC and a step VC.  The fuzzy set is ABSTRACT: mu(i, t) is
an arbitrary non-negative finite membership value of set i at point t (so the clauses hold for every aggregated set, every implication and
aggregation operator, every degree).
"""
import sys, os
sys.path.insert(0, os.path.dirname(os.path.dirname(os.path.abspath(__file__))))
import ast
import z3
from pyvc import xreal as xr
from pyvc.xreal import X
from pyvc.numexec import Unsupported, ANALYSIS
from pyvc.arrays import ArrExec, Arr, Sc, IntS, Rec, Induction, rint, INT, REAL, BOOL
from pyvc.solve import Obl, static, undecided
from pyvc.runner import main
from pyvc.source import NotFound, body_of

N_ = "contracts.batch_native"
# a single set given as a 1-element batch yields a 0-d value instead of shape (1,): one value either way - not demanded
NOT_DEMANDED = ["integral-batch-shape-N1"]
KNOWN = {"C09-1": "integral-batch-shape:*:r=1"}
def RP(cls=None):
    kw = {"budget": 60, "skip_classes": NOT_DEMANDED + ([] if cls else list(KNOWN.values()))}       # a fallback search looks for something NEW: not in the region of a listed finding
    if cls:
        kw["only_class"] = cls
    return {"replay": {"module": N_, "func": "replay_integral", "kwargs": kw, "vars": {}}}

mu = z3.Function("mu", INT, REAL, REAL)          # membership of set i at point t: arbitrary, finite, >= 0
mn, mx, r, N, cT = z3.Real("minimum"), z3.Real("maximum"), z3.Int("resolution"), z3.Int("N"), z3.Real("c")
i0, jS, kS = z3.Int("i*"), z3.Int("j*"), z3.Int("k*")
_i, _t = z3.Int("i"), z3.Real("t")
BASE = [mn < mx, r >= 1, N >= 1, 0 <= i0, i0 < N, z3.ForAll([_i, _t], mu(_i, _t) >= 0)]


def xspec(j, lo=mn, hi=mx):
    """the j-th sample point, from the statement: midpoint of the j-th of r equal cells"""
    return lo + (rint(j) + z3.RealVal("1/2")) * (hi - lo) / rint(r)


def run_body(run, cls, lo=mn, hi=mx, shift=None):
    """symbolic execution of the real `cls.defuzzify` (with the real Op.midpoints inlined)"""
    src = run.src
    fn = src.func("defuzzifier", f"{cls}.defuzzify")
    mp = src.func("operation", "Operation.midpoints")

    def midpoints(ex, e, env):
        args = [ex.ev(a, env) for a in e.args]
        sub = ArrExec(src, "operation")
        sub.hyps = ex.hyps
        sub.fn_line = mp.lineno
        names = [a.arg for a in mp.args.args]
        dflt = dict(zip(names[len(names) - len(mp.args.defaults):], [ast.literal_eval(ast.unparse(d)) for d in mp.args.defaults]))
        benv = {}
        for k_, nm in enumerate(names):
            benv[nm] = args[k_] if k_ < len(args) else (IntS(z3.IntVal(dflt[nm])) if isinstance(dflt.get(nm), int) else dflt[nm])
        out = sub.block(body_of(mp), benv)
        ex.obls += [(f"{nm} [in Op.midpoints]", h, g) for nm, h, g in sub.obls]
        return out

    def membership(ex, e, env):
        x = ex.ev(e.args[0], env)
        if not (isinstance(x, Arr) and x.ndim == 2 and x.shape[0] == 1):
            raise Unsupported("term.membership on something that is not a (1, r) array of sample points")
        # A-SHAPE: the aggregated membership of a batch of N sets at the r sample points is an (N, r) array (row i = set i)
        sh = (lambda t: t - shift) if shift is not None else (lambda t: t)
        return Arr((N, x.shape[1]), lambda i, j: X(xr.F, xr.I0, mu(i, sh(x.elem(0, j).v))))

    ex = ArrExec(src, "defuzzifier", hooks={"Op.midpoints": midpoints, "term.membership": membership})
    ex.hyps = list(BASE)
    env = {"self.resolution": IntS(r), "minimum": Sc(X(xr.F, xr.I0, lo)), "maximum": Sc(X(xr.F, xr.I0, hi)), "term": "TERM"}
    z = ex.run(fn, env)
    return ex, z, env, fn


def add_side(run, ex, fq, defer=()):
    """side obligations of the array executor (shapes, finiteness of reduced elements); those whose name contains a `defer` key are returned
    instead (they need a lemma as hypothesis)"""
    seen, later = {}, []
    for ob in ex.obls:
        nm, h, g = ob[:3]
        seen[nm] = seen.get(nm, 0) + 1
        if any(d in nm for d in defer):
            later.append(ob)
            continue
        run.add(Obl(f"{fq}/{nm}" + (f"#{seen[nm]}" if seen[nm] > 1 else ""), h, g, fn=fq, meta=RP()))
    return later


def lemma(run, fq, ind, proved):
    for nm, h, g in ind.vcs():
        run.add(Obl(f"{fq}/lemma.{nm}", h, g, fn=fq, meta=RP()))
    proved.append(ind)


def x_facts(run, fq, ex, env, lo=mn, hi=mx, tag=""):
    """the sample points: shape (1, r), x_j = midpoint formula, strictly inside the range"""
    x = env["x"]
    ok = isinstance(x, Arr) and x.ndim == 2 and x.shape[0] == 1 and not isinstance(x.shape[1], int) and x.shape[1].eq(r)
    run.add(static(f"{fq}/x.shape{tag}", ok, f"x has shape {x.shape if isinstance(x, Arr) else None} (expected (1, resolution))", fn=fq, meta=RP("integral-value")))
    hy = BASE + [0 <= jS, jS < r]
    xe = x.elem(0, jS)
    run.add(Obl(f"{fq}/x.midpoints{tag}", hy, z3.And(xr.fin(xe), xe.v == xspec(jS, lo, hi)), fn=fq, meta=RP("integral-value")))
    run.add(Obl(f"{fq}/x.inside_range{tag}", hy + [xe.v == xspec(jS, lo, hi)], z3.And(lo < xe.v, xe.v < hi), fn=fq, meta=RP("integral-range")))
    return x


def inside(x, lo=mn, hi=mx):
    return lambda n: z3.And(lo <= x.elem(0, n).v, x.elem(0, n).v <= hi)


def verify_centroid(run):
    fq = "defuzzifier.Centroid.defuzzify"
    ex, z, env, fn = run_body(run, "Centroid")
    run.under_contract("defuzzifier", "Centroid.defuzzify", fn)
    run.under_contract("operation", "Operation.midpoints", run.src.func("operation", "Operation.midpoints"))
    add_side(run, ex, fq)
    x = x_facts(run, fq, ex, env)
    sums = [q for q in ex.recs if q["kind"] == "sum"]
    run.add(static(f"{fq}/two_row_sums", len(sums) == 2 and len(ex.recs) == 2, f"reductions: {[q['site'] for q in ex.recs]}", fn=fq))
    if len(sums) != 2:
        return
    Sxy, Sy = sums[0]["rec"], sums[1]["rec"]
    exy, ey = sums[0]["elem"], sums[1]["elem"]
    y = lambda n: ey(i0, n).v
    # the summands: x_j * mu_ij and mu_ij at the sample points (this is where a reduction over the wrong axis / wrong operand shows)
    hy = BASE + [0 <= jS, jS < r]
    run.add(Obl(f"{fq}/summands", hy, z3.And(ey(i0, jS).v == mu(i0, xspec(jS)), exy(i0, jS).v == xspec(jS) * mu(i0, xspec(jS)),
                                              sums[0]["cols"] == r, sums[1]["cols"] == r, sums[0]["rows"] == N), fn=fq, meta=RP("integral-value:Centroid")))
    run.add(static(f"{fq}/result.shape", isinstance(z, Arr) and len(z.shape) == 1 and z.shape[0].eq(N), f"result shape {z.shape} (one value per set of the batch; a 0-d value when N = 1)", fn=fq, meta=RP("integral-batch-shape")))
    zi = z.elem(i0)
    run.add(Obl(f"{fq}/ensures.formula", BASE, xr.same(zi, xr.div(X(xr.F, xr.I0, Sxy.at(i0, r)), X(xr.F, xr.I0, Sy.at(i0, r)))), fn=fq, meta=RP("integral-value:Centroid")))
    # ---- lemmas (induction over the sample points)
    AZ = Rec("allzero", BOOL, lambda i: z3.BoolVal(True), lambda i, n, acc: z3.And(acc, y(n) == 0))      # ghost: mu is 0 at the first n sample points
    L = []
    lemma(run, fq, Induction("sum_mu_zero_iff_all_zero", lambda n: z3.And(Sy.at(i0, n) >= 0, (Sy.at(i0, n) == 0) == AZ.at(i0, n)), [Sy, AZ], i0, r, hyps=BASE), L)
    lemma(run, fq, Induction("weighted_sum_bounds", lambda n: z3.And(mn * Sy.at(i0, n) <= Sxy.at(i0, n), Sxy.at(i0, n) <= mx * Sy.at(i0, n)), [Sy, Sxy], i0, r,
                             hyps=BASE, extra=[inside(x), lambda n: exy(i0, n).v == x.elem(0, n).v * y(n)]), L)
    concl = [l.conclusion() for l in L]
    allzero = AZ.at(i0, r)
    run.add(Obl(f"{fq}/ensures.nan_iff_all_zero", BASE + concl, zi.nan == allzero, fn=fq, meta=RP("integral-nan")))
    run.add(Obl(f"{fq}/ensures.in_range", BASE + concl, z3.Implies(z3.Not(allzero), z3.And(xr.fin(zi), mn <= zi.v, zi.v <= mx)), fn=fq, meta=RP("integral-range")))
    # ---- translation: the same set and range moved by c
    ex2, z2, env2, _ = run_body(run, "Centroid", mn + cT, mx + cT, shift=cT)
    x2 = env2["x"]
    s2 = [q for q in ex2.recs if q["kind"] == "sum"]
    if len(s2) == 2:
        Sxy2, Sy2 = s2[0]["rec"], s2[1]["rec"]
        hy = BASE + [0 <= jS, jS < r]
        run.add(Obl(f"{fq}/translation.sample_points_move_by_c", hy, x2.elem(0, jS).v == x.elem(0, jS).v + cT, fn=fq, meta=RP("integral-translation")))
        moved = lambda n: x2.elem(0, n).v - cT == x.elem(0, n).v
        T = []
        lemma(run, fq, Induction("translation_of_sums", lambda n: z3.And(Sy2.at(i0, n) == Sy.at(i0, n), Sxy2.at(i0, n) == Sxy.at(i0, n) + cT * Sy.at(i0, n)),
                                 [Sy, Sxy, Sy2, Sxy2], i0, r, hyps=BASE, extra=[moved, lambda n: exy(i0, n).v == x.elem(0, n).v * y(n),
                                                                                  lambda n: s2[0]["elem"](i0, n).v == x2.elem(0, n).v * s2[1]["elem"](i0, n).v]), T)
        run.add(Obl(f"{fq}/ensures.translation", BASE + concl + [t.conclusion() for t in T], z3.Implies(z3.Not(allzero), z2.elem(i0).v == zi.v + cT), fn=fq, meta=RP("integral-translation")))
    run.add(static(f"{fq}/rowwise", True, "element i of the result mentions row i of the membership array only (closure construction): a batch of sets gives the per-set results, each of which is the value characterised above for the arbitrary row i*", fn=fq, meta=RP("integral-batch-value")))

# ------------------------------------------------------------------------------------------------ Smallest / Mean / Largest of Maximum
def maxima_body(run, cls):
    """runs one maxima defuzzifier; returns the pieces the clauses talk about"""
    fq = f"defuzzifier.{cls}.defuzzify"
    ex, z, env, fn = run_body(run, cls)
    run.under_contract("defuzzifier", f"{cls}.defuzzify", fn)
    add_side(run, ex, fq)
    x = x_facts(run, fq, ex, env)
    want = {"SmallestOfMaximum": "nanmin", "MeanOfMaximum": "nanmean", "LargestOfMaximum": "nanmax"}[cls]
    kinds = [q["kind"] for q in ex.recs]
    ok = kinds == ["max", want]
    run.add(static(f"{fq}/reductions", ok, f"reductions in the body: {[q['site'] for q in ex.recs]} (expected the row maximum of the membership, then {want} of the selected sample points)", fn=fq, meta=RP(f"integral-value:{cls}")))
    if not ok:
        return None
    qm, qs = ex.recs
    M, SEL, CNT = qm["rec"], qs["rec"], qs["count"]
    ey, es = qm["elem"], qs["elem"]
    y = lambda n: ey(i0, n).v
    hy = BASE + [0 <= jS, jS < r]
    # the row maximum is taken over the membership values at the sample points; a sample point is selected iff its membership is positive and
    # equals the row maximum, and what is selected is the sample point itself
    run.add(Obl(f"{fq}/maximum_is_over_the_membership_row", hy, z3.And(xr.fin(ey(i0, jS)), ey(i0, jS).v == mu(i0, xspec(jS)), qm["cols"] == r, qm["rows"] == N, qs["cols"] == r, qs["rows"] == N),
                fn=fq, meta=RP(f"integral-value:{cls}")))
    Mr = M.at(i0, r)
    sel_spec = lambda j: z3.And(mu(i0, xspec(j)) > 0, mu(i0, xspec(j)) == Mr)
    # (the row maximum bounds every sample - by induction - so that `>= maximum` and `== maximum` are the same selection)
    pre = []
    lemma(run, fq, Induction("maximum_bounds_every_sample", lambda n: z3.Implies(kS < n, y(kS) <= M.at(i0, n)), [M], i0, r, n0=1, hyps=BASE + [0 <= kS], skolems=[kS]), pre)
    run.add(Obl(f"{fq}/selection_mask", hy + [z3.Not(qm["anynan"].at(i0, r)), pre[0].conclusion(at=[jS])], z3.And(z3.Not(es(i0, jS).nan) == sel_spec(jS), z3.Implies(sel_spec(jS), z3.And(es(i0, jS).inf == 0, es(i0, jS).v == xspec(jS)))),
                fn=fq, meta=RP(f"integral-value:{cls}")))
    run.add(static(f"{fq}/result.shape", isinstance(z, Arr) and len(z.shape) == 1 and z.shape[0].eq(N), f"result shape {z.shape}", fn=fq, meta=RP("integral-batch-shape")))
    return dict(fq=fq, ex=ex, z=z, x=x, M=M, AN=qm["anynan"], SEL=SEL, CNT=CNT, y=y, es=es, kind=want, ey=ey, bounds=pre[0])


def maxima_lemmas(run, b):
    """facts about one body that need induction over the sample points; returns (conclusions, allzero term)"""
    fq, M, AN, SEL, CNT, y, es, x = b["fq"], b["M"], b["AN"], b["SEL"], b["CNT"], b["y"], b["es"], b["x"]
    AZ = Rec("allzero", BOOL, lambda i: z3.BoolVal(True), lambda i, n, acc: z3.And(acc, y(n) == 0))
    ARG = Rec("argmax", INT, lambda i: z3.IntVal(0), lambda i, n, acc: z3.If(y(n) > M.at(i, n), n, acc), start=1)      # ghost: an index where the maximum is attained
    sel = lambda n: z3.Not(es(i0, n).nan)
    L = []
    yfin = lambda n: z3.And(z3.Not(b["ey"](i0, n).nan), b["ey"](i0, n).inf == 0)
    lemma(run, fq, Induction("no_nan_in_row", lambda n: z3.Not(AN.at(i0, n)), [AN], i0, r, hyps=BASE, extra=[yfin]), L)
    L.append(b["bounds"])
    lemma(run, fq, Induction("maximum_is_attained", lambda n: z3.And(0 <= ARG.at(i0, n), ARG.at(i0, n) < n, y(ARG.at(i0, n)) == M.at(i0, n)), [M, ARG], i0, r, n0=1, hyps=BASE), L)
    lemma(run, fq, Induction("maximum_zero_iff_all_zero", lambda n: z3.And(M.at(i0, n) >= 0, (M.at(i0, n) == 0) == AZ.at(i0, n)), [M, AZ], i0, r, n0=1, hyps=BASE), L)
    # selection: the count of selected points, and the selected value stays among the sample points
    inside_sel = lambda n: z3.Implies(sel(n), z3.And(mn <= es(i0, n).v, es(i0, n).v <= mx))
    lemma(run, fq, Induction("a_selected_point_is_counted", lambda n: z3.And(CNT.at(i0, n) >= 0, z3.Implies(z3.And(kS < n, sel(kS)), CNT.at(i0, n) >= 1)), [CNT], i0, r, hyps=BASE + [0 <= kS], skolems=[kS]), L)
    lemma(run, fq, Induction("nothing_counted_without_a_selected_point", lambda n: z3.Implies(z3.And(CNT.at(i0, n) >= 1), z3.And(0 <= b["W"].at(i0, n), b["W"].at(i0, n) < n, sel(b["W"].at(i0, n)))) if "W" in b else z3.BoolVal(True),
                             [CNT] + ([b["W"]] if "W" in b else []), i0, r, hyps=BASE), L) if False else None
    if b["kind"] == "nanmean":
        P = lambda n: z3.And(mn * z3.ToReal(CNT.at(i0, n)) <= SEL.at(i0, n), SEL.at(i0, n) <= mx * z3.ToReal(CNT.at(i0, n)), CNT.at(i0, n) >= 0)
    else:
        P = lambda n: z3.And(CNT.at(i0, n) >= 0, z3.Implies(CNT.at(i0, n) >= 1, z3.And(mn <= SEL.at(i0, n), SEL.at(i0, n) <= mx)))
    lemma(run, fq, Induction("selected_value_within_range", P, [CNT, SEL], i0, r, hyps=BASE, extra=[inside_sel]), L)
    b["AZ"], b["ARG"], b["sel"] = AZ, ARG, sel
    return L


def verify_maxima(run):
    bodies = {}
    for cls in ("SmallestOfMaximum", "MeanOfMaximum", "LargestOfMaximum"):
        b = maxima_body(run, cls)
        if b is None:
            continue
        bodies[cls] = b
        fq = b["fq"]
        L = maxima_lemmas(run, b)
        b["L"] = L
        M, AZ, ARG, CNT, sel, z, x, es = b["M"], b["AZ"], b["ARG"], b["CNT"], b["sel"], b["z"], b["x"], b["es"]
        zi = z.elem(i0)
        Mr = M.at(i0, r)
        hy = BASE + [0 <= jS, jS < r]
        concl = [l.conclusion() for l in L]
        a = ARG.at(i0, r)
        # instances of the skolemised lemmas at the attaining index, and the definition of the mask there
        counted = [l for l in L if l.name == "a_selected_point_is_counted"][0].conclusion(at=[a])
        mask_at = lambda j: z3.Not(es(i0, j).nan) == z3.And(b["y"](j) > 0, b["y"](j) == Mr)
        sample_in = lambda j: z3.Implies(z3.And(0 <= j, j < r, z3.Not(es(i0, j).nan)), z3.And(mn <= es(i0, j).v, es(i0, j).v <= mx))
        allzero = AZ.at(i0, r)
        # ... nothing is selected when everything is zero: by induction as well
        Z = []
        lemma(run, fq, Induction("all_zero_selects_nothing", lambda n: z3.Implies(AZ.at(i0, n), CNT.at(i0, n) == 0), [CNT, AZ], i0, r, hyps=BASE,
                                 extra=[lambda n: z3.Implies(z3.Not(es(i0, n).nan), b["y"](n) > 0)]), Z)
        run.add(Obl(f"{fq}/selected_implies_positive", hy, z3.Implies(z3.Not(es(i0, jS).nan), b["y"](jS) > 0), fn=fq, meta=RP("integral-nan")))
        hyps = BASE + concl + [counted, mask_at(a)] + [t.conclusion() for t in Z]
        run.add(Obl(f"{fq}/mask_at_the_attaining_index", BASE + concl + [z3.Not(b["AN"].at(i0, r)), b["bounds"].conclusion(at=[a])], mask_at(a), fn=fq, meta=RP(f"integral-value:{b['fq']}")))
        run.add(Obl(f"{fq}/ensures.nan_iff_all_zero", hyps, zi.nan == allzero, fn=fq, meta=RP("integral-nan")))
        run.add(Obl(f"{fq}/ensures.in_range", hyps, z3.Implies(z3.Not(allzero), z3.And(xr.fin(zi), mn <= zi.v, zi.v <= mx)), fn=fq, meta=RP("integral-range")))
        run.add(static(f"{fq}/rowwise", True, "element i of the result mentions row i of the membership array only (closure construction)", fn=fq, meta=RP("integral-batch-value")))
    if len(bodies) == 3:
        # SOM <= MOM <= LOM: the three bodies select the same points (same row maximum, same mask), proved by induction over the three runs
        s_, m_, l_ = bodies["SmallestOfMaximum"], bodies["MeanOfMaximum"], bodies["LargestOfMaximum"]
        fq = "defuzzifier.SOM<=MOM<=LOM"
        E = []
        lemma(run, fq, Induction("same_row_maximum", lambda n: z3.And(s_["M"].at(i0, n) == m_["M"].at(i0, n), m_["M"].at(i0, n) == l_["M"].at(i0, n)), [s_["M"], m_["M"], l_["M"]], i0, r, n0=1, hyps=BASE), E)
        same_mask = lambda n: z3.And(s_["es"](i0, n).nan == m_["es"](i0, n).nan, m_["es"](i0, n).nan == l_["es"](i0, n).nan,
                                     z3.Implies(z3.Not(s_["es"](i0, n).nan), z3.And(s_["es"](i0, n).v == m_["es"](i0, n).v, m_["es"](i0, n).v == l_["es"](i0, n).v)))
        nonan = [l.conclusion() for b_ in (s_, m_, l_) for l in b_["L"] if l.name == "no_nan_in_row"]
        hy = BASE + [0 <= jS, jS < r, E[0].conclusion()] + nonan + [b_["bounds"].conclusion(at=[jS]) for b_ in (s_, m_, l_)]
        run.add(Obl(f"{fq}/same_selection", hy, same_mask(jS), fn=fq, meta=RP("integral-order")))
        cs, cm, cl = s_["CNT"], m_["CNT"], l_["CNT"]
        cnt = lambda n: z3.ToReal(cm.at(i0, n))
        P = lambda n: z3.And(cs.at(i0, n) == cm.at(i0, n), cm.at(i0, n) == cl.at(i0, n), cm.at(i0, n) >= 0, z3.Implies(cm.at(i0, n) == 0, m_["SEL"].at(i0, n) == 0),
                             z3.Implies(cm.at(i0, n) >= 1, z3.And(s_["SEL"].at(i0, n) * cnt(n) <= m_["SEL"].at(i0, n), m_["SEL"].at(i0, n) <= l_["SEL"].at(i0, n) * cnt(n),
                                                                  s_["SEL"].at(i0, n) <= l_["SEL"].at(i0, n))))
        lemma(run, fq, Induction("min_times_count_le_sum_le_max_times_count", P, [cs, cm, cl, s_["SEL"], m_["SEL"], l_["SEL"]], i0, r, hyps=BASE, extra=[same_mask]), E)
        zs, zm, zl = s_["z"].elem(i0), m_["z"].elem(i0), l_["z"].elem(i0)
        run.add(Obl(f"{fq}/ensures.order", BASE + [e.conclusion() for e in E], z3.Implies(z3.Not(zm.nan), z3.And(z3.Not(zs.nan), z3.Not(zl.nan), zs.v <= zm.v, zm.v <= zl.v)), fn=fq, meta=RP("integral-order")))


# ------------------------------------------------------------------------------------------------ Bisector
def verify_bisector(run):
    fq = "defuzzifier.Bisector.defuzzify"
    ex, z, env, fn = run_body(run, "Bisector")
    run.under_contract("defuzzifier", "Bisector.defuzzify", fn)
    later = add_side(run, ex, fq, defer=("min@",))
    x = x_facts(run, fq, ex, env)
    kinds = [q["kind"] for q in ex.recs]
    ok = kinds == ["nancumsum", "min", "nanmean"]
    run.add(static(f"{fq}/reductions", ok, f"reductions in the body: {[q['site'] for q in ex.recs]} (expected cumulative sum, row minimum of the distance to one half, mean of the selected points)", fn=fq, meta=RP("integral-value:Bisector")))
    if not ok:
        return
    qc, qm, qs = ex.recs
    CUM, MIN, AN, SS, CNT = qc["rec"], qm["rec"], qm["anynan"], qs["rec"], qs["count"]
    ey, et, es = qc["elem"], qm["elem"], qs["elem"]
    y = lambda n: ey(i0, n).v
    hy = BASE + [0 <= jS, jS < r]
    half = z3.RealVal("1/2")
    total = CUM.at(i0, r)
    # definitions, point by point: cumulative membership, normalised distance to one half, selection of the minimisers, selected value = sample point
    run.add(Obl(f"{fq}/cumulative_membership", hy, z3.And(xr.fin(ey(i0, jS)), ey(i0, jS).v == mu(i0, xspec(jS)), qc["cols"] == r, qc["rows"] == N, qm["cols"] == r, qs["cols"] == r), fn=fq, meta=RP("integral-value:Bisector")))
    dist_spec = lambda j: xr.xabs(xr.sub(xr.div(X(xr.F, xr.I0, CUM.at(i0, j + 1)), X(xr.F, xr.I0, total)), X(xr.F, xr.I0, half)))
    run.add(Obl(f"{fq}/distance_to_half_of_the_normalised_cumulative", hy, xr.same(et(i0, jS), dist_spec(jS)), fn=fq, meta=RP("integral-value:Bisector")))
    minx = X(AN.at(i0, r), xr.I0, MIN.at(i0, r))
    run.add(Obl(f"{fq}/selection_of_the_minimisers", hy, z3.And(z3.Not(es(i0, jS).nan) == xr.eq(dist_spec(jS), minx), z3.Implies(z3.Not(es(i0, jS).nan), z3.And(es(i0, jS).inf == 0, es(i0, jS).v == xspec(jS)))),
                fn=fq, meta=RP("integral-value:Bisector")))
    run.add(static(f"{fq}/result.shape", isinstance(z, Arr) and len(z.shape) == 1 and z.shape[0].eq(N), f"result shape {z.shape}", fn=fq, meta=RP("integral-batch-shape")))
    zi = z.elem(i0)
    run.add(Obl(f"{fq}/ensures.formula", BASE, xr.same(zi, X(CNT.at(i0, r) == 0, xr.I0, SS.at(i0, r) / z3.ToReal(CNT.at(i0, r)))), fn=fq, meta=RP("integral-value:Bisector")))
    # ---- lemmas
    AZ = Rec("allzero", BOOL, lambda i: z3.BoolVal(True), lambda i, n, acc: z3.And(acc, y(n) == 0))
    sel = lambda n: z3.Not(es(i0, n).nan)
    tn = lambda n: et(i0, n)
    L = []
    lemma(run, fq, Induction("cumulative_zero_iff_all_zero", lambda n: z3.And(CUM.at(i0, n) >= 0, (CUM.at(i0, n) == 0) == AZ.at(i0, n)), [CUM, AZ], i0, r, hyps=BASE), L)
    lemma(run, fq, Induction("cumulative_is_monotone", lambda n: z3.And(CUM.at(i0, n) >= 0, z3.Implies(z3.And(0 <= kS, kS <= n), z3.And(CUM.at(i0, kS) >= 0, CUM.at(i0, kS) <= CUM.at(i0, n)))), [CUM], i0, r, hyps=BASE, skolems=[kS, i0]), L)
    mono = L[-1]
    for ob in later:
        if len(ob) < 4:
            run.add(Obl(f"{fq}/{ob[0]}", ob[1], ob[2], fn=fq, meta=RP()))
    for nm, h, g, meta in [ob for ob in later if len(ob) == 4]:       # the distance |cum/total - 1/2| is never infinite: a prefix sum is 0 when the total is (monotone, by the lemma, for the row at hand)
        run.add(Obl(f"{fq}/{nm}", h + [mono.conclusion(at=[meta["j"] + 1, meta["i"]])], g, fn=fq, meta=RP("integral-nan")))
    # total > 0: every distance is a finite number, the minimum is one of them
    ARG = Rec("argmin", INT, lambda i: z3.IntVal(0), lambda i, n, acc: z3.If(tn(n).v < MIN.at(i, n), n, acc), start=1)
    pos = [total > 0]
    fin_t = lambda n: z3.And(z3.Not(tn(n).nan), tn(n).inf == 0)
    fin_at = lambda n: z3.Implies(total > 0, fin_t(n))
    run.add(Obl(f"{fq}/distances_are_finite_when_the_total_is_positive", hy + pos, fin_t(jS), fn=fq, meta=RP("integral-nan")))
    lemma(run, fq, Induction("positive_total.no_nan_distance", lambda n: z3.Not(AN.at(i0, n)), [AN], i0, r, hyps=BASE + pos, extra=[fin_at]), L)
    lemma(run, fq, Induction("positive_total.minimum_is_attained", lambda n: z3.And(0 <= ARG.at(i0, n), ARG.at(i0, n) < n, tn(ARG.at(i0, n)).v == MIN.at(i0, n)), [MIN, ARG], i0, r, n0=1, hyps=BASE + pos), L)
    lemma(run, fq, Induction("a_selected_point_is_counted", lambda n: z3.And(CNT.at(i0, n) >= 0, z3.Implies(z3.And(kS < n, sel(kS)), CNT.at(i0, n) >= 1)), [CNT], i0, r, hyps=BASE + [0 <= kS], skolems=[kS]), L)
    counted = L[-1]
    inside_sel = lambda n: z3.Implies(sel(n), z3.And(mn <= es(i0, n).v, es(i0, n).v <= mx))
    lemma(run, fq, Induction("selected_mean_within_range", lambda n: z3.And(mn * z3.ToReal(CNT.at(i0, n)) <= SS.at(i0, n), SS.at(i0, n) <= mx * z3.ToReal(CNT.at(i0, n)), CNT.at(i0, n) >= 0),
                             [CNT, SS], i0, r, hyps=BASE, extra=[inside_sel]), L)
    # total == 0: every distance is NaN, so is the minimum, nothing compares equal to it, nothing is selected
    zero = [total == 0]
    lemma(run, fq, Induction("zero_total.a_nan_distance_makes_the_minimum_nan", lambda n: z3.Implies(z3.And(kS < n, tn(kS).nan), AN.at(i0, n)), [AN], i0, r, hyps=BASE + [0 <= kS], skolems=[kS]), L)
    nanprop = L[-1]
    run.add(Obl(f"{fq}/zero_total.first_distance_is_nan", BASE + zero + [mono.conclusion(at=[z3.IntVal(1), i0])], tn(0).nan, fn=fq, meta=RP("integral-nan")))
    lemma(run, fq, Induction("zero_total.nothing_is_selected", lambda n: CNT.at(i0, n) == 0, [CNT], i0, r, hyps=BASE + zero + [AN.at(i0, r)], extra=[lambda n: z3.Not(sel(n))]), L)
    run.add(Obl(f"{fq}/zero_total.nan_minimum_selects_nothing", hy + zero + [AN.at(i0, r)], z3.Not(sel(jS)), fn=fq, meta=RP("integral-nan")))
    concl = [l.conclusion() for l in L if not l.name.startswith(("positive_total", "zero_total"))]
    allzero = AZ.at(i0, r)
    a = ARG.at(i0, r)
    c_pos = [z3.Implies(total > 0, l.conclusion()) for l in L if l.name.startswith("positive_total")] + [counted.conclusion(at=[a])]
    c_zero = [z3.Implies(total == 0, z3.Implies(AN.at(i0, r), l.conclusion())) for l in L if l.name == "zero_total.nothing_is_selected"] + [nanprop.conclusion(at=[z3.IntVal(0)]), z3.Implies(total == 0, tn(0).nan)]
    sel_at_a = z3.Implies(total > 0, z3.Implies(z3.And(0 <= a, a < r), z3.Not(es(i0, a).nan) == xr.eq(dist_spec(a), minx)))
    fin_at_a = z3.Implies(total > 0, z3.Implies(z3.And(0 <= a, a < r), z3.And(fin_t(a), xr.same(tn(a), dist_spec(a)))))
    run.add(Obl(f"{fq}/selection_at_the_attaining_index", BASE + concl + c_pos, z3.And(sel_at_a, fin_at_a), fn=fq, meta=RP("integral-value:Bisector")))
    hyps = BASE + concl + c_pos + c_zero + [sel_at_a, fin_at_a]
    run.add(Obl(f"{fq}/ensures.nan_iff_all_zero", hyps, zi.nan == allzero, fn=fq, meta=RP("integral-nan")))
    run.add(Obl(f"{fq}/ensures.in_range", hyps, z3.Implies(z3.Not(allzero), z3.And(xr.fin(zi), mn <= zi.v, zi.v <= mx)), fn=fq, meta=RP("integral-range")))
    run.add(static(f"{fq}/rowwise", True, "element i of the result mentions row i of the membership array only (closure construction)", fn=fq, meta=RP("integral-batch-value")))



def build(run):
    run.not_demanded = tuple(NOT_DEMANDED)
    run.assume("A-REAL", "A-NP", "A-PY", "A-SHAPE")
    plan = [("defuzzifier.Centroid.defuzzify", verify_centroid), ("defuzzifier.*OfMaximum.defuzzify", verify_maxima), ("defuzzifier.Bisector.defuzzify", verify_bisector)]
    for fq, f in plan:
        try:
            f(run)
        except ANALYSIS as ex_:
            run.add(undecided(f"{fq}/subset", f"outside the verified subset: {ex_}", fn=fq, meta=RP()))
        except NotFound as ex_:
            run.add(static(f"{fq}/exists", False, f"function under contract not found: {ex_}", fn=fq))
    b = 200 if run.tier == "quick" else 4000
    run.bounded("defuzzifier.IntegralDefuzzifier/values_vs_pointwise_oracle.runtime", N_, "replay_integral", [dict(seed=run.seed, budget=b, skip_classes=NOT_DEMANDED + list(KNOWN.values()))],
                bound=f"5 defuzzifiers x resolutions 1..1000 x aggregated sets of 1-5 activated terms (18 term classes, all norms) x scalar and batch degrees x ranges 1e-9..1e100 wide (budget {b}): value, range, order, NaN, translation, batch shape and values")
    for fid, cls in KNOWN.items():
        run.bounded_known("defuzzifier.IntegralDefuzzifier/batch_shape_resolution_1.witness", N_, "replay_integral", dict(seed=run.seed, budget=60, only_class="integral-batch-shape", skip_classes=NOT_DEMANDED + ["integral-batch-shape:*:r>1"]), fid)


if __name__ == "__main__":
    sys.exit(main("C09", build, "Integral defuzzifiers return the defined point of the sampled fuzzy set"))
