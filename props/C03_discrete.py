"""Discrete term (part of C03).  `np.interp` is a dependency with an *assumed contract* (A-NP/interp):
INTERP(x, X, Y) is the piecewise-linear interpolation of the points (X_i, Y_i), NaN iff x is NaN, and lies between the
smallest and largest Y (so in [0,1] for valid Discrete terms).  What is proved from the real AST: the membership is
`height * INTERP(x, values[:,0], values[:,1])` (right columns, height applied once), the two ValueError guards, range and
NaN-iff from the assumed contract, and obliviousness.  A bounded run-time stand-in cross-checks the interp contract itself."""
import ast
import z3
from pyvc import xreal as xr
from pyvc.numexec import NumExec, Num, Bool, Obj, Unsupported, ANALYSIS
from pyvc.solve import Obl, static, undecided

INTERP = z3.Function("INTERP", z3.RealSort(), z3.IntSort(), z3.IntSort(), z3.RealSort())   # x, column of X, column of Y


class Arr:
    def __init__(s, name):
        s.name = name
        s.size = z3.Int(name + ".size"); s.ndim = z3.Int(name + ".ndim")


class Col:
    def __init__(s, arr, k):
        s.arr, s.k = arr, k


class DExec(NumExec):
    def ev_Attribute(s, p, e):
        if isinstance(e.value, ast.Attribute) or isinstance(e.value, ast.Name):
            try:
                base = s.ev(p, e.value)
            except Unsupported:
                base = None
            if isinstance(base, Arr) and e.attr in ("size", "ndim"):
                v = getattr(base, e.attr)
                return Num(xr.X(xr.F, xr.I0, z3.ToReal(v)), False, True, True)
        return super().ev_Attribute(p, e)

    def ev_Subscript(s, p, e):
        base = s.ev(p, e.value)
        if isinstance(base, Arr) and isinstance(e.slice, ast.Tuple) and len(e.slice.elts) == 2:
            r, c = e.slice.elts
            if isinstance(r, ast.Slice) and r.lower is None and r.upper is None and r.step is None and isinstance(c, ast.Constant) and isinstance(c.value, int):
                return Col(base, c.value)
        raise Unsupported(f"subscript {ast.unparse(e)} at line {e.lineno}")

    def np_call(s, p, name, e):
        if name == "interp" and len(e.args) == 3 and not e.keywords:
            x, cx, cy = (s.ev(p, a) for a in e.args)
            x = s.num(x, e)
            if isinstance(cx, Col) and isinstance(cy, Col) and cx.arr is cy.arr:
                # assumed contract of np.interp (A-NP/interp): NaN iff x NaN; +-inf clamps to the end values (finite)
                v = INTERP(z3.If(x.x.inf == 1, z3.RealVal(10 ** 30), z3.If(x.x.inf == -1, z3.RealVal(-10 ** 30), x.x.v)), z3.IntVal(cx.k), z3.IntVal(cy.k))
                s.interp_terms.append(v)
                return Num(xr.X(x.x.nan, xr.I0, v), x.data, False)
            raise Unsupported(f"np.interp operands at line {e.lineno}")
        return super().np_call(p, name, e)


def build(run):
    src = run.src
    fq = "term.Discrete.membership"
    if not src.has_func("term", "Discrete.membership"):
        run.add(static(f"{fq}/exists", False, "function under contract not found")); return
    fn = src.func("term", "Discrete.membership")
    run.under_contract("term", "Discrete.membership", fn)
    run.assume("A-NP/interp")
    try:
        ax = xr.Ax()
        h, ch = xr.sym("height"); x, cx = xr.sym("x")
        arr = Arr("values")
        ex = DExec(src, "term", ax, selfobj=Obj("Discrete", {"height": Num(h, False, True), "values": arr}))
        ex.interp_terms = []
        outs = ex.run(fn, {"self": ex.selfobj, "x": Num(x, True, False)})
        valid = z3.And(xr.fin(h), h.v > 0, h.v <= 1)
        wf = [ch, cx, arr.size >= 0, arr.ndim >= 0]
        rets = [(v, p) for k, v, p in outs if k == "return"]
        raises = [(v, p) for k, v, p in outs if k == "raise"]
        run.add(static(f"{fq}/oblivious", not ex.nonoblivious, str(ex.nonoblivious) if ex.nonoblivious else "no Python control decision depends on x", fn=fq,
                       meta={"replay": {"module": "contracts.terms_discrete", "func": "replay", "kwargs": {"clause": "elementwise"}, "vars": {}}}))
        # raises: ValueError exactly when the table is empty or not 2-D
        bad = z3.Or(arr.size == 0, arr.ndim != 2)
        ok_types = all(v == "ValueError" for v, _ in raises)
        run.add(static(f"{fq}/raises.type", ok_types and len(raises) >= 1, f"raising paths: {[v for v, _ in raises]}", fn=fq))
        raise_cond = z3.Or(*[z3.And(*p.pc) if p.pc else xr.T for _, p in raises]) if raises else xr.F
        run.add(Obl(f"{fq}/raises.iff_empty_or_not_2d", wf, raise_cond == bad, fn=fq))
        if len(rets) != 1:
            raise Unsupported(f"{len(rets)} returning paths")
        v, p = rets[0]
        y = ex.num(v).x
        interp = xr.X(x.nan, xr.I0, INTERP(z3.If(x.inf == 1, z3.RealVal(10 ** 30), z3.If(x.inf == -1, z3.RealVal(-10 ** 30), x.v)), z3.IntVal(0), z3.IntVal(1)))
        spec = xr.mul(h, interp)
        pre = wf + [valid] + p.pc
        run.add(Obl(f"{fq}/pre.sat", pre, None, expect="sat", fn=fq))
        rp = lambda c: {"replay": {"module": "contracts.terms_discrete", "func": "replay", "kwargs": {"clause": c}, "vars": {"height": "height", "x": "x"}}, "sat_final": False}
        run.add(Obl(f"{fq}/ensures.closed_form", pre, xr.same(y, spec), fn=fq, meta=rp("closed_form")))
        # assumed contract of interp instantiated at the occurring terms: value within [0,1] (valid tables have y in [0,1])
        ic = [z3.And(t >= 0, t <= 1) for t in ex.interp_terms] + [z3.And(interp.v >= 0, interp.v <= 1)]
        run.add(Obl(f"{fq}/ensures.nan_iff", pre + ic, y.nan == x.nan, fn=fq, meta=rp("nan_iff")))
        run.add(Obl(f"{fq}/ensures.range", pre + ic + [z3.Not(x.nan)], z3.And(xr.fin(y), y.v >= 0, y.v <= h.v), fn=fq, meta=rp("range")))
    except ANALYSIS as ex_:
        run.add(undecided(f"{fq}/subset", f"outside the verified subset: {ex_}", fn=fq))
    # bounded stand-in for the assumed interp contract and the element-wise claim on the real class
    run.bounded("term.Discrete.membership/interp_contract.runtime", "contracts.terms_discrete", "bounded", [dict(seed=run.seed, n=300 if run.tier == "quick" else 5000)],
                bound="random valid tables (2..8 strictly increasing x, y in [0,1]) x points at/between/outside the table, +-inf, NaN; scalar, 1-D, 2-D")
