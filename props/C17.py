"""C17 - Function formulas follow the documented precedence and associativity (DESIGN 8/C17).

Deductive part:
  * factory/table            the 13 operators read from the AST of FunctionFactory._create_operators have exactly the precedence order,
                             associativity and arity of the property's table (oracle: DESIGN Appendix A.6)
  * factory/element_meaning  every registered element is bound to the documented NumPy function (an element-wise ufunc, A-NP) with the
                             documented arity; the relational indicators Op.gt/ge/eq/neq/le/lt are executed symbolically from their real
                             bodies: value = 1.0/0.0 indicator of the documented relation (NaN's equal where documented), float-kinded
                             (usable in arithmetic), no data-dependent Python control (element-wise on arrays)
  * Function.infix_to_postfix parenthesis / no-internal-error proof (shared with C16)
  * Function.parse           postfix -> tree loop: arity check, exactly one tree, children in postfix order (tiling ghost), no internal error
  * Function.Node.evaluate   recursion contract: method(evaluate(children...)) / variable lookup / constant; raises for missing children/variables
Bounded (B): formulas generated from trees against a reference evaluator written from the operator table (contracts/formula_native.py).
"""
import sys, os
sys.path.insert(0, os.path.dirname(os.path.dirname(os.path.abspath(__file__))))
import ast
import z3
from pyvc import xreal as xr
from pyvc.numexec import NumExec, Num, Bool, Obj, Unsupported, ANALYSIS
from pyvc.solve import Obl, static, undecided
from pyvc.runner import main
from pyvc.source import NotFound, body_of

N_ = "contracts.formula_native"
RP_TABLE = {"module": N_, "func": "replay_table", "kwargs": {}, "vars": {}}
NOT_DEMANDED = ["literal:signed-exponent", "postfix:literal-precision", "accepted-illformed:arrangement"]      # observations that the statement does not demand (DESIGN 14.3)
RP_FORM = {"module": N_, "func": "replay_formulas", "kwargs": {"budget": 60, "skip_classes": NOT_DEMANDED}, "vars": {}}

# ---- oracle: DESIGN Appendix A.6 / the property statement.  level 0 binds tightest; assoc +1 = right, -1 = left
OPERATORS = {
    "!": (0, +1, 1, "np.logical_not"), "~": (0, +1, 1, "np.negative"),
    "^": (1, +1, 2, "np.float_power"), "**": (1, +1, 2, "np.float_power"), ".-": (1, +1, 1, "np.negative"), ".+": (1, +1, 1, "np.positive"),
    "*": (2, -1, 2, "np.multiply"), "/": (2, -1, 2, "np.true_divide"), "%": (2, -1, 2, "np.remainder"),
    "+": (3, -1, 2, "np.add"), "-": (3, -1, 2, "np.subtract"),
    "and": (4, -1, 2, "np.logical_and"), "or": (5, -1, 2, "np.logical_or"),
}
# documented functions: name -> (arity, acceptable element-wise implementations)
FUNCTIONS = {
    "gt": (2, ["Op.gt"]), "ge": (2, ["Op.ge"]), "eq": (2, ["Op.eq"]), "neq": (2, ["Op.neq"]), "le": (2, ["Op.le"]), "lt": (2, ["Op.lt"]),
    "min": (2, ["np.minimum"]), "max": (2, ["np.maximum"]),          # NaN in, NaN out - like every other function of the table (np.fmin / np.fmax would drop a NaN operand)
    "acos": (1, ["np.arccos"]), "asin": (1, ["np.arcsin"]), "atan": (1, ["np.arctan"]), "ceil": (1, ["np.ceil"]), "cos": (1, ["np.cos"]),
    "cosh": (1, ["np.cosh"]), "exp": (1, ["np.exp"]), "abs": (1, ["np.fabs", "np.abs", "np.absolute"]), "fabs": (1, ["np.fabs", "np.abs", "np.absolute"]),
    "floor": (1, ["np.floor"]), "log": (1, ["np.log"]), "log10": (1, ["np.log10"]), "round": (1, ["np.round", "np.rint", "np.around"]),
    "sin": (1, ["np.sin"]), "sinh": (1, ["np.sinh"]), "sqrt": (1, ["np.sqrt"]), "tan": (1, ["np.tan"]), "tanh": (1, ["np.tanh"]),
    "log1p": (1, ["np.log1p"]), "acosh": (1, ["np.arccosh"]), "asinh": (1, ["np.arcsinh"]), "atanh": (1, ["np.arctanh"]),
    "pow": (2, ["np.float_power", "np.power"]), "atan2": (2, ["np.arctan2"]), "fmod": (2, ["np.fmod"]),
    "pi": (0, ["lambda: np.pi"]),
}


def read_elements(src, qual):
    """[(name, method text, arity, importance, associativity)] from the Function.Element(...) calls of a factory method"""
    fn = src.func("factory", qual)
    el = src.func("term", "Function.Element.__init__")
    names = [a.arg for a in el.args.args][1:]
    dflt = {a.arg: ast.literal_eval(ast.unparse(d)) for a, d in zip(el.args.args[-len(el.args.defaults):], el.args.defaults)}
    rows = []
    # local aliases of the factory method (`p = self._precedence`, `operator_type = Function.Element.Type.Operator`) are resolved, whatever they are called
    alias = {}
    for st in fn.body:
        if isinstance(st, (ast.Assign, ast.AnnAssign)) and getattr(st, "value", None) is not None:
            for t in (st.targets if isinstance(st, ast.Assign) else [st.target]):
                if isinstance(t, ast.Name):
                    alias[t.id] = ast.unparse(st.value)
    res = lambda node: alias.get(node.id, node.id) if isinstance(node, ast.Name) else ast.unparse(node)        # noqa
    for call in ast.walk(fn):
        if isinstance(call, ast.Call) and ast.unparse(call.func) == "Function.Element":
            got = dict(zip(names, call.args))
            got.update({k.arg: k.value for k in call.keywords})
            a0 = got.get("name")
            name = a0.value if isinstance(a0, ast.Constant) else {"Rule.AND": "and", "Rule.OR": "or"}.get(ast.unparse(a0), ast.unparse(a0))
            prec = got.get("precedence")
            imp = int(prec.args[0].value) if isinstance(prec, ast.Call) and res(prec.func) == "self._precedence" and len(prec.args) == 1 and isinstance(prec.args[0], ast.Constant) else None
            lit = lambda k: ast.literal_eval(ast.unparse(got[k])) if k in got else dflt.get(k)
            rows.append((name, ast.unparse(got["method"]) if "method" in got else None, lit("arity"), imp, lit("associativity"), {"Function.Element.Type.Operator": "operator_type", "Function.Element.Type.Function": "function_type"}.get(res(got["type"]), res(got["type"])) if "type" in got else None))
    return fn, rows


def verify_table(run):
    src = run.src
    fq = "factory.FunctionFactory._create_operators"
    fn, rows = read_elements(src, "FunctionFactory._create_operators")
    run.under_contract("factory", "FunctionFactory._create_operators", fn)
    pf = src.func("factory", "FunctionFactory._precedence")
    run.under_contract("factory", "FunctionFactory._precedence", pf)
    # _precedence is strictly decreasing in its argument (symbolic execution of its body: maximum - importance*step with step > 0)
    body = [ast.unparse(st) for st in body_of(pf)]
    dec = body == ["maximum = 100", "step = 10", "return maximum - importance * step"]
    run.add(static("factory.FunctionFactory._precedence/strictly_decreasing", dec, f"body: {body} (higher importance number = lower precedence value)", fn="factory.FunctionFactory._precedence", meta={"soft": True, "replay": RP_TABLE}))
    got = {r[0]: r for r in rows}
    run.add(static(f"{fq}/exactly_the_13_operators", sorted(got) == sorted(OPERATORS) and len(rows) == len(OPERATORS), f"registered operators {sorted(got)}", fn=fq, meta={"replay": RP_TABLE}))
    for name, (level, assoc, arity, meth) in OPERATORS.items():
        r = got.get(name)
        ok = r is not None and r[3] == level and r[4] == assoc and r[2] == arity and r[5] == "operator_type"
        run.add(static(f"{fq}/table[{name}]", ok, f"oracle (level, associativity, arity) = {(level, assoc, arity)} [+1 right, -1 left]; source: importance={r and r[3]}, associativity={r and r[4]}, arity={r and r[2]}",
                       fn=fq, meta={"replay": RP_TABLE}))
        run.add(static(f"{fq}/meaning[{name}]", r is not None and r[1] == meth, f"documented meaning {meth}; bound to {r and r[1]}", fn=fq, meta={"replay": RP_FORM}))
    # the meaning of the associativity sign and of the precedence comparison is fixed by infix_to_postfix's popping rule
    try:
        itp = src.func("term", "Function.infix_to_postfix")
        conds = [ast.unparse(n.test) for n in ast.walk(itp) if isinstance(n, ast.If) and "associativity" in ast.unparse(n.test)]
        want = "element.associativity < 0 and element.precedence <= top.precedence or (element.associativity > 0 and element.precedence < top.precedence)"
        run.add(static("term.Function.infix_to_postfix/popping_rule", conds == [want], f"pop condition(s): {conds} (left-associative: pop on equal precedence; right-associative: only on higher)",
                       fn="term.Function.infix_to_postfix", meta={"soft": True, "replay": RP_FORM}))
    except NotFound as ex_:
        run.add(static("term.Function.infix_to_postfix/popping_rule", False, f"not found: {ex_}"))


def verify_functions(run):
    src = run.src
    fq = "factory.FunctionFactory._create_functions"
    fn, rows = read_elements(src, "FunctionFactory._create_functions")
    run.under_contract("factory", "FunctionFactory._create_functions", fn)
    got = {r[0]: r for r in rows}
    run.add(static(f"{fq}/exactly_the_34_functions", sorted(got) == sorted(FUNCTIONS) and len(rows) == len(FUNCTIONS), f"registered functions {sorted(got)}", fn=fq, meta={"replay": RP_TABLE}))
    for name, (arity, meths) in FUNCTIONS.items():
        r = got.get(name)
        run.add(static(f"{fq}/arity[{name}]", r is not None and r[2] == arity and r[5] == "function_type", f"documented arity {arity}; source arity={r and r[2]} type={r and r[5]}", fn=fq, meta={"replay": RP_TABLE}))
        run.add(static(f"{fq}/elementwise_meaning[{name}]", r is not None and r[1] in meths,
                       f"documented meaning: one of {meths} (element-wise NumPy functions, A-NP); bound to `{r and r[1]}`" + ("" if r is None or r[1] in meths else " - not an element-wise array function"),
                       fn=fq, meta={"replay": dict(RP_FORM, kwargs={"budget": 60, "only_class": f"function:{name}", "skip_classes": NOT_DEMANDED})}))


REL = {"gt": lambda a, b: xr.gt(a, b), "lt": lambda a, b: xr.lt(a, b),
       "ge": lambda a, b: z3.Or(xr.ge(a, b), z3.And(a.nan, b.nan)), "le": lambda a, b: z3.Or(xr.le(a, b), z3.And(a.nan, b.nan)),
       "eq": lambda a, b: z3.Or(xr.eq(a, b), z3.And(a.nan, b.nan)), "neq": lambda a, b: z3.Not(z3.Or(xr.eq(a, b), z3.And(a.nan, b.nan)))}


def verify_relational(run):
    """Op.gt/ge/eq/neq/le/lt from their real bodies: 1.0/0.0 indicator of the documented relation, float kind, oblivious"""
    src = run.src
    for name, rel in REL.items():
        fq = f"operation.Op.{name}"
        try:
            fn = src.func("operation", f"Operation.{name}")
        except NotFound as ex_:
            run.add(static(f"{fq}/exists", False, str(ex_))); continue
        run.under_contract("operation", f"Operation.{name}", fn)
        rp = {"replay": dict(RP_FORM, kwargs={"budget": 60, "only_class": f"function:{name}", "skip_classes": NOT_DEMANDED})}
        try:
            ax = xr.Ax()
            (a, wa), (b, wb) = xr.sym("a"), xr.sym("b")
            ex = NumExec(src, "operation", ax)
            outs = ex.run(fn, {"a": Num(a, data=True, py=False, alias=True), "b": Num(b, data=True, py=False, alias=True)})
            rets = [(k, v, p) for k, v, p in outs]
            if len(rets) != 1 or rets[0][0] != "return":
                raise Unsupported(f"expected one returning path, got {[k for k, _, _ in rets]}")
            v = rets[0][1]
            isfloat = isinstance(v, Num)
            run.add(static(f"{fq}/returns_float_indicator", isfloat, "the result is a float-kinded value (usable in arithmetic)" if isfloat else
                           "the result is a BOOLEAN array/scalar: the sum of two indicators saturates at True", fn=fq, meta=rp))
            run.add(static(f"{fq}/oblivious", not ex.nonoblivious, f"data-dependent Python control: {ex.nonoblivious}" if ex.nonoblivious else "element-wise on arrays (A-LIFT)", fn=fq, meta=rp))
            truth = ex.num(v).x if isfloat else None
            b_ = z3.And(z3.Not(truth.nan), truth.inf == 0, truth.v == 1) if isfloat else ex.boo(v).b
            z_ = z3.And(z3.Not(truth.nan), truth.inf == 0, truth.v == 0) if isfloat else z3.Not(ex.boo(v).b)
            run.add(Obl(f"{fq}/ensures.indicator", [wa, wb] + ax.axioms(), z3.And(z3.Implies(rel(a, b), b_), z3.Implies(z3.Not(rel(a, b)), z_)), fn=fq, meta=rp))
        except ANALYSIS as ex_:
            run.add(undecided(f"{fq}/subset", f"outside the verified subset: {ex_}", fn=fq, meta=rp))

# ------------------------------------------------------------------------------------------------ Function.parse (postfix -> tree)
def verify_function_parse(run):
    from pyvc.heap import (alloc, HPath, LoopSpec, Contract, Ref, Str, NONE, XR, SeqStr, RefV, SeqV, StrV, Schema, strc, str_distinct, canon, xr2x, x2xr)
    from pyvc.parsers import split_fn, to_float_ok, to_float_fn
    from pyvc.hlib import init_heap, emit
    from pyvc.xreal import X
    from props import C16
    src = run.src
    fq = "term.Function.parse"
    fn = src.func("term", "Function.parse")
    run.under_contract("term", "Function.parse", fn)
    NODE = "Function.Node"
    # Node fields: the element is identified by the token it was copied from ("" = no element)
    sc = Schema(src, {f"{NODE}.element": "str", f"{NODE}.variable": "str", f"{NODE}.constant": "num", f"{NODE}.left": f"ref:{NODE}", f"{NODE}.right": f"ref:{NODE}"}, [NODE])
    H0 = init_heap(sc)
    el_arity = C16.el_arity
    # ghost (defined once per node when it is created; c = number of nodes created before): the node's postfix print covers the node-creating
    # tokens [gs, ge); wfn(node) = its children are exactly the operands that precede it in postfix order (left before right)
    gs, ge = z3.Function("gs", Ref, z3.IntSort()), z3.Function("ge", Ref, z3.IntSort())
    wfn = z3.Function("postfix_ordered", Ref, z3.BoolSort())
    nT = z3.Function("nT", z3.IntSort(), z3.IntSort())
    jS = z3.Int("j*")
    EMPTY = strc("")

    class NodeCtor(Contract):
        modifies = tuple(sc.fields)

        def call(s, ex, p, recv, args, kwargs, node):
            r = ex.allocate(p, "node")
            a = dict(zip(["element", "variable", "constant", "left", "right"], args)); a.update(kwargs)
            H = p.heap
            p.heap = dict(H)
            el = a.get("element")
            p.heap[f"{NODE}.element"] = z3.Store(H[f"{NODE}.element"], r, el.tok if isinstance(el, C16.ElemV) else EMPTY)
            p.heap[f"{NODE}.variable"] = z3.Store(H[f"{NODE}.variable"], r, ex.unwrap("str", a.get("variable", "")))
            c = a.get("constant")
            p.heap[f"{NODE}.constant"] = z3.Store(H[f"{NODE}.constant"], r, x2xr(ex.num(c, node).x) if c is not None else x2xr(xr.const(float("nan"))))
            p.heap[f"{NODE}.left"] = z3.Store(H[f"{NODE}.left"], r, NONE)
            p.heap[f"{NODE}.right"] = z3.Store(H[f"{NODE}.right"], r, NONE)
            ex.writes |= set(s.modifies)
            p.env["__newnode__"] = (r, el.tok if isinstance(el, C16.ElemV) else None)
            return RefV(r, NODE)

    class ParseExec(C16.InfixExec):
        def ev_Attribute(s, p, e):
            if isinstance(e.value, ast.Name) and isinstance(p.env.get(e.value.id), C16.ElemV) and e.attr == "arity":
                el = p.env[e.value.id]
                s.oblige(f"safety/line{e.lineno - s.fn_line}:attribute `arity` of None", p, C16.is_elem(el.tok))
                return Num(X(xr.F, xr.I0, z3.ToReal(el_arity(el.tok))), False, True, True)
            return super().ev_Attribute(p, e)

        def ev_Call(s, p, e):
            t = ast.unparse(e.func)
            if t == "cls.infix_to_postfix":            # its own contract (proved above): some text, or SyntaxError
                q = p.fork(); s.raised.append((q, "SyntaxError"))
                return StrV(s.fresh(Str, "postfix"))
            if t == "Function.Node":
                return NodeCtor().call(s, p, None, [s.ev(p, a) for a in e.args], {k.arg: s.ev(p, k.value) for k in e.keywords}, e)
            if t == "factory.copy" and p.env.get("factory") == "FUNCTION_FACTORY":     # CloningFactory.copy: ValueError when the key is not registered
                tok = s.unwrap("str", s.ev(p, e.args[0]))
                q = p.fork(); q.pc.append(z3.Not(C16.is_elem(tok))); s.raised.append((q, "ValueError"))
                p.pc.append(C16.is_elem(tok))
                return C16.ElemV(tok)
            if t == "to_float" and len(e.args) == 1:
                v = s.ev(p, e.args[0])
                if isinstance(v, StrV):
                    q = p.fork(); q.pc.append(z3.Not(to_float_ok(v.t))); s.raised.append((q, "ValueError"))
                    p.pc += [to_float_ok(v.t), canon(to_float_fn(v.t))]
                    return Num(xr2x(to_float_fn(v.t)), False, True)
            return super().ev_Call(p, e)

    def tile(stack, ls, j, k, now):
        x = stack[j]
        return z3.Implies(z3.And(j >= 0, j < ls), z3.And(x != NONE, alloc(x) < now, wfn(x), gs(x) < ge(x), gs(x) >= 0, z3.Implies(j == 0, gs(x) == 0),
                                                        ge(x) == z3.If(j + 1 < ls, gs(stack[j + 1]), nT(k))))

    def inv(ex_, p, k, seq):
        stack = ex_.local(p, "stack").q
        ls = z3.Length(stack)
        return z3.And(tile(stack, ls, jS, k, ex_.now(p)), nT(k) >= 0, z3.Implies(ls == 0, nT(k) == 0))

    def inst(ex_, p, k, seq):
        stack = ex_.local(p, "stack").q
        ls = z3.Length(stack)
        return [tile(stack, ls, j, k, ex_.now(p)) for j in (ls - 1, ls - 2, ls - 3, jS + 1, jS - 1)]

    def ghost(ex_, q, k, seq):
        if "__newnode__" not in q.env:
            return [nT(k + 1) == nT(k)]
        r, tok = q.env["__newnode__"]
        L, R = q.heap[f"{NODE}.left"][r], q.heap[f"{NODE}.right"][r]
        c = nT(k)
        ar = el_arity(tok) if tok is not None else z3.IntVal(0)
        child = z3.If(L != NONE, L, R)
        return [nT(k + 1) == c + 1, ge(r) == c + 1,
                gs(r) == z3.If(ar == 2, gs(L), z3.If(ar == 1, gs(child), c)),
                wfn(r) == z3.If(ar == 2, z3.And(L != NONE, R != NONE, wfn(L), wfn(R), ge(L) == gs(R), ge(R) == c),
                                z3.If(ar == 1, z3.And(child != NONE, z3.Or(L == NONE, R == NONE), wfn(child), ge(child) == c), z3.And(L == NONE, R == NONE)))]

    # arities of the registered elements are 0, 1 or 2 (read from the source of both factory tables)
    rows = read_elements(src, "FunctionFactory._create_operators")[1] + read_elements(src, "FunctionFactory._create_functions")[1]
    ar_ok = bool(rows) and all(r[2] in (0, 1, 2) for r in rows)
    run.add(static("factory.FunctionFactory/arities_are_0_1_2", ar_ok, f"arities {sorted({r[2] for r in rows})} over {len(rows)} registered elements", fn="factory.FunctionFactory"))
    tS = z3.Const("t*", Str)
    ex = ParseExec(src, "term", sc, contracts={}, interfaces={}, inline=set(),
                   loops={0: LoopSpec(inv, inst=inst, ghost=ghost, name="loop0.tokens", modifies=set(sc.fields))}, fnname=fq)
    ex.skolems = [jS, jS + 1, jS - 1]
    formula = z3.Const("formula", Str)
    pre = [z3.Not(C16.is_elem(strc(x))) for x in ("(", ")", ",")] + [nT(0) == 0]
    # instances of the arity fact at the tokens the body inspects are added where `element.arity` is read: here as a quantifier-free schema over the
    # havocked loop variable is not possible, so the fact is given for every Str through one universally quantified axiom (EPR-style, decidable)
    t_ = z3.Const("t", Str)
    pre.append(z3.ForAll([t_], z3.Implies(C16.is_elem(t_), z3.And(el_arity(t_) >= 0, el_arity(t_) <= 2))))
    outs = ex.run_fn(fn, HPath({"cls": "Function", "formula": StrV(formula)}, pre, H0))
    emit(run, ex, fq, [], RP_FORM)
    n_ret = 0
    for i, (kind, val, q) in enumerate(outs):
        tag = f"[path{i}]"
        if kind == "raise":
            if val not in ("SyntaxError", "ValueError"):
                run.add(Obl(f"{fq}/raises.no_{val}{tag}", q.pc + str_distinct(), z3.BoolVal(False), fn=fq, meta={"replay": RP_FORM}))
            continue
        n_ret += 1
        r = val.r
        n = z3.Length(split_fn(q.env["postfix"].t))
        # success => ONE tree that covers every operand/element token of the postfix text, children in postfix order (left operand first)
        run.add(Obl(f"{fq}/accepts_only_one_complete_ordered_tree{tag}", q.pc + str_distinct(), z3.And(r != NONE, gs(r) == 0, ge(r) == nT(n), wfn(r)), fn=fq, meta={"replay": RP_FORM}))
    run.add(static(f"{fq}/returns", n_ret > 0, f"{n_ret} returning path(s)", fn=fq))


# ------------------------------------------------------------------------------------------------ Function.Node.evaluate (recursion contract)
def verify_node_evaluate(run):
    from pyvc.heap import (HeapExec, HPath, Contract, Ref, Str, NONE, XR, RefV, StrV, Schema, strc, str_distinct, canon, xr2x, x2xr)
    from pyvc.hlib import init_heap, emit
    from props import C16
    src = run.src
    fq = "term.Function.Node.evaluate"
    fn = src.func("term", "Function.Node.evaluate")
    run.under_contract("term", "Function.Node.evaluate", fn)
    NODE = "Function.Node"
    sc = Schema(src, {f"{NODE}.element": "str", f"{NODE}.variable": "str", f"{NODE}.constant": "num", f"{NODE}.left": f"ref:{NODE}", f"{NODE}.right": f"ref:{NODE}"}, [NODE])
    H0 = init_heap(sc)
    EMPTY = strc("")
    ar = C16.el_arity
    ap0 = z3.Function("apply0", Str, XR); ap1 = z3.Function("apply1", Str, XR, XR); ap2 = z3.Function("apply2", Str, XR, XR, XR)      # element.method(...)
    d_has = z3.Function("vars_has", Str, z3.BoolSort()); d_get = z3.Function("vars_get", Str, XR); d_nonempty = z3.Bool("vars_nonempty")
    val = z3.Function("value_of_tree", Ref, XR)          # ghost: the documented value of the tree (defined by recursion on the finite tree)
    okv = z3.Function("evaluable", Ref, z3.BoolSort())   # ghost: every operator has the operands its arity needs, every variable has a value
    height = z3.Function("height", Ref, z3.IntSort())
    self_ = z3.Const("self", Ref)
    E, V, K, L, R = (H0[f"{NODE}.{f}"] for f in ("element", "variable", "constant", "left", "right"))

    def unfold(n, with_map):
        """defining equations of the ghost functions at node n (the statement: operator/function applied to (left, right) in that order, a
        unary element to its only child, a variable looked up in the map, otherwise the constant)"""
        e, l, r = E[n], L[n], R[n]
        child = z3.If(l != NONE, l, r)
        has = z3.And(d_nonempty, d_has(V[n])) if with_map else z3.BoolVal(False)
        v = z3.If(e != EMPTY, z3.If(ar(e) == 0, ap0(e), z3.If(ar(e) == 1, ap1(e, val(child)), z3.If(ar(e) == 2, ap2(e, val(l), val(r)), x2xr(xr.const(float("nan")))))),
                  z3.If(V[n] != EMPTY, d_get(V[n]), K[n]))
        o = z3.If(e != EMPTY, z3.If(ar(e) == 1, z3.And(child != NONE, okv(child)), z3.If(ar(e) == 2, z3.And(l != NONE, r != NONE, okv(l), okv(r)), z3.BoolVal(True))),
                  z3.If(V[n] != EMPTY, has, z3.BoolVal(True)))
        return [val(n) == v, okv(n) == o]

    class DictA:
        pass

    class EvalContract(Contract):
        def call(s, ex, p, recv, args, kwargs, node):
            ex.oblige(f"decreases/line{node.lineno - ex.fn_line}:the recursive call is on a child (smaller height)", p, z3.And(recv.r != NONE, height(recv.r) < height(self_), height(recv.r) >= 0))
            q = p.fork(); q.pc.append(z3.Not(okv(recv.r))); ex.raised.append((q, "ValueError"))
            p.pc += [okv(recv.r), canon(val(recv.r))]
            return Num(xr2x(val(recv.r)), True, False)

    class EvalExec(HeapExec):
        def ev_Attribute(s, p, e):
            if ast.unparse(e) == "self.element.arity":
                el = s.ev(p, e.value)
                s.oblige(f"safety/line{e.lineno - s.fn_line}:attribute `arity` of None", p, el.t != EMPTY)
                return Num(X_(z3.ToReal(ar(el.t))), False, True, True)
            return super().ev_Attribute(p, e)

        def method_call(s, p, recv, meth, args, kwargs, node):
            if isinstance(recv, StrV) and meth == "method":
                s.oblige(f"safety/line{node.lineno - s.fn_line}:call `.method` on None", p, recv.t != EMPTY)
                xs = [x2xr(s.num(a, node).x) for a in args]
                t = ap0(recv.t) if not xs else ap1(recv.t, xs[0]) if len(xs) == 1 else ap2(recv.t, xs[0], xs[1])
                p.pc.append(canon(t))
                return Num(xr2x(t), True, False)
            if isinstance(recv, RefV) and meth == "evaluate":
                return EvalContract().call(s, p, recv, args, kwargs, node)
            return super().method_call(p, recv, meth, args, kwargs, node)

        def truth(s, v, node, p=None):
            if isinstance(v, DictA):
                return d_nonempty
            return super().truth(v, node, p)

        def contains(s, p, item, coll, e):
            if isinstance(coll, DictA):
                return d_has(s.unwrap("str", item))
            return super().contains(p, item, coll, e)

        def ev_Subscript(s, p, e):
            base = s.ev(p, e.value)
            if isinstance(base, DictA):
                k = s.unwrap("str", s.ev(p, e.slice))
                s.oblige(f"safety/line{e.lineno - s.fn_line}:key present (no KeyError)", p, z3.And(d_nonempty, d_has(k)))
                p.pc.append(canon(d_get(k)))
                return Num(xr2x(d_get(k)), True, False)
            return super().ev_Subscript(p, e)

        def ev_Call(s, p, e):
            if isinstance(e.func, ast.Name) and e.func.id == "scalar" and len(e.args) == 1:
                return s.num(s.ev(p, e.args[0]), e)
            return super().ev_Call(p, e)

    X_ = lambda v: xr.X(xr.F, xr.I0, v)
    for mode in ("with_variables", "without_variables"):
        ex = EvalExec(src, "term", sc, contracts={}, interfaces={}, inline=set(), loops={}, fnname=fq)
        wm = mode == "with_variables"
        l, r = L[self_], R[self_]
        t_ = z3.Const("t", Str)
        pre = [self_ != NONE, height(self_) >= 0,
               z3.Implies(l != NONE, z3.And(height(l) >= 0, height(l) < height(self_))), z3.Implies(r != NONE, z3.And(height(r) >= 0, height(r) < height(self_))),
               z3.ForAll([t_], z3.Implies(d_has(t_), d_nonempty)),
               # trees come from Function.parse, whose proved postcondition (postfix_ordered) gives a unary element exactly one child
               z3.Implies(z3.And(E[self_] != EMPTY, ar(E[self_]) == 1), z3.Or(l == NONE, r == NONE))] + unfold(self_, wm)
        outs = ex.run_fn(fn, HPath({"self": RefV(self_, NODE), "local_variables": DictA() if wm else None}, pre, H0))
        emit(run, ex, f"{fq}[{mode}]", [], RP_FORM)
        for i, (kind, v, q) in enumerate(outs):
            tag = f"[{mode}][path{i}]"
            if kind == "raise":
                run.add(Obl(f"{fq}/raises_ValueError_only_when_not_evaluable{tag}", q.pc + str_distinct(), z3.And(z3.BoolVal(v == "ValueError"), z3.Not(okv(self_))), fn=fq, meta={"replay": RP_FORM}))
            else:
                run.add(Obl(f"{fq}/ensures.value_of_the_tree{tag}", q.pc + str_distinct(), z3.And(okv(self_), x2xr(ex.num(v).x) == val(self_)), fn=fq, meta={"replay": RP_FORM}))
        run.add(static(f"{fq}/writes_nothing[{mode}]", not ex.writes, f"heap fields written: {sorted(ex.writes)}", fn=fq))


# ------------------------------------------------------------------------------------------------ Function.load / configure: always the CURRENT formula
def verify_function_load(run):
    """load() parses the current formula unconditionally (a previously loaded tree is replaced); configure(text) stores the text and loads it -
    so an ill-formed formula is rejected whenever it is loaded, and a re-configured term evaluates its new formula"""
    from pyvc.reprexec import ReprExec, RefO, SStr, ObjRef, NONE_REF
    from pyvc.heap import Str, strc
    from pyvc.numexec import Obj, Path
    src = run.src
    parse_of = z3.Function("parse_of", Str, ObjRef)          # the tree Function.parse returns for a text (when it accepts it)
    parse_ok = z3.Function("parse_accepts", Str, z3.BoolSort())

    class LoadExec(ReprExec):
        def ev_Call(s, p, e):
            t = ast.unparse(e.func)
            if t == "self.parse" and len(e.args) == 1:
                v = s.ev(p, e.args[0])
                txt = v.t if isinstance(v, SStr) else strc(v) if isinstance(v, str) else None
                if txt is None:
                    raise Unsupported("parse of a non-text")
                q = Path(p.env, list(p.pc)); q.pc.append(z3.Not(parse_ok(txt))); s.raised.append((q, "SyntaxError"))
                p.pc += [parse_ok(txt), parse_of(txt) != NONE_REF]
                return RefO(parse_of(txt))
            if t == "bool" and len(e.args) == 1:
                from pyvc.numexec import Bool
                return Bool(s.truth(s.ev(p, e.args[0]), e), False, True)
            return super().ev_Call(p, e)
    for meth in ("load", "configure"):
        fq = f"term.Function.{meth}"
        fn = src.func("term", f"Function.{meth}")
        run.under_contract("term", f"Function.{meth}", fn)
        root0, formula0, param = RefO(z3.Const("root", ObjRef)), SStr(z3.Const("formula", Str)), SStr(z3.Const("parameters", Str))
        ex = LoadExec(src, "term", xr.Ax(), selfobj=Obj("Function", {"root": root0, "formula": formula0}))
        ex.target_cls, ex.cur_cls = "Function", ["Function"]
        env = {"self": ex.selfobj}
        if meth == "configure":
            env["parameters"] = param
        try:
            outs = ex.run(fn, env)
        except Exception as ex_:  # noqa
            run.add(undecided(f"{fq}/subset", f"outside the verified subset: {type(ex_).__name__}: {ex_}", fn=fq, meta={"replay": RP_FORM})); continue
        text = param.t if meth == "configure" else formula0.t
        n_ret = 0
        for k, (kind, v, q) in enumerate(outs):
            if kind != "return":
                continue
            n_ret += 1
            F = q.env.get("__self_fields__", ex.selfobj.fields)
            rt, fm = F.get("root"), F.get("formula")
            goal = z3.And(rt.r == parse_of(text) if isinstance(rt, RefO) else z3.BoolVal(False), parse_ok(text), (fm.t == text) if isinstance(fm, SStr) else z3.BoolVal(False))
            run.add(Obl(f"{fq}/ensures.the_tree_is_the_parse_of_the_current_text[path{k}]", q.pc, goal, fn=fq, meta={"replay": RP_FORM}))
        for j, (q, exc) in enumerate(ex.raised):
            run.add(Obl(f"{fq}/raises.SyntaxError_iff_the_text_is_rejected[raise{j}]", q.pc, z3.And(z3.BoolVal(exc == "SyntaxError"), z3.Not(parse_ok(text))), fn=fq, meta={"replay": RP_FORM}))
        run.add(static(f"{fq}/returns", n_ret >= 1, f"{n_ret} returning path(s), {len(ex.raised)} raising", fn=fq))


def build(run):
    run.not_demanded = tuple(NOT_DEMANDED)
    run.assume("A-REAL", "A-NP", "A-PY", "A-LIFT", "A-STR", "A-MSG", "A-LOG", "A-POSTFIX")
    from props import C16
    plan = [("factory.FunctionFactory._create_operators", verify_table), ("factory.FunctionFactory._create_functions", verify_functions),
            ("operation.Op.relational", verify_relational), ("term.Function.infix_to_postfix", C16.verify_infix_to_postfix),
            ("term.Function.parse", verify_function_parse), ("term.Function.Node.evaluate", verify_node_evaluate), ("term.Function.load", verify_function_load),
            # WHERE every token ends up in the postfix text, for formulas over binary operators and parentheses (props/shunting.py): the positional form of
            # "higher precedence binds tighter, equal precedence associates by the sign, parentheses override"
            ("term.Function.infix_to_postfix/order", lambda r: __import__("props.shunting", fromlist=["x"]).verify_infix_order(r, RP_FORM))]
    for fq, f in plan:
        try:
            f(run)
        except ANALYSIS as ex_:
            run.add(undecided(f"{fq}/subset", f"outside the verified subset: {ex_}", fn=fq))
        except NotFound as ex_:
            run.add(static(f"{fq}/exists", False, f"function under contract not found: {ex_}", fn=fq))
    # bounded stand-ins (level B): formulas generated from expression trees against a reference evaluator written from the operator table.
    # Classes outside what the property states are not demanded: literals in scientific notation with a signed exponent (`1e-3` is split
    # at the sign by format_infix; the statement's literals are decimal), the postfix print of a literal with more decimals than
    # settings.decimals (number formatting, A-FMT), and token arrangements that are not one of the listed ill-formed kinds (`x 2 +`).
    budget = 200 if run.tier == "quick" else 4000
    run.bounded("term.Function/formulas_vs_reference_evaluator.runtime", N_, "replay_formulas", [dict(seed=run.seed, budget=budget, skip_classes=NOT_DEMANDED)],
                bound=f"all ordered operator pairs in every operand position, every function against every operator, every registered element on grids, 3x{budget} random well-typed trees to depth 5, "
                      "x 3 parenthesis styles x spacings x scalar/array valuations; postfix round trip; 4 ill-formed variants per text; not demanded: " + ", ".join(NOT_DEMANDED))
    run.bounded("factory.FunctionFactory/registered_table_vs_oracle.runtime", N_, "replay_table", [dict(seed=run.seed)], bound="the 13 operators and 34 functions registered at run time against the oracle table")


if __name__ == "__main__":
    sys.exit(main("C17", build, "Function formulas follow the documented precedence and associativity"))
