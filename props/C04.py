"""C04 - T-norms and S-norms compute their formulas and obey the norm laws (DESIGN 8/C04)."""
import sys, os
sys.path.insert(0, os.path.dirname(os.path.dirname(os.path.abspath(__file__))))
import z3
from pyvc import xreal as xr
from pyvc.numexec import NumExec, Num, Obj, Unsupported, ANALYSIS
from pyvc.solve import Obl, static, undecided
from pyvc.runner import main
from contracts import norms as C


def compute(run, norm, ax, *args):
    """symbolic execution of the real `norm.<norm>.compute` body on the given operand X values"""
    fn = run.src.func("norm", f"{norm}.compute")
    names = [a.arg for a in fn.args.args]
    ex = NumExec(run.src, "norm", ax, selfobj=Obj(norm, {}))
    env = {"self": ex.selfobj}
    for nm, x in zip(names[1:], args):
        env[nm] = Num(x, data=True, py=False, alias=True)
    outs = ex.run(run.src.func("norm", f"{norm}.compute"), env)
    rets = [(k, v, p) for k, v, p in outs]
    if len(rets) != 1 or rets[0][0] != "return":
        raise Unsupported(f"{norm}.compute: expected one returning path, got {[(k) for k, _, _ in rets]}")
    v = ex.num(rets[0][1])
    return v.x, ex


def class_set(run, name, in_source, covered, what):
    """every class the contracts cover must exist (a missing one is a violation: the statement names it); a class the source has IN ADDITION has no
    contract - nothing is claimed about it: undecided, never an alarm"""
    missing, extra = sorted(set(covered) - set(in_source)), sorted(set(in_source) - set(covered))
    if missing or not extra:
        run.add(static(name, not missing, f"{what} in source {sorted(in_source)}; contracts cover {sorted(covered)}" + (f"; MISSING {missing}" if missing else "")))
    else:
        run.add(undecided(name, f"{what} without a contract: {extra} (new classes are outside what this check decides)"))


def ieee_commutativity(run):
    """IEEE-754: T(a, b) and T(b, a) are EQUAL in doubles (or both NaN) for all doubles a, b of [0, 1].  The real body is evaluated in z3's Float64
    theory twice; additions, multiplications, max and min take their operands in a canonical order (they are commutative bit for bit), so a
    syntactically symmetric body gives the same term twice and the obligation is immediate, while `a > 1.0 - b` against `b > 1.0 - a` is decided by
    bit-blasting - over the reals the two are the same test, in doubles they differ when a + b rounds to 1."""
    from pyvc.fpexec import FpExec, F64, fp
    import ast
    out = []
    a, b = z3.FP("a", F64), z3.FP("b", F64)
    unit = [z3.fpGEQ(a, fp(0.0)), z3.fpLEQ(a, fp(1.0)), z3.fpGEQ(b, fp(0.0)), z3.fpLEQ(b, fp(1.0))]
    for norm in list(C.TNORMS) + list(C.SNORMS):
        fq = f"norm.{norm}.compute"
        if not run.src.has_func("norm", f"{norm}.compute"):
            continue
        fn = run.src.func("norm", f"{norm}.compute")
        names = [x.arg for x in fn.args.args][1:]
        rp = {"replay": {"module": "contracts.norms", "func": "replay", "kwargs": {"clause": "comm", "norm": norm}, "vars": {}, "fp": {"a": "a", "b": "b"}}, "sat_final": True, "best_effort": True}
        try:
            res = []
            for (u, v) in ((a, b), (b, a)):
                ex = FpExec({}, u); ex.commute = True
                res.append(ex.run(fn, env={names[0]: u, names[1]: v}))
            if res[0] is None or res[1] is None:
                raise Unsupported("no return value")
            u, v = res
            if z3.is_bool(u) or z3.is_bool(v):
                raise Unsupported("boolean result")
            goal = z3.BoolVal(True) if u.eq(v) else z3.Or(z3.And(z3.fpIsNaN(u), z3.fpIsNaN(v)), z3.fpEQ(u, v))          # exactly (fpEQ: +0 == -0)
            o = Obl(f"{fq}/ieee.commutative_in_doubles", unit, goal, fn=fq, meta=rp)
            o.fpvars = {"a": a, "b": b}
            o.timeout_s = 6          # best effort: a body that is not syntactically symmetric and multiplies needs a bit-blasted multiplier
            out.append(o)
        except ANALYSIS as ex_:
            out.append(undecided(f"{fq}/ieee.subset", f"outside the floating-point evaluator: {ex_}", fn=fq, meta={"replay": {"module": "contracts.norms", "func": "replay", "kwargs": {"clause": "sampled", "norm": norm}, "vars": {}}, "best_effort": True}))
    return out


def build(run):
    A_ = None
    run.assume("A-REAL", "A-NP", "A-PY", "A-LIFT")
    src = run.src
    # the set of norms under contract is read from the source: every concrete subclass of TNorm/SNorm with a closed form
    tn = [c for c in src.subclasses("norm", "TNorm") if c not in ("NormLambda", "NormFunction")]
    sn = [c for c in src.subclasses("norm", "SNorm") if c not in ("NormLambda", "NormFunction")]
    class_set(run, "norm/classes", list(tn) + list(sn), list(C.TNORMS) + list(C.SNORMS), "T-norms and S-norms")
    for norm in list(C.TNORMS) + list(C.SNORMS):
        fq = f"norm.{norm}.compute"
        if not src.has_func("norm", f"{norm}.compute"):
            run.add(static(f"{fq}/exists", False, "function under contract not found in the source"))
            continue
        fn = src.func("norm", f"{norm}.compute")
        run.under_contract("norm", f"{norm}.compute", fn)
        is_t = norm in C.TNORMS
        try:
            ax = xr.Ax(); A = xr.SymAlg(ax)
            # operands are doubles in [0,1] (the precondition of every clause): finite by construction
            a, b, c = xr.finsym("a"), xr.finsym("b"), xr.finsym("c")
            wf = []
            pre2 = wf + [C.unit(A, a, b)]
            pre3 = wf + [C.unit(A, a, b, c)]
            Tab, ex = compute(run, norm, ax, a, b)
            Tba, _ = compute(run, norm, ax, b, a)
            Tcb, _ = compute(run, norm, ax, c, b)
            rp = lambda clause, vs: {"replay": {"module": "contracts.norms", "func": "replay", "kwargs": {"clause": clause, "norm": norm},
                                                "vars": {v: v for v in vs}}}
            # vacuity guard: the precondition is satisfiable
            run.add(Obl(f"{fq}/pre.sat", pre3, None, expect="sat", fn=fq))
            run.add(static(f"{fq}/oblivious", not ex.nonoblivious, f"data-dependent Python control: {ex.nonoblivious}" if ex.nonoblivious else
                           "no Python branch, builtin min/max/bool or raise depends on the operands (element-wise on arrays by A-LIFT)", fn=fq,
                           meta=rp("elementwise", "abc")))
            for nm, pc, goal in ex.safety:
                run.add(Obl(f"{fq}/safety/{nm}", pre2 + pc, goal, fn=fq))
            spec = C.ALL[norm](A, a, b)
            run.add(Obl(f"{fq}/ensures.formula", pre2 + ax.axioms(), xr.same(Tab, spec), fn=fq, meta=rp("formula", "ab")))
            if norm == "UnboundedSum":
                run.add(Obl(f"{fq}/ensures.range", pre2, xr.same(Tab, xr.add(a, b)), fn=fq, meta=rp("range", "ab")))
                continue
            inunit = lambda t: z3.And(xr.fin(t), t.v >= 0, t.v <= 1)
            run.add(Obl(f"{fq}/ensures.range", pre2, inunit(Tab), fn=fq, meta=rp("range", "ab")))
            run.add(Obl(f"{fq}/law.comm", pre2, xr.same(Tab, Tba), fn=fq, meta=rp("comm", "ab")))
            run.add(Obl(f"{fq}/law.mono", pre3 + [xr.le(a, c)], xr.le(Tab, Tcb), fn=fq, meta=rp("mono", "abc")))
            e, z = (xr.const(1.0), xr.const(0.0)) if is_t else (xr.const(0.0), xr.const(1.0))
            Tae, _ = compute(run, norm, ax, a, e); Tea, _ = compute(run, norm, ax, e, a)
            Taz, _ = compute(run, norm, ax, a, z); Tza, _ = compute(run, norm, ax, z, a)
            run.add(Obl(f"{fq}/law.identity", pre2, z3.And(xr.same(Tae, a), xr.same(Tea, a)), fn=fq, meta=rp("identity", "a")))
            run.add(Obl(f"{fq}/law.annihilator", pre2, z3.And(xr.same(Taz, z), xr.same(Tza, z)), fn=fq, meta=rp("annihilator", "a")))
            bound = xr.le(Tab, xr.np_minimum(a, b)) if is_t else xr.ge(Tab, xr.np_maximum(a, b))
            run.add(Obl(f"{fq}/law.{'le_min' if is_t else 'ge_max'}", pre2, bound, fn=fq, meta=rp("bound", "ab")))
            if is_t or norm in C.ASSOC_SNORMS:
                # modular: the inner applications are used through this function's own contract `ensures.range`
                # (a finite value in [0,1]) -- their value is the code's own symbolic result
                # (every application is replaced by the closed form: `ensures.formula` above, applicable to the outer applications because the inner
                # results lie in [0,1] by `ensures.range`; a lemma about the documented formula, independent of how the body spells it)
                u, w = xr.finite_part(C.ALL[norm](A, a, b)), xr.finite_part(C.ALL[norm](A, b, c))
                l, r = xr.finite_part(C.ALL[norm](A, u, c)), xr.finite_part(C.ALL[norm](A, a, w))
                run.add(Obl(f"{fq}/law.assoc", pre3 + [C.unit(A, u, w)] + ax.axioms(), l.v == r.v, fn=fq, meta=rp("assoc", "abc")))
            if norm in C.DUAL:
                t = C.DUAL[norm]
                one = xr.const(1.0)
                Td, _ = compute(run, t, ax, xr.sub(one, a), xr.sub(one, b))
                run.add(Obl(f"{fq}/law.dual[{t}]", pre2, xr.same(Tab, xr.sub(one, Td)), fn=fq, meta=rp("dual", "ab")))
        except ANALYSIS as ex_:
            run.add(undecided(f"{fq}/subset", f"outside the verified subset: {ex_}", fn=fq,
                              meta={"replay": {"module": "contracts.norms", "func": "replay", "kwargs": {"clause": "all", "norm": norm}, "vars": {}}}))
    run.add(ieee_commutativity(run))
    ns = 300 if run.tier == "quick" else 4000
    run.bounded("norm.*.compute/sampled_laws.runtime", "contracts.norms", "replay", [dict(clause="sampled", norm=nm, vals={"seed": run.seed, "n": ns}) for nm in list(C.TNORMS) + list(C.SNORMS)],
                bound=f"per norm: {ns} x (a complement pair (x, 1-x) in both orders, a pair of random doubles, a pair on the dyadic grid k/64): formula, range, commutativity, "
                      "min/max bound, monotonicity, duality; a 16x16 grid of special values with identity and annihilator; arrays and broadcasting against the elements one by one")
    # every S-norm with a T-norm of the same family is paired, and vice versa (static)
    run.add(static("norm/dual.pairs", sorted(C.DUAL.values()) == sorted(C.TNORMS), f"dual pairs {C.DUAL}"))


if __name__ == "__main__":
    sys.exit(main("C04", build, "T-norms and S-norms compute their formulas and obey the norm laws"))
