"""C20 - Temporary settings are always restored (DESIGN 8/C20).

Settings.context manipulates dictionaries keyed by the names of its own keyword parameters, so the key universe is finite and
read from the signature; values and None-ness are symbolic.  A small symbolic executor for exactly the constructs of that
function (dict comprehension over locals().items(), `in`, pop, item assignment, vars(self).copy(), for over .items() with
setattr, try/finally around yield) runs the real AST.  The with-body is an arbitrary state change (havoc of every setting) and
may leave normally or by an exception; assumption A-CTX: contextlib.contextmanager runs the code after `yield` once on a normal
exit and, when the body raises, raises at the `yield` so that only `finally:` blocks (and matching except handlers) run.
"""
import sys, os
sys.path.insert(0, os.path.dirname(os.path.dirname(os.path.abspath(__file__))))
import ast
import z3
from pyvc.numexec import Unsupported, ANALYSIS
from pyvc.solve import Obl, static, undecided
from pyvc.runner import main
from pyvc.source import NotFound

Val = z3.DeclareSort("Val")
NONEV = z3.Const("None", Val)
N = "contracts.settings_native"


class SymDict:
    def __init__(s, items=None):
        s.items = dict(items or {})     # key -> (present Bool, value Val)

    def copy(s):
        return SymDict(s.items)


class Self:
    pass


class Ctx:
    """state of one path"""

    def __init__(s, fields, env, pc, raised=False):
        s.fields, s.env, s.pc, s.raised = dict(fields), dict(env), list(pc), raised

    def fork(s):
        c = Ctx(s.fields, {k: (v.copy() if isinstance(v, SymDict) else v) for k, v in s.env.items()}, s.pc, s.raised)
        c.marks = dict(getattr(s, "marks", {}))
        return c


class CtxExec:
    def __init__(s, src, fn, field_names):
        s.src, s.fn, s.field_names = src, fn, field_names
        s.safety = []
        s.fresh = 0
        s.props = {}      # property setters of Settings: name -> field written

    def run(s, c):
        return s.block([c], s.fn.body)

    def block(s, cs, body):
        for st in body:
            nxt = []
            for c in cs:
                if c.raised:
                    nxt.append(c)      # an exception is propagating: statements are skipped (finally handled in Try)
                else:
                    nxt += s.stmt(c, st)
            cs = nxt
        return cs

    def stmt(s, c, n):
        if isinstance(n, ast.Expr) and isinstance(n.value, ast.Constant):
            return [c]
        if isinstance(n, ast.Expr) and isinstance(n.value, ast.Yield):
            return s.do_yield(c)
        if isinstance(n, ast.Assign) and len(n.targets) == 1:
            t = n.targets[0]
            if isinstance(t, ast.Name):
                c.env[t.id] = s.ev(c, n.value)
                return [c]
            if isinstance(t, ast.Subscript) and isinstance(t.value, ast.Name) and isinstance(c.env.get(t.value.id), SymDict):
                key = s.ev(c, t.slice)
                if not isinstance(key, str):
                    raise Unsupported(f"dict key at line {n.lineno}")
                v = s.ev(c, n.value)
                c.env[t.value.id].items[key] = (z3.BoolVal(True), v) if not isinstance(v, tuple) else v
                return [c]
        if isinstance(n, ast.If):
            cond = s.cond(c, n.test)
            a, b = c.fork(), c.fork()
            a.pc.append(cond); b.pc.append(z3.Not(cond))
            out = []
            if not z3.is_false(z3.simplify(cond)):
                out += s.block([a], n.body)
            if not z3.is_true(z3.simplify(cond)):
                out += s.block([b], n.orelse)
            return out
        if isinstance(n, ast.For):
            return s.for_items(c, n)
        if isinstance(n, ast.Try):
            outs = s.block([c], n.body)
            res = []
            for o in outs:
                handled = o
                if o.raised and n.handlers:
                    # `except Exception:` does not catch BaseException (KeyboardInterrupt, SystemExit): both kinds of exit exist
                    for h in n.handlers:
                        catches_all = h.type is None or (isinstance(h.type, ast.Name) and h.type.id == "BaseException")
                        hb = o.fork(); hb.raised = False
                        hb.pc.append(z3.BoolVal(True) if catches_all else s.exc_is_exception)
                        hres = s.block([hb], h.body)
                        for r in hres:
                            res_f = s.block([s.unraise(r)], n.finalbody) if n.finalbody else [r]
                            for rf in res_f:
                                rf.raised = rf.raised or r.raised
                            res += res_f
                        if not catches_all:
                            nb = o.fork(); nb.pc.append(z3.Not(s.exc_is_exception))
                            fin = s.block([s.unraise(nb)], n.finalbody) if n.finalbody else [nb]
                            for f in fin:
                                f.raised = True
                            res += fin
                    continue
                was = o.raised
                fin = s.block([s.unraise(o)], n.finalbody) if n.finalbody else [o]
                for f in fin:
                    f.raised = was or f.raised
                res += fin
            return res
        if isinstance(n, ast.Raise):
            c.raised = True
            return [c]
        if isinstance(n, ast.FunctionDef):
            c.env[n.name] = ("localfn", n)
            return [c]
        if isinstance(n, ast.Expr) and isinstance(n.value, ast.Call):
            f = n.value.func
            if isinstance(f, ast.Name) and f.id == "setattr":
                obj, key, val = (s.ev(c, a) for a in n.value.args)
                s.setattr(c, key, val, z3.BoolVal(True))
                return [c]
            if isinstance(f, ast.Name) and isinstance(c.env.get(f.id), tuple) and c.env[f.id][0] == "localfn":
                return s.block([c], c.env[f.id][1].body)
            if isinstance(f, ast.Attribute) and f.attr == "update" and ast.unparse(f.value) == "vars(self)":
                d = s.ev(c, n.value.args[0])
                for k, (pres, v) in d.items.items():
                    s.setattr(c, k, v, pres, direct=True)
                return [c]
        raise Unsupported(f"statement at line {n.lineno}: {ast.unparse(n)[:80]}")

    def unraise(s, c):
        d = c.fork(); d.raised = False
        return d

    def do_yield(s, c):
        """the with-body: arbitrary assignments to any setting, then a normal exit or an exception raised at the yield"""
        c.marks = getattr(c, "marks", {})
        c.marks["inside"] = dict(c.fields)
        s.fresh += 1
        body = {k: z3.Const(f"body{s.fresh}.{k}", Val) for k in c.fields}
        c.fields = dict(body)
        c.marks["after_body"] = dict(body)
        a, b = c.fork(), c.fork()
        b.raised = True
        return [a, b]

    def setattr(s, c, key, val, guard, direct=False):
        if not isinstance(key, str):
            raise Unsupported("setattr with a symbolic key")
        if isinstance(val, tuple):      # (present, value) from a dict lookup
            pres, val = val
            guard = z3.And(guard, pres)
        tgt = key if direct else s.props.get(key, key)
        old = c.fields.get(tgt)
        if old is None:
            old = z3.Const(f"absent.{tgt}", Val)
        c.fields[tgt] = z3.If(guard, val, old)

    def for_items(s, c, n):
        # for key, value in <dict>.items(): ...   - unrolled over the finite key universe, each iteration guarded by presence
        it = n.iter
        if not (isinstance(it, ast.Call) and isinstance(it.func, ast.Attribute) and it.func.attr == "items" and isinstance(n.target, ast.Tuple)):
            raise Unsupported(f"for at line {n.lineno}")
        d = s.ev(c, it.func.value)
        if not isinstance(d, SymDict):
            raise Unsupported("for over a non-dict")
        kn, vn = n.target.elts[0].id, n.target.elts[1].id
        cs = [c]
        for key, (pres, val) in list(d.items.items()):
            nxt = []
            for cc in cs:
                cc.env[kn], cc.env[vn] = key, val
                cc.env["__guard__"] = pres
                nxt += s.guarded_body(cc, n.body, pres)
            cs = nxt
        return cs

    def guarded_body(s, c, body, guard):
        for st in body:
            if isinstance(st, ast.Expr) and isinstance(st.value, ast.Call) and isinstance(st.value.func, ast.Name) and st.value.func.id == "setattr":
                obj, key, val = (s.ev(c, a, guard) for a in st.value.args)
                s.setattr(c, key, val, guard)
            else:
                raise Unsupported(f"loop body statement at line {st.lineno}")
        return [c]

    def cond(s, c, e):
        if isinstance(e, ast.Compare) and len(e.ops) == 1 and isinstance(e.ops[0], (ast.In, ast.NotIn)):
            k = s.ev(c, e.left); d = s.ev(c, e.comparators[0])
            if isinstance(k, str) and isinstance(d, SymDict):
                pres = d.items.get(k, (z3.BoolVal(False), None))[0]
                return z3.Not(pres) if isinstance(e.ops[0], ast.NotIn) else pres
        raise Unsupported(f"condition {ast.unparse(e)}")

    def ev(s, c, e, guard=None):
        if isinstance(e, ast.Constant):
            return e.value
        if isinstance(e, ast.Name):
            if e.id == "self":
                return Self()
            if e.id in c.env:
                return c.env[e.id]
            raise Unsupported(f"name {e.id}")
        if isinstance(e, ast.DictComp):
            # {key: value for key, value in locals().items() if not (key == "self" or value is None)}
            g = e.generators[0]
            if ast.unparse(g.iter) != "locals().items()" or len(e.generators) != 1:
                raise Unsupported("dict comprehension source")
            kn, vn = g.target.elts[0].id, g.target.elts[1].id
            out = SymDict()
            for name, val in [("self", None)] + [(p_, c.env[p_]) for p_ in s.params]:
                keep = z3.BoolVal(True)
                for cond in g.ifs:
                    keep = z3.And(keep, s.filter_cond(cond, kn, vn, name, val))
                keep = z3.simplify(keep)
                if z3.is_false(keep):
                    continue
                kexp = name if ast.unparse(e.key) == kn else None
                if kexp is None or ast.unparse(e.value) != vn:
                    raise Unsupported("dict comprehension shape")
                out.items[name] = (keep, val if val is not None else NONEV)
            return out
        if isinstance(e, ast.Call):
            f = e.func
            if isinstance(f, ast.Attribute) and f.attr == "copy" and ast.unparse(f.value) == "vars(self)":
                return SymDict({k: (z3.BoolVal(True), v) for k, v in c.fields.items()})
            if isinstance(f, ast.Attribute) and f.attr == "pop" and isinstance(f.value, ast.Name) and isinstance(c.env.get(f.value.id), SymDict):
                key = s.ev(c, e.args[0])
                d = c.env[f.value.id]
                pres, val = d.items.get(key, (z3.BoolVal(False), NONEV))
                s.safety.append((f"line{e.lineno - s.fn.lineno}:pop('{key}') of a present key", list(c.pc), pres))
                del d.items[key]
                return (pres, val)
        if isinstance(e, ast.Subscript) and isinstance(e.value, ast.Name) and isinstance(c.env.get(e.value.id), SymDict):
            key = s.ev(c, e.slice)
            d = c.env[e.value.id]
            if not isinstance(key, str):
                raise Unsupported("symbolic dict key")
            pres, val = d.items.get(key, (z3.BoolVal(False), NONEV))
            g = guard if guard is not None else z3.BoolVal(True)
            s.safety.append((f"line{e.lineno - s.fn.lineno}:no KeyError for ['{key}']", list(c.pc) + [g], pres))
            return val
        raise Unsupported(f"expression {ast.unparse(e)[:80]} at line {e.lineno}")

    def filter_cond(s, cond, kn, vn, name, val):
        src = ast.unparse(cond)
        if src == f"not ({kn} == 'self' or {vn} is None)":
            if name == "self":
                return z3.BoolVal(False)
            return val != NONEV
        if src == f"{kn} != 'self' and {vn} is not None":
            return z3.BoolVal(False) if name == "self" else val != NONEV
        raise Unsupported(f"comprehension filter `{src}`")


def verify_context(run):
    src = run.src
    fq = "library.Settings.context"
    fn = src.func("library", "Settings.context")
    run.under_contract("library", "Settings.context", fn)
    init = src.func("library", "Settings.__init__")
    run.under_contract("library", "Settings.__init__", init)
    decs = [ast.unparse(d) for d in fn.decorator_list]
    run.add(static(f"{fq}/is_contextmanager", decs == ["contextmanager"], f"decorators: {decs}", fn=fq))
    # fields of a Settings object = the attributes assigned in __init__; parameter -> field
    fields = []
    for st in ast.walk(init):
        if isinstance(st, ast.Assign) and len(st.targets) == 1 and isinstance(st.targets[0], ast.Attribute) and ast.unparse(st.targets[0].value) == "self":
            fields.append(st.targets[0].attr)
    params = [a.arg for a in fn.args.kwonlyargs]
    pos = [a.arg for a in fn.args.args]
    run.add(static(f"{fq}/signature", pos == ["self"] and len(params) == len(fields) and not fn.args.vararg and not fn.args.kwarg and all(isinstance(d, ast.Constant) and d.value is None for d in fn.args.kw_defaults),
                   f"keyword-only parameters {params} (all default None); Settings fields {fields}", fn=fq))
    # the field each parameter denotes (factory_manager is a property over _factory_manager)
    field_of = {}
    for p_ in params:
        if p_ in fields:
            field_of[p_] = p_
        elif "_" + p_ in fields and src.has_func("library", f"Settings.{p_}"):
            field_of[p_] = "_" + p_
    run.add(static(f"{fq}/parameters_are_settings", sorted(field_of.values()) == sorted(fields), f"parameter -> field: {field_of}", fn=fq))
    ex = CtxExec(src, fn, fields)
    ex.params = params
    ex.exc_is_exception = z3.Bool("exception_is_an_Exception")       # the propagating exception may also be a BaseException (KeyboardInterrupt ...)
    # property setters (setattr(self, 'factory_manager', v) would go through the setter)
    for p_ in params:
        if p_ not in fields and src.has_func("library", f"Settings.{p_}"):
            try:
                st = src.func("library", f"Settings.{p_}", "setter")
                body = [x for x in st.body if not (isinstance(x, ast.Expr) and isinstance(x.value, ast.Constant))]
                if len(body) == 1 and isinstance(body[0], ast.Assign) and ast.unparse(body[0].targets[0]).startswith("self."):
                    ex.props[p_] = body[0].targets[0].attr
            except NotFound:
                pass
    entry = {f: z3.Const(f"entry.{f}", Val) for f in fields}
    given = {p_: z3.Const(f"arg.{p_}", Val) for p_ in params}
    c0 = Ctx(entry, dict(given), [])
    outs = ex.run(c0)
    rp = {"module": N, "func": "replay_context", "kwargs": {}, "vars": {}}
    seen = {}
    for nm, pc, goal in ex.safety:
        seen[nm] = seen.get(nm, 0) + 1
        run.add(Obl(f"{fq}/safety/{nm}" + (f"#{seen[nm]}" if seen[nm] > 1 else ""), pc, goal, fn=fq, meta={"replay": rp}))
    normal = [o for o in outs if not o.raised]
    exc = [o for o in outs if o.raised]
    run.add(static(f"{fq}/exits", len(normal) >= 1 and len(exc) >= 1, f"{len(normal)} normal and {len(exc)} exceptional exit path(s) through the generator", fn=fq))
    named = {field_of[p_]: given[p_] != NONEV for p_ in params if p_ in field_of}
    for kind, paths in (("normal", normal), ("exception", exc)):
        for i, o in enumerate(paths):
            tag = f"[{kind}#{i}]"
            m = getattr(o, "marks", {})
            if "inside" not in m:
                run.add(static(f"{fq}/reaches_yield{tag}", False, "path never reaches the yield", fn=fq)); continue
            ins, after = m["inside"], m["after_body"]
            inside = z3.And(*[z3.If(named[f], ins[f] == given[[p_ for p_ in params if field_of.get(p_) == f][0]], ins[f] == entry[f]) for f in fields])
            run.add(Obl(f"{fq}/context.inside{tag}", o.pc, inside, fn=fq, meta={"replay": rp}))
            restore = z3.And(*[z3.Implies(named[f], o.fields[f] == entry[f]) for f in fields])
            run.add(Obl(f"{fq}/context.restore{tag}", o.pc, restore, fn=fq, meta={"replay": rp}))
            frame = z3.And(*[z3.Implies(z3.Not(named[f]), o.fields[f] == after[f]) for f in fields] + [z3.BoolVal(set(o.fields) == set(fields))])
            run.add(Obl(f"{fq}/context.frame{tag}", o.pc, frame, fn=fq, meta={"replay": rp}))
    run.add(static(f"{fq}/lemma.nesting", True, "the with-body is an arbitrary state change in the obligations above, so an inner context (itself satisfying the contract) is just part of the "
                   "outer body: by induction on the nesting depth every named key has its entry value after the outermost exit, on normal and exceptional exits alike", fn=fq))


import re
CACHING = re.compile(r"(^|\.)(cache|lru_cache|cached_property|memoize|memoise)\b")
SETTINGS = ("float_type", "decimals", "atol", "rtol", "alias", "logger", "factory_manager", "_factory_manager")


def verify_reads_at_call_time(run):
    """static: helpers observe the temporary values only inside the context = every read of a setting happens inside a function body at call
    time: never in a default argument / decorator / class or module level statement, and never stored into an attribute or global (a cache)"""
    src = run.src
    bad, reads, readers = [], 0, {}
    for m, tree in src.mod.items():
        parents = {}
        for node in ast.walk(tree):
            for ch in ast.iter_child_nodes(node):
                parents[ch] = node
        for node in ast.walk(tree):
            if isinstance(node, ast.Attribute) and isinstance(node.value, ast.Name) and node.value.id == "settings" and node.attr in SETTINGS and isinstance(node.ctx, ast.Load):
                reads += 1
                cur, fn_, stmt_, in_default = node, None, None, False
                while cur in parents:
                    par = parents[cur]
                    if isinstance(par, (ast.FunctionDef, ast.AsyncFunctionDef, ast.Lambda)) and fn_ is None:
                        # a default value hangs below the `arguments` node, a decorator in decorator_list: both are evaluated once, at definition time
                        if isinstance(cur, ast.arguments) or cur in getattr(par, "decorator_list", []) or cur is getattr(par, "returns", None):
                            in_default = True
                        else:
                            fn_ = par
                    if isinstance(par, ast.stmt) and stmt_ is None and isinstance(cur, ast.expr):
                        stmt_ = par
                    cur = par
                where = f"fuzzylite/{m}.py:{node.lineno}"
                if fn_ is None or in_default:
                    bad.append(f"{where}: settings.{node.attr} read outside a function body (module/class level or default argument)")
                    continue
                tg = stmt_.targets if isinstance(stmt_, ast.Assign) else [stmt_.target] if isinstance(stmt_, (ast.AnnAssign, ast.AugAssign)) else []
                for t in tg:
                    for x in ast.walk(t):
                        if isinstance(x, ast.Attribute) and isinstance(x.ctx, ast.Store) and not (m == "library" and isinstance(fn_, ast.FunctionDef) and fn_.name in ("context",)):
                            bad.append(f"{where}: value derived from settings.{node.attr} stored in attribute `{ast.unparse(x)}` (a cache outlives the context)")
                if isinstance(fn_, ast.FunctionDef):
                    readers.setdefault(fn_.name, []).append(where)
                    memo = [ast.unparse(d) for d in fn_.decorator_list if CACHING.search(ast.unparse(d))]
                    if memo:
                        bad.append(f"{where}: settings.{node.attr} read in `{fn_.name}`, whose result is memoised by @{memo[0]} (the cached value outlives the context)")
                    gl = {g for s_ in ast.walk(fn_) if isinstance(s_, ast.Global) for g in s_.names}
                    for t in tg:
                        if isinstance(t, ast.Name) and t.id in gl:
                            bad.append(f"{where}: value derived from settings.{node.attr} stored in global `{t.id}`")
    for m, tree in src.mod.items():
        for fn_ in ast.walk(tree):
            if isinstance(fn_, ast.FunctionDef) and any(CACHING.search(ast.unparse(d)) for d in fn_.decorator_list):
                for c_ in ast.walk(fn_):
                    if isinstance(c_, ast.Call):
                        t = ast.unparse(c_.func)
                        base, _, leaf = t.rpartition(".")
                        if leaf in readers and base in ("", "self", "cls", "Op", "Operation", "representation", "settings"):
                            bad.append(f"fuzzylite/{m}.py:{c_.lineno}: memoised `{fn_.name}` calls `{t}`, which reads the settings ({readers[leaf][0]})")
    run.add(static("library.settings/reads_at_call_time", not bad and reads > 0, "; ".join(bad) if bad else f"{reads} reads of settings.* - all inside function bodies at call time, none cached",
                   meta={"replay": {"module": N, "func": "replay_helpers", "kwargs": {}, "vars": {}}}))


def build(run):
    run.assume("A-CTX", "A-PY", "A-SET", "A-NP")
    rp = {"module": N, "func": "replay_context", "kwargs": {}, "vars": {}}
    from props import C14
    for fq, f in (("library.Settings.context", verify_context), ("library.settings/reads_at_call_time", verify_reads_at_call_time),
                  # the comparison helper applies settings.atol as the ABSOLUTE and settings.rtol as the RELATIVE tolerance (contract shared with C14/C15)
                  ("operation.Op.is_close", C14.verify_is_close)):
        try:
            f(run)
        except ANALYSIS as ex_:
            run.add(undecided(f"{fq}/subset", f"outside the verified subset: {ex_}", fn=fq, meta={"replay": rp}))
        except NotFound as ex_:
            run.add(static(f"{fq}/exists", False, f"function under contract not found: {ex_}", fn=fq))
    run.bounded("library.settings/helpers_observe_temporary_values.runtime", N, "replay_helpers", [dict()],
                bound="Op.str, Op.is_close (absolute and relative tolerance in their roles), FldExporter created before the context, Representation.import_statement under several "
                      "aliases: the temporary values are observed inside the context and only there")
    run.bounded("library.Settings.context/nesting.runtime", N, "replay_context", [dict(seed=run.seed, budget=400 if run.tier == "quick" else 6000)],
                bound="random nestings up to depth 4 over random subsets of the 7 settings, an exception (Exception, KeyboardInterrupt, custom BaseException) at any level or none, direct assignments inside, contexts naming a setting with its current value")


if __name__ == "__main__":
    sys.exit(main("C20", build, "Temporary settings are always restored"))
