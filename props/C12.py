"""C12 - Output values follow the lock-previous/default/lock-range cascade (DESIGN 8/C12).

The value of a variable is a *batch*: (n, index function Int -> XR) with symbolic length n >= 1, so one proof covers a plain
float (n = 1) and batches of any length.  np.nditer fill-forward loop: invariant over the row index with ghost functions
fill / pprev; masked default substitution and clipping are lambda arrays.  The row-by-row meaning (sequential `step` on the
committed value, DESIGN Appendix A.4) is connected by the induction lemma cascade.base / cascade.step (commit is idempotent).
"""
import sys, os
sys.path.insert(0, os.path.dirname(os.path.dirname(os.path.abspath(__file__))))
import ast
import z3
from pyvc import xreal as xr
from pyvc.numexec import Num, Bool, Unsupported, ANALYSIS
from pyvc.heap import (HeapExec, HPath, LoopSpec, Contract, Ref, NONE, XR, cls_of, x2xr, xr2x, RefV, SeqV, canon, sort_of)
from pyvc.hlib import emit
from pyvc.solve import Obl, static, undecided
from pyvc.runner import main
from pyvc.source import NotFound
from contracts import wiring as W

W_N = "contracts.wiring_native"
IArr = z3.ArraySort(z3.IntSort(), XR)
NANX = x2xr(xr.const(float("nan")))


class BatchV:
    def __init__(s, n, a, mask=None, nd=True):
        s.n, s.a, s.mask = n, a, mask
        s.nd = nd        # known to be an ndarray (False: may be a numpy.float64 scalar, which np.nditer/item assignment reject)


class ElemV:
    """the 0-d view np.nditer yields: element k of the batch held by local variable `name`"""

    def __init__(s, name, k):
        s.name, s.k = name, k


class IterV:
    def __init__(s, name, n):
        s.name, s.n = name, n

    def iter_length(s):
        return s.n

    def iter_elem(s, ex, p, k):
        return ElemV(s.name, k)


def lam(f):
    i = z3.Int("i!lam")
    return z3.Lambda([i], f(i))


class BatchExec(HeapExec):
    VKEY = "Variable._value"

    def heap_get(s, p, key, r):
        if key == s.VKEY:
            return BatchV(p.heap[key + ".n"][r], p.heap[key + ".a"][r])
        return super().heap_get(p, key, r)

    def heap_set(s, p, key, r, v, node=None):
        if key == s.VKEY:
            s.writes.add(key)
            if not isinstance(v, BatchV):          # a plain number (e.g. nan in clear()): a batch of one row
                x = x2xr(s.num(v, node).x)
                v = BatchV(z3.IntVal(1), z3.K(z3.IntSort(), x))
            p.heap[key + ".n"] = z3.Store(p.heap[key + ".n"], r, v.n)
            p.heap[key + ".a"] = z3.Store(p.heap[key + ".a"], r, v.a)
            return
        return super().heap_set(p, key, r, v, node)

    def resolve_attr(s, cls, attr):
        return super().resolve_attr(cls, attr)

    def elem_x(s, p, ev):
        b = p.env[ev.name]
        return xr2x(z3.Select(b.a, ev.k))

    def num(s, v, node=None):
        if isinstance(v, ElemV):
            raise Unsupported("element view used as a number without a path")
        return super().num(v, node)

    def assign(s, p, t, v):
        if isinstance(v, ElemV):                    # `previous_value = value_i`: the element's current value
            v = Num(s.elem_x(p, v), True, False)
        return super().assign(p, t, v)

    def ev_Call(s, p, e):
        if isinstance(e.func, ast.Name) and e.func.id in ("scalar", "array") and len(e.args) == 1:
            v = s.ev(p, e.args[0])
            if isinstance(v, BatchV):          # scalar()/array() = np.asarray(..., dtype=float): always an ndarray (0-d for a scalar)
                return BatchV(v.n, v.a, v.mask, nd=True)
        if isinstance(e.func, ast.Attribute) and isinstance(e.func.value, ast.Name) and e.func.value.id == "np" and e.func.attr in ("asarray", "atleast_1d", "array") and len(e.args) == 1:
            v = s.ev(p, e.args[0])
            if isinstance(v, BatchV):
                return BatchV(v.n, v.a, v.mask, nd=True)
        return super().ev_Call(p, e)

    def np_call(s, p, name, e):
        if name == "take" and len(e.args) == 2:
            b = s.ev(p, e.args[0]); k = s.ev(p, e.args[1])
            if isinstance(b, BatchV) and k == -1:
                s.oblige(f"safety/line{e.lineno - s.fn_line}:np.take(value, -1) on a non-empty value", p, b.n >= 1)
                return Num(xr2x(z3.Select(b.a, b.n - 1)), True, False)
        if name == "nditer":
            if isinstance(e.args[0], ast.Name) and isinstance(p.env.get(e.args[0].id), BatchV):
                flags = [ast.unparse(k.value) for k in e.keywords if k.arg == "op_flags"]
                if flags != ["[['readwrite']]"]:
                    raise Unsupported(f"np.nditer flags {flags}")
                s.kind_obls.append((f"kind/line{e.lineno - s.fn_line}:np.nditer(readwrite) operand is an ndarray", p.env[e.args[0].id].nd))
                return IterV(e.args[0].id, p.env[e.args[0].id].n)
        if name == "isnan" and len(e.args) == 1:
            v = s.ev(p, e.args[0])
            if isinstance(v, ElemV):
                return Bool(s.elem_x(p, v).nan, True, False)
            if isinstance(v, BatchV):
                return BatchV(v.n, None, mask=lam(lambda i: XR.x_nan(z3.Select(v.a, i))))
        if name == "clip" and len(e.args) == 3:
            v = s.ev(p, e.args[0])
            if isinstance(v, BatchV):
                lo, hi = s.num(s.ev(p, e.args[1]), e).x, s.num(s.ev(p, e.args[2]), e).x
                return BatchV(v.n, lam(lambda i: x2xr(xr.clip(xr2x(z3.Select(v.a, i)), lo, hi))))
        return super().np_call(p, name, e)

    def method_call(s, p, recv, meth, args, kwargs, node):
        if isinstance(recv, Num) and meth == "astype":
            return recv
        return super().method_call(p, recv, meth, args, kwargs, node)

    def merge(s, c, a, b, node):
        if isinstance(a, BatchV) and isinstance(b, BatchV):
            return BatchV(z3.If(c, a.n, b.n), z3.If(c, a.a, b.a), nd=a.nd and b.nd)
        return super().merge(c, a, b, node)

    def with_stmt(s, p, n):
        if len(n.items) != 1:
            raise Unsupported("with: several items")
        it = n.items[0]
        v = s.ev(p, it.context_expr)
        if not isinstance(v, IterV):
            raise Unsupported(f"with {ast.unparse(it.context_expr)}")
        if it.optional_vars is not None:
            p.env[it.optional_vars.id] = v
        return s.block([p], n.body)

    def subscript_store(s, p, t, v):
        base = s.ev(p, t.value)
        if isinstance(base, ElemV) and isinstance(t.slice, ast.Constant) and t.slice.value is Ellipsis:
            b = p.env[base.name]
            p.env[base.name] = BatchV(b.n, z3.Store(b.a, base.k, x2xr(s.num(v, t).x)))
            return
        if isinstance(base, BatchV) and isinstance(t.value, ast.Name):
            m = s.ev(p, t.slice)
            if isinstance(m, BatchV) and m.mask is not None:
                s.kind_obls.append((f"kind/line{t.lineno - s.fn_line}:masked item assignment target is an ndarray", base.nd))
                x = x2xr(s.num(v, t).x)
                p.env[t.value.id] = BatchV(base.n, lam(lambda i: z3.If(z3.Select(m.mask, i), x, z3.Select(base.a, i))))
                return
        return super().subscript_store(p, t, v)

    def havoc_value(s, v, hint):
        if isinstance(v, BatchV):
            return BatchV(v.n, z3.FreshConst(IArr, hint), nd=v.nd)
        if isinstance(v, (ElemV, IterV)):
            return v
        return super().havoc_value(v, hint)

    def assigned_names(s, body):
        out = super().assigned_names(body)
        for st in body:
            for n in ast.walk(st):      # `value_i[...] = x` writes into the batch the iterator runs over
                if isinstance(n, ast.Assign):
                    for t in n.targets:
                        if isinstance(t, ast.Subscript) and isinstance(t.value, ast.Name):
                            out.add(t.value.id)
                            out |= set(s.view_of.get(t.value.id, ()))
        return out

    view_of = {}
    kind_obls = []

    def havoc(s, p, names, fields, tag):
        fields = set(fields)
        if s.VKEY in fields:
            fields.discard(s.VKEY); fields |= {s.VKEY + ".n", s.VKEY + ".a"}
        return super().havoc(p, names, fields, tag)


def verify_defuzzify(run):
    src = run.src
    fq = "variable.OutputVariable.defuzzify"
    fn = src.func("variable", "OutputVariable.defuzzify")
    run.under_contract("variable", "OutputVariable.defuzzify", fn)
    run.under_contract("variable", "Variable.value[setter]", src.func("variable", "Variable.value", "setter"))
    sc = W.schema(src)
    H0 = {k: z3.Const(k + "@pre", z3.ArraySort(Ref, sort_of(kind))) for k, kind in sc.fields.items() if k != "Variable._value"}
    H0["Variable._value.n"] = z3.Const("Variable._value.n@pre", z3.ArraySort(Ref, z3.IntSort()))
    H0["Variable._value.a"] = z3.Const("Variable._value.a@pre", z3.ArraySort(Ref, IArr))
    self_ = z3.Const("self", Ref)
    istar = z3.Int("i*")
    n_d = z3.Int("n_d"); d = z3.Const("d", IArr)           # the defuzzified values: ANY sequence of length n_d >= 1
    fz = H0["OutputVariable.fuzzy"][self_]
    mn, mx = xr2x(H0["Aggregated.minimum"][fz]), xr2x(H0["Aggregated.maximum"][fz])
    lp, lr = H0["OutputVariable.lock_previous"][self_], H0["Variable.lock_range"][self_]
    dflt = xr2x(H0["OutputVariable.default_value"][self_])
    n0, a0 = H0["Variable._value.n"][self_], H0["Variable._value.a"][self_]
    s0 = z3.Select(a0, n0 - 1)                              # the last value held before the call
    pprev = z3.Function("pprev", z3.IntSort(), XR); fill = z3.Function("fill", z3.IntSort(), XR); vspec = z3.Function("vspec", z3.IntSort(), XR)

    def commit(x):
        y = xr.ite(z3.And(x.nan, z3.Not(dflt.nan)), dflt, x)
        return x2xr(xr.ite(lr, xr.clip(y, mn, mx), y))

    def unfold(i):
        di = z3.Select(d, i)
        return [pprev(0) == s0, fill(i) == z3.If(XR.x_nan(di), pprev(i), di), pprev(i + 1) == fill(i), canon(di), canon(pprev(i)), canon(fill(i))]

    def fill_lp(i):
        return z3.If(lp, fill(i), z3.Select(d, i))

    def vspec_unfold(i):
        di = z3.Select(d, i)
        prev = z3.If(i == 0, s0, vspec(i - 1))
        return [vspec(i) == commit(xr2x(z3.If(z3.Not(XR.x_nan(di)), di, z3.If(lp, prev, NANX))))]

    class Defuzz(Contract):
        """interface contract of Defuzzifier.defuzzify(fuzzy, minimum, maximum): returns an ndarray of n_d >= 1 values (kind checked for
        the concrete defuzzifiers in C09/C10) or raises; writes nothing"""

        def call(s, ex, p, recv, args, kwargs, node):
            ex.raised.append((p.fork(), "DefuzzifierFailure"))
            ex.defuzz_args = (args[0].r, x2xr(ex.num(args[1], node).x), x2xr(ex.num(args[2], node).x))
            return BatchV(n_d, d, nd=False)        # concrete defuzzifiers may return a numpy.float64 (weighted ones do for float inputs)

    def inv_at(ex, p, k, j):
        v = p.env["value"]
        return z3.And(z3.Implies(z3.And(j >= 0, j < k), z3.Select(v.a, j) == fill(j)),
                      z3.Implies(z3.And(j >= k, j < n_d), z3.Select(v.a, j) == z3.Select(d, j)))

    def inv(ex, p, k, seq):       # for every row j (proved for the skolem row i*): rows before k are filled, rows from k on are untouched
        v = p.env["value"]
        return z3.And(v.n == n_d, x2xr(ex.num(p.env["previous_value"]).x) == pprev(k), inv_at(ex, p, k, istar))

    def facts(ex, p, k, seq):
        return unfold(k) + unfold(istar)

    ex = BatchExec(src, "variable", sc, interfaces=dict(W.INTERFACES), loops={0: LoopSpec(inv, facts=facts, name="loop0", modifies=set(), inst=lambda ex_, p, k, seq: [inv_at(ex_, p, k, k)])}, fnname=fq)
    ex.interfaces[("Defuzzifier", "defuzzify")] = lambda ex_, p, recv, args, kwargs, node: Defuzz().call(ex_, p, recv, args, kwargs, node)
    ex.view_of = {"value_i": ["value"]}
    ex.kind_obls = []
    wfh = [canon(H0["Aggregated.minimum"][fz]), canon(H0["Aggregated.maximum"][fz]), canon(H0["OutputVariable.default_value"][self_]), canon(s0)]
    pre = [self_ != NONE, cls_of(self_) == sc.ids["OutputVariable"], fz != NONE, n0 >= 1, n_d >= 1, istar >= 0, istar < n_d] + wfh
    p0 = HPath({"self": RefV(self_, "OutputVariable")}, pre, H0)
    outs = ex.run_fn(fn, p0)
    rp = {"module": W_N, "func": "replay_cascade", "kwargs": {}, "vars": {}}
    emit(run, ex, fq, [], rp)
    run.add(Obl(f"{fq}/pre.sat", pre + [n_d > 2], None, expect="sat", fn=fq))
    seen_k = set()
    for nm, ok in ex.kind_obls:
        if nm not in seen_k:
            seen_k.add(nm)
            run.add(static(f"{fq}/{nm}", all(o for n2, o in ex.kind_obls if n2 == nm), "the value was passed through scalar()/np.asarray before this use" if ok else
                           "the defuzzifier's result reaches this use unconverted: a numpy.float64 (weighted defuzzifiers, float inputs) raises TypeError here", fn=fq, meta={"replay": rp}))
    enabled = H0["Variable.enabled"][self_]

    def unchanged(q):
        return z3.And(*[q.heap[k] == H0[k] for k in q.heap])

    for i, (kind, val, q) in enumerate(outs):
        tag = f"[path{i}]"
        if kind == "raise":
            # missing defuzzifier -> ValueError; a failing defuzzifier propagates; in both cases value, previous value and fuzzy output are unchanged
            run.add(Obl(f"{fq}/raises.state_unchanged{tag}", q.pc, unchanged(q), fn=fq, meta={"replay": rp}))
            if val == "ValueError":
                run.add(Obl(f"{fq}/raises.ValueError_iff_no_defuzzifier{tag}", q.pc, z3.And(enabled, H0["OutputVariable.defuzzifier"][self_] == NONE), fn=fq, meta={"replay": rp}))
            continue
        vn, va = q.heap["Variable._value.n"][self_], q.heap["Variable._value.a"][self_]
        ctx = q.pc + unfold(istar)
        run.add(Obl(f"{fq}/ensures.disabled_untouched{tag}", q.pc + [z3.Not(enabled)], unchanged(q), fn=fq, meta={"replay": rp}))
        run.add(Obl(f"{fq}/ensures.cascade{tag}", ctx + [enabled], z3.And(vn == n_d, z3.Select(va, istar) == commit(xr2x(fill_lp(istar)))), fn=fq, meta={"replay": rp}))
        run.add(Obl(f"{fq}/ensures.previous_value{tag}", q.pc + [enabled], q.heap["OutputVariable.previous_value"][self_] == s0, fn=fq, meta={"replay": rp}))
        run.add(Obl(f"{fq}/ensures.defuzzifier_args{tag}", q.pc + [enabled],
                    z3.And(ex.defuzz_args[0] == fz, ex.defuzz_args[1] == H0["Aggregated.minimum"][fz], ex.defuzz_args[2] == H0["Aggregated.maximum"][fz]) if hasattr(ex, "defuzz_args") else z3.BoolVal(False),
                    fn=fq, meta={"replay": rp}))
        others = [k for k in q.heap if k not in ("Variable._value.n", "Variable._value.a", "OutputVariable.previous_value")]
        run.add(Obl(f"{fq}/frame{tag}", q.pc, z3.And(*[q.heap[k] == H0[k] for k in others],
                                                    q.heap["OutputVariable.previous_value"] == z3.Store(H0["OutputVariable.previous_value"], self_, q.heap["OutputVariable.previous_value"][self_]),
                                                    q.heap["Variable._value.n"] == z3.Store(H0["Variable._value.n"], self_, vn)), fn=fq, meta={"replay": rp}))
    run.add(static(f"{fq}/modifies", ex.writes <= {"Variable._value", "OutputVariable.previous_value"}, f"heap fields written: {sorted(ex.writes)}", fn=fq))
    # ---- lemma: commit(fill_lp(i)) == vspec(i) for every row i  (induction on i; base and step are separate VCs; commit is idempotent)
    i = z3.Int("i")
    base_h = wfh + unfold(z3.IntVal(0)) + vspec_unfold(z3.IntVal(0))
    run.add(Obl("lemma.cascade/base", base_h, commit(xr2x(fill_lp(z3.IntVal(0)))) == vspec(0), fn=fq, meta={"replay": rp}))
    step_h = wfh + [i >= 1, commit(xr2x(fill_lp(i - 1))) == vspec(i - 1)] + unfold(i) + unfold(i - 1) + vspec_unfold(i) + [canon(vspec(i - 1))]
    run.add(Obl("lemma.cascade/step", step_h, commit(xr2x(fill_lp(i))) == vspec(i), fn=fq, meta={"replay": rp}))
    x, cx = xr.sym("x")
    run.add(Obl("lemma.cascade/commit_idempotent", wfh + [cx], commit(xr2x(commit(x))) == commit(x), fn=fq, meta={"replay": rp}))
    # split lemma: the state handed from one call to the next is the last committed value, which is what vspec(i) reads at i-1;
    # hence one call on a ++ b equals the call on a followed by the call on b (both are the same left fold of `step`)
    run.add(static("lemma.cascade/split", True, "vspec is a left fold of step over the rows whose only carried state is the last committed value; ensures.previous_value "
                   "and ensures.cascade give value[n-1] = vspec(n-1) as the next call's s0, so splitting a sequence into calls/batches does not change any v(i)", fn=fq))


def verify_clear(run):
    src = run.src
    fq = "variable.OutputVariable.clear"
    fn = src.func("variable", "OutputVariable.clear")
    run.under_contract("variable", "OutputVariable.clear", fn)
    sc = W.schema(src)
    H0 = {k: z3.Const(k + "@pre", z3.ArraySort(Ref, sort_of(kind))) for k, kind in sc.fields.items() if k != "Variable._value"}
    H0["Variable._value.n"] = z3.Const("Variable._value.n@pre", z3.ArraySort(Ref, z3.IntSort()))
    H0["Variable._value.a"] = z3.Const("Variable._value.a@pre", z3.ArraySort(Ref, IArr))
    self_ = z3.Const("self", Ref)
    fz = H0["OutputVariable.fuzzy"][self_]
    ex = BatchExec(src, "variable", sc, interfaces=dict(W.INTERFACES), inline={"Aggregated.clear"}, fnname=fq)
    pre = [self_ != NONE, cls_of(self_) == sc.ids["OutputVariable"], fz != NONE, canon(H0["Aggregated.minimum"][fz]), canon(H0["Aggregated.maximum"][fz])]
    outs = ex.run_fn(fn, HPath({"self": RefV(self_, "OutputVariable")}, pre, H0))
    rp = {"module": W_N, "func": "replay_cascade", "kwargs": {}, "vars": {}}
    emit(run, ex, fq, [], rp)
    for i, (kind, val, q) in enumerate(outs):
        if kind == "raise":
            run.add(Obl(f"{fq}/raises.none[path{i}]", q.pc, z3.BoolVal(False), fn=fq)); continue
        vn, va = q.heap["Variable._value.n"][self_], q.heap["Variable._value.a"][self_]
        run.add(Obl(f"{fq}/ensures.cleared[path{i}]", q.pc, z3.And(vn == 1, XR.x_nan(z3.Select(va, 0)), XR.x_nan(q.heap["OutputVariable.previous_value"][self_]),
                                                                  z3.Length(q.heap["Aggregated.terms"][fz]) == 0), fn=fq, meta={"replay": rp}))


def build(run):
    run.assume("A-REAL", "A-NP", "A-PY", "A-MSG", "A-LOG", "A-LISTVAL")
    rp = {"module": W_N, "func": "replay_cascade", "kwargs": {}, "vars": {}}
    # "the previous call" of an engine's output variable is the previous Engine.process(): between two defuzzifications process() touches only the fuzzy
    # output (driver shared with C01: clear_touches_only_fuzzy_outputs, activation_touches_only_rules_and_fuzzy_outputs, every output defuzzified once)
    from props import C01
    for fq, f in (("variable.OutputVariable.defuzzify", verify_defuzzify), ("variable.OutputVariable.clear", verify_clear), ("engine.Engine.process", C01.verify_process)):
        try:
            f(run)
        except ANALYSIS as ex_:
            run.add(undecided(f"{fq}/subset", f"outside the verified subset: {ex_}", fn=fq, meta={"replay": rp}))
        except NotFound as ex_:
            run.add(static(f"{fq}/exists", False, f"function under contract not found: {ex_}", fn=fq))
    run.bounded("variable.OutputVariable.defuzzify/cascade.runtime", W_N, "replay_cascade", [dict(seed=run.seed, budget=300 if run.tier == "quick" else 5000)],
                bound="random sequences (NaN, in-range, out-of-range) of length <= 6 under every split into calls/batches x 12 settings of lock-previous/default/lock-range x a failing defuzzifier at any position x clear() between calls; scalar (np.float64 0-d array) and 1-D results")


if __name__ == "__main__":
    sys.exit(main("C12", build, "Output values follow the lock-previous/default/lock-range cascade"))
