"""C07 - Each conclusion of a triggered rule contributes exactly its own activation (DESIGN 8/C07)."""
import sys, os
sys.path.insert(0, os.path.dirname(os.path.dirname(os.path.abspath(__file__))))
import ast
import z3
from pyvc import xreal as xr
from pyvc.numexec import Num, Bool, Unsupported, ANALYSIS
from pyvc.heap import (HeapExec, HPath, LoopSpec, Ref, NONE, XR, Act, cls_of, SeqRef, SeqAct, x2xr, xr2x, RefV, SeqV, ActV, sort_of, str_distinct)
from pyvc.solve import Obl, static, undecided
from pyvc.runner import main
from pyvc.source import NotFound
from contracts import wiring as W


from pyvc.hlib import init_heap, emit, frame_goal


# ------------------------------------------------------------------------------------------------ Consequent.modify
def verify_modify(run, residual=False):
    """residual=True: the same contract outside the region of known finding C07-1 (a hedged conclusion on an enabled variable
    followed by another conclusion); there the accumulated degree only has to be intact while conclusions remain."""
    src = run.src
    fq = "rule.Consequent.modify" + ("[residual]" if residual else "")
    fn = src.func("rule", "Consequent.modify")
    run.under_contract("rule", "Consequent.modify", fn)
    sc = W.schema(src)
    H0 = init_heap(sc)
    self_ = z3.Const("self", Ref); impl = z3.Const("implication", Ref)
    d0, cd = xr.sym("d0")
    vstar = z3.Const("v*", Ref)          # skolem witness: the output variable whose fuzzy output we look at (DESIGN 5.6)
    ostar = z3.Const("o*", Ref)          # second witness: an Aggregated object that is not the fuzzy output of a concluded variable
    concl = H0["Consequent.conclusions"][self_]
    n = z3.Length(concl)
    var = lambda c: H0["Proposition.variable"][c]
    fz = lambda v: H0["OutputVariable.fuzzy"][v]
    OUT = sc.ids["OutputVariable"]
    dX = x2xr(d0)
    contrib = lambda v, k: W.contrib(self_, dX, impl, v, k)      # activations appended to v's fuzzy output by conclusions[0:k], all with the SAME d0

    def wf_at(k):
        """wf_consequent instantiated at conclusion k: a loaded conclusion (what Consequent.load establishes)"""
        c = concl[k]; v = var(c)
        return [c != NONE, v != NONE, cls_of(v) == OUT, z3.Length(H0["Variable.terms"][v]) > 0, H0["Proposition.term"][c] != NONE] + W.wf_output_variable(sc, H0, v)

    def contrib_unfold(k):
        return W.contrib_unfold(H0, self_, dX, impl, vstar, k)

    old_terms = H0["Aggregated.terms"]

    def outer_inv(ex, p, k, seq):
        acc_unchanged = x2xr(ex.num(p.env["activation_degree"]).x) == x2xr(d0)       # the clause the pinned code cannot keep
        if residual:
            acc_unchanged = z3.Implies(k < n, acc_unchanged)
        return z3.And(p.heap["Aggregated.terms"][fz(vstar)] == z3.Concat(old_terms[fz(vstar)], contrib(vstar, k)),
                      p.heap["Aggregated.terms"][ostar] == old_terms[ostar], acc_unchanged)

    def outer_facts(ex, p, k, seq):
        hs = H0["Proposition.hedges"][concl[k]]
        known = [z3.Implies(z3.And(k < n - 1, H0["Variable.enabled"][var(concl[k])]), z3.Length(hs) == 0)] if residual else []
        return wf_at(k) + contrib_unfold(k) + W.hedged_unfold(hs, z3.Length(hs), x2xr(d0))[:1] + known

    inner_names = {}

    def inner_inv(ex, p, j, seq):
        # the inner body assigns exactly one local (pinned: activation_degree; a repaired body: a fresh local) - referred to positionally
        acc = inner_names["acc"]
        ent = ex.entry[1]
        d_in = ex.num(ent.env.get(acc, ent.env["activation_degree"])).x
        return x2xr(ex.num(p.env[acc]).x) == W.hedged(seq, j, x2xr(d_in))

    def inner_facts(ex, p, j, seq):
        ent = ex.entry[1]
        d_in = ex.num(ent.env.get(inner_names["acc"], ent.env["activation_degree"])).x
        return W.hedged_unfold(seq, j, x2xr(d_in)) + [seq[z3.Length(seq) - 1 - j] != NONE]

    # positional name of the inner accumulator, read from the AST
    loops = [x for x in ast.walk(fn) if isinstance(x, ast.For)]
    if len(loops) == 2:
        tmp = HeapExec(src, "rule", sc)
        acc = sorted(tmp.assigned_names(loops[1].body) - {t.id for t in ast.walk(loops[1].target) if isinstance(t, ast.Name)})
        inner_names["acc"] = acc[0] if len(acc) == 1 else "activation_degree"
    ex = HeapExec(src, "rule", sc, contracts={"Activated": W.ActivatedCtor()}, interfaces=W.INTERFACES,
                  loops={0: LoopSpec(outer_inv, facts=outer_facts, name="loop0", modifies={"Aggregated.terms"}),
                         1: LoopSpec(inner_inv, facts=inner_facts, name="loop1", modifies=set())}, fnname=fq)
    # loaded consequent: at least one conclusion; v* is an output variable owning its fuzzy output; o* is not a fuzzy output
    pre = [cd, self_ != NONE, n > 0, cls_of(vstar) == OUT] + W.wf_output_variable(sc, H0, vstar) + [W.not_a_fuzzy_output(H0, ostar)]
    p0 = HPath({"self": RefV(self_, "Consequent"), "activation_degree": Num(d0, True, False), "implication": RefV(impl, "TNorm")}, pre, H0)
    outs = ex.run_fn(fn, p0)
    rp = {"module": "contracts.wiring_native", "func": "replay_modify", "kwargs": {"exclude_known": residual}, "vars": {}}
    emit(run, ex, fq, [], rp)
    run.add(Obl(f"{fq}/pre.sat", pre + wf_at(z3.IntVal(0)), None, expect="sat", fn=fq))
    nret = sum(1 for kind, _, _ in outs if kind == "return")
    for i, (kind, val, q) in enumerate(outs):
        tag = f"[path{i}]" if nret > 1 else ""
        if kind == "raise":
            # a loaded consequent never raises (the raise statements guard unloaded/ill-formed conclusions)
            run.add(Obl(f"{fq}/raises.none_when_loaded[{val}#{i}]", q.pc + str_distinct(), z3.BoolVal(False), fn=fq, meta={"replay": rp}))
        else:
            run.add(Obl(f"{fq}/ensures.contributions{tag}", q.pc + contrib_unfold(n)[:1] + str_distinct(),
                        z3.And(q.heap["Aggregated.terms"][fz(vstar)] == z3.Concat(old_terms[fz(vstar)], contrib(vstar, n)),
                               q.heap["Aggregated.terms"][ostar] == old_terms[ostar]), fn=fq, meta={"replay": rp}))
            frame = [q.heap[k] == H0[k] for k in q.heap if k != "Aggregated.terms"]
            run.add(Obl(f"{fq}/frame{tag}", q.pc, z3.And(*frame), fn=fq, meta={"replay": rp}))
    run.add(static(f"{fq}/modifies", ex.writes <= {"Aggregated.terms"}, f"heap fields written: {sorted(ex.writes)}", fn=fq))
    return ex



# ------------------------------------------------------------------------------------------------ Rule.trigger
def verify_trigger(run):
    src = run.src
    fq = "rule.Rule.trigger"
    fn = src.func("rule", "Rule.trigger")
    run.under_contract("rule", "Rule.trigger", fn)
    for q_ in ("Rule.is_loaded", "Antecedent.is_loaded", "Consequent.is_loaded"):
        run.under_contract("rule", q_, src.func("rule", q_))
    sc = W.schema(src)
    H0 = init_heap(sc)
    self_ = z3.Const("self", Ref); impl = z3.Const("implication", Ref)
    vstar, ostar = z3.Const("v*", Ref), z3.Const("o*", Ref)
    OUT = sc.ids["OutputVariable"]
    ex = HeapExec(src, "rule", sc, contracts={"Consequent.modify": W.ModifyContract()}, interfaces=W.INTERFACES,
                  inline={"Rule.is_loaded", "Antecedent.is_loaded", "Consequent.is_loaded"}, fnname=fq)
    ex.witness = {"vars": [vstar], "objs": [ostar]}
    ant, cons = H0["Rule.antecedent"][self_], H0["Rule.consequent"][self_]
    pre = [self_ != NONE, ant != NONE, cons != NONE, cls_of(vstar) == OUT] + W.wf_output_variable(sc, H0, vstar) + [W.not_a_fuzzy_output(H0, ostar)]
    p0 = HPath({"self": RefV(self_, "Rule"), "implication": RefV(impl, "TNorm")}, pre, H0)
    outs = ex.run_fn(fn, p0)
    rp = {"module": "contracts.wiring_native", "func": "replay_trigger", "kwargs": {}, "vars": {}}
    emit(run, ex, fq, [], rp)
    run.add(Obl(f"{fq}/pre.sat", pre, None, expect="sat", fn=fq))
    loaded = z3.And(H0["Antecedent.expression"][ant] != NONE, z3.Length(H0["Consequent.conclusions"][cons]) > 0)
    enabled = H0["Rule.enabled"][self_]
    d = H0["Rule.activation_degree"][self_]
    T0 = H0["Aggregated.terms"]
    n = z3.Length(H0["Consequent.conclusions"][cons])
    nret = sum(1 for k, _, _ in outs if k == "return")
    for i, (kind, val, q) in enumerate(outs):
        tag = f"[path{i}]"
        T1 = q.heap["Aggregated.terms"]
        unchanged = z3.And(T1[H0["OutputVariable.fuzzy"][vstar]] == T0[H0["OutputVariable.fuzzy"][vstar]], T1[ostar] == T0[ostar])
        if kind == "raise":
            run.add(Obl(f"{fq}/raises.RuntimeError_iff_unloaded{tag}", q.pc, z3.And(z3.BoolVal(val == "RuntimeError"), z3.Not(loaded)), fn=fq, meta={"replay": rp}))
            run.add(Obl(f"{fq}/raises.state{tag}", q.pc, z3.And(unchanged, z3.Not(q.heap["Rule.triggered"][self_]), frame_goal(q, H0, {"Rule.triggered", "Aggregated.terms"})),
                        fn=fq, meta={"replay": rp}))
            continue
        fzv = H0["OutputVariable.fuzzy"][vstar]
        dX = xr2x(d)
        post_enabled = z3.And(T1[fzv] == z3.Concat(T0[fzv], W.contrib(cons, d, impl, vstar, n)), T1[ostar] == T0[ostar],
                              q.heap["Rule.triggered"][self_] == xr.gt(dX, xr.const(0.0)))
        post_disabled = z3.And(unchanged, z3.Not(q.heap["Rule.triggered"][self_]))
        run.add(Obl(f"{fq}/ensures.loaded{tag}", q.pc, loaded, fn=fq, meta={"replay": rp}))
        run.add(Obl(f"{fq}/ensures.enabled_contributes{tag}", q.pc + [enabled], post_enabled, fn=fq, meta={"replay": rp}))
        run.add(Obl(f"{fq}/ensures.disabled_adds_nothing{tag}", q.pc + [z3.Not(enabled)], post_disabled, fn=fq, meta={"replay": rp}))
        run.add(Obl(f"{fq}/frame{tag}", q.pc, z3.And(frame_goal(q, H0, {"Rule.triggered", "Aggregated.terms"}),
                                                    q.heap["Rule.triggered"] == z3.Store(H0["Rule.triggered"], self_, q.heap["Rule.triggered"][self_])), fn=fq, meta={"replay": rp}))
    run.add(static(f"{fq}/modifies", ex.writes <= {"Aggregated.terms", "Rule.triggered"}, f"heap fields written: {sorted(ex.writes)}", fn=fq))
    # exactly one call of Consequent.modify, with the rule's own activation degree and the given implication
    ok_calls = len(ex.modify_calls) >= 1
    run.add(static(f"{fq}/calls.modify", ok_calls, f"{len(ex.modify_calls)} call site(s) of Consequent.modify reached", fn=fq))


# ------------------------------------------------------------------------------------------------ Activated.__init__ / degree setter
def verify_activated(run):
    """the real constructor and degree setter against the value model used everywhere else (A-ACTVAL): term and implication
    stored as given, degree stored cleaned: NaN and -inf as 0, +inf as 1"""
    src = run.src
    fq = "term.Activated.__init__"
    fn = src.func("term", "Activated.__init__")
    run.under_contract("term", "Activated.__init__", fn)
    run.under_contract("term", "Activated.degree[setter]", src.func("term", "Activated.degree", "setter"))
    run.under_contract("term", "Activated.degree[getter]", src.func("term", "Activated.degree", "getter"))
    sc = W.schema(src)
    H0 = init_heap(sc)
    self_ = z3.Const("self", Ref); term = z3.Const("term", Ref); impl = z3.Const("implication", Ref)
    d0, cd = xr.sym("d0")
    ex = HeapExec(src, "term", sc, interfaces=W.INTERFACES, inline={"Term.__init__"}, fnname=fq)
    ex.cur_owner = "Activated"
    pre = [cd, self_ != NONE, cls_of(self_) == sc.ids["Activated"]]
    p0 = HPath({"self": RefV(self_, "Activated"), "term": RefV(term, "Term"), "degree": Num(d0, True, False), "implication": RefV(impl, "TNorm")}, pre, H0)
    outs = ex.run_fn(fn, p0)
    rp = {"module": "contracts.wiring_native", "func": "replay_activated", "kwargs": {}, "vars": {"d": "d0"}}
    emit(run, ex, fq, [], rp)
    for i, (kind, val, q) in enumerate(outs):
        if kind == "raise":
            run.add(Obl(f"{fq}/raises.none[{i}]", q.pc, z3.BoolVal(False), fn=fq, meta={"replay": rp}))
            continue
        model = W.ActivatedCtor().call(ex, q.fork(), None, [RefV(term, "Term"), Num(d0, True, False), RefV(impl, "TNorm")], {}, fn)
        goal = z3.And(q.heap["Activated.term"][self_] == Act.a_term(model.a), q.heap["Activated._degree"][self_] == Act.a_degree(model.a),
                      q.heap["Activated.implication"][self_] == Act.a_impl(model.a))
        run.add(Obl(f"{fq}/ensures.value_model[path{i}]", q.pc, goal, fn=fq, meta={"replay": rp}))
        dd = xr2x(q.heap["Activated._degree"][self_])
        clean_spec = z3.And(z3.Implies(z3.Or(d0.nan, d0.inf == -1), xr.same(dd, xr.const(0.0))), z3.Implies(z3.And(z3.Not(d0.nan), d0.inf == 1), xr.same(dd, xr.const(1.0))),
                            z3.Implies(xr.fin(d0), xr.same(dd, d0)))
        run.add(Obl(f"{fq}/ensures.degree_cleaned[path{i}]", q.pc, clean_spec, fn=fq, meta={"replay": rp}))
    # the getter returns the stored field
    g = src.func("term", "Activated.degree", "getter")
    body = [x for x in g.body if not (isinstance(x, ast.Expr) and isinstance(x.value, ast.Constant))]
    run.add(static("term.Activated.degree[getter]/returns_field", len(body) == 1 and ast.unparse(body[0]) == "return self._degree", ast.unparse(body[0]) if body else "empty"))


def build(run):
    run.assume("A-REAL", "A-NP", "A-PY", "A-MSG", "A-LOG", "A-LISTVAL", "A-ACTVAL")
    W_N = "contracts.wiring_native"
    plan = [("rule.Consequent.modify", verify_modify, {"module": W_N, "func": "replay_modify", "kwargs": {"exclude_known": True}, "vars": {}}),
            ("rule.Consequent.modify[residual]", lambda r: verify_modify(r, residual=True), None),
            ("rule.Rule.trigger", verify_trigger, {"module": W_N, "func": "replay_trigger", "kwargs": {}, "vars": {}}),
            ("term.Activated.__init__", verify_activated, {"module": W_N, "func": "replay_activated", "kwargs": {}, "vars": {}})]
    # "that conclusion's own hedges": Consequent.load reads each conclusion from its own tokens, hedges in text order (driver shared with C16); Consequent.modify
    # applies them from the one nearest the term outwards (above)
    from props import C16
    rp_mod = {"module": W_N, "func": "replay_modify", "kwargs": {"exclude_known": True}, "vars": {}}
    plan.append(("rule.Consequent.load", lambda r: C16.verify_consequent_load(r, RP=rp_mod), rp_mod))
    for fq, f, rp in plan:
        try:
            f(run)
        except ANALYSIS as ex_:
            run.add(undecided(f"{fq}/subset", f"outside the verified subset: {ex_}", fn=fq, meta={"replay": rp} if rp else None))
            continue
        except NotFound as ex_:
            run.add(static(f"{fq}/exists", False, f"function under contract not found: {ex_}", fn=fq))
            continue
    run.bounded("rule.Rule.trigger/templates_and_block_implication.runtime", W_N, "replay_trigger", [dict()],
                bound="Rule.trigger on consequent templates x enabled flags x degrees (0.5, 0, 1, NaN, -0.5); a rule block activated by each of the seven activation methods: "
                      "every activated term carries the block's implication operator object")
    run.bounded("rule.Consequent.load+modify/templates.runtime", W_N, "replay_modify", [dict(exclude_known=True, limit=4000 if run.tier == "quick" else 100000)],
                bound="consequents of 1-3 conclusions over 3 output variables x hedge chains (none, very, not, somewhat very, not very) x enabled flags x degrees "
                      "(0.5, 0.25, 1, 0, NaN, +-inf): loaded by the real parser, every conclusion contributes its own hedged degree (hedges from the term outwards); "
                      "the region of known finding C07-1 excluded")
    for f in ():
        try:
            f(run)
        except ANALYSIS as ex_:
            run.add(undecided(f"{getattr(f, '__name__', 'fn')}{len(run.obls)}/subset", f"outside the verified subset: {ex_}"))
        except NotFound as ex_:
            run.add(static(f"{getattr(f, '__name__', 'fn')}{len(run.obls)}/exists", False, f"function under contract not found: {ex_}"))


if __name__ == "__main__":
    sys.exit(main("C07", build, "Each conclusion of a triggered rule contributes exactly its own activation"))
