"""C14 - FuzzyLite Language export/import round-trips engines (DESIGN 8/C14).

Deductive part (token level, assumptions A-FMT / A-STR): for every term class with numeric parameters, every activation method and every
defuzzifier, `parameters()` is executed from /repo's AST (with the real Term._parameters inlined), `configure()` is executed on the printed
tokens (with the real Term._parse inlined), and `parameters()` is executed again on the configured object:
  * configure accepts its own class's output (no raising path is reachable);
  * every constructor-level field is restored to the value that survives printing (rnd(x); x itself when representable), the height to
    1.0 when it is not printed - so a field that is printed but not parsed, parsed in another position, or not printed at all is refuted;
  * printing again yields the same tokens (the export/import/export fixed point, per component) - this needs the decision "print the
    height" to be stable under rounding.
Bounded (B): generated engines x decimals 1..9 and all shipped examples through the real exporter/importer (contracts/export_native.py).
"""
import sys, os
sys.path.insert(0, os.path.dirname(os.path.dirname(os.path.abspath(__file__))))
import ast
import z3
from pyvc import xreal as xr
from pyvc.xreal import X
from pyvc.numexec import Num, Bool, Obj, Unsupported, Path, ANALYSIS
from pyvc.heap import XR, Str, x2xr, xr2x, canon, str_distinct
from pyvc.tokexec import TokExec, Tok, Text, PyL, Enum, rnd, U, MultiReturn
from pyvc.solve import Obl, static, undecided
from pyvc.runner import main
from pyvc.source import NotFound

N_ = "contracts.export_native"
def RP(cls=None):
    kw = {"budget": 40}
    if cls:
        kw["only_class"] = cls
    return {"replay": {"module": N_, "func": "replay_fll_roundtrip", "kwargs": kw, "vars": {}}, "sat_final": True}

SKIP_TERMS = {"Activated": "run-time value, not part of an FLL document", "Aggregated": "run-time value, not part of an FLL document",
              "Discrete": "variable-length pair list (to_list/to_xy): symbolic round trip for 1-3 pairs (level B, bounded length) + bounded stand-in",
              "Linear": "variable-length coefficient list: symbolic round trip for 0, 1, 3 coefficients (level B, bounded length) + bounded stand-in",
              "Function": "the parameter is the formula text itself (identity); formula parsing is C17"}


def ctor_fields(src, module, cls):
    """constructor-level numeric fields of a class: the parameters of __init__ other than self/name, with their defaults"""
    try:
        m, owner, fn = src.resolve_method(cls, "__init__")
    except NotFound:
        return [], {}
    a = fn.args
    names = [x.arg for x in a.args][1:]
    defaults = dict(zip(names[len(names) - len(a.defaults):], a.defaults)) if a.defaults else {}
    return [n for n in names if n != "name"], defaults


def sym_fields(names, tag, kinds):
    out, wf = {}, []
    for n in names:
        k = kinds.get(n, "float")
        if k == "int":
            out[n] = Num(X(xr.F, xr.I0, z3.ToReal(z3.Int(f"{tag}.{n}"))), False, True, True)
        elif isinstance(k, tuple) and k[0] == "enum":
            idx = z3.Int(f"{tag}.{n}")
            out[n] = Enum(k[1], idx)
            wf += [idx >= 0, idx < k[2]]
        else:
            x, w = xr.sym(f"{tag}.{n}")
            out[n] = Num(x, False, True)
            wf += [w, canon(x2xr(x))]
    return out, wf


def default_object(src, cls):
    """field values of `cls()` (what the importer's factory constructs before calling configure), by running the real __init__"""
    try:
        m, owner, fn = src.resolve_method(cls, "__init__")
    except NotFound:
        return {}
    ex = TokExec(src, m, xr.Ax(), selfobj=Obj(cls, {}))
    ex.cur_cls = [owner]
    env = ex.bind(fn, [], {})
    outs = ex.run(fn, env)
    rets = [q for k, v, q in outs if k == "return"]
    if len(rets) != 1:
        raise Unsupported(f"{cls}.__init__ with {len(rets)} outcomes")
    return dict(rets[0].env.get("__self_fields__", {}))


def same_val(a, b):
    if isinstance(a, Enum) and isinstance(b, Enum):
        return a.idx == b.idx
    if isinstance(a, Enum) or isinstance(b, Enum):
        return z3.BoolVal(False)
    return None


def roundtrip(run, module, cls, kinds=None, height=True, replay_cls=None, case=None, ctag=""):
    src = run.src
    kinds = kinds or {}
    fq = f"{module}.{cls}"
    try:
        m_p = src.resolve_method(cls, "parameters"); m_c = src.resolve_method(cls, "configure")
    except NotFound as ex_:
        run.add(static(f"{fq}/exists", False, str(ex_), fn=fq)); return
    run.under_contract(m_p[0], f"{m_p[1]}.parameters", m_p[2]); run.under_contract(m_c[0], f"{m_c[1]}.configure", m_c[2])
    names, _ = ctor_fields(src, module, cls)
    before, wf = sym_fields(names, "v", kinds)
    rp = RP(f"fll-component:{replay_cls or cls}")
    try:
        junk = default_object(src, cls)       # the freshly constructed object the importer configures
    except ANALYSIS as ex_:
        run.add(undecided(f"{fq}.__init__/subset", f"outside the verified subset: {ex_}", fn=fq, meta=rp)); return
    for k_, v_ in junk.items():
        before.setdefault(k_, v_)            # fields that are not constructor parameters keep their constructed value (e.g. Constant.height = 1.0)
    wf2 = []
    cases = [z3.BoolVal(True)] if case is None else [case]
    if case is None:
        try:
            ex = TokExec(src, m_p[0], xr.Ax(), selfobj=Obj(cls, dict(before)))
            ex.run(m_p[2], {"self": ex.selfobj}, pc=list(wf))
        except MultiReturn as mr:
            for k_, c_ in enumerate(mr.cases):
                roundtrip(run, module, cls, kinds, height, replay_cls, case=c_, ctag=f"[case{k_}]")
            return
        except ANALYSIS as ex_:
            run.add(undecided(f"{fq}.parameters/subset", f"outside the verified subset: {ex_}", fn=fq, meta=rp)); return
    fq = fq + ctag
    ex = TokExec(src, m_p[0], xr.Ax(), selfobj=Obj(cls, dict(before)))
    try:
        outs1 = ex.run(m_p[2], {"self": ex.selfobj}, pc=list(wf) + cases)
    except (Unsupported, MultiReturn) as ex_:
        run.add(undecided(f"{fq}.parameters/subset", f"outside the verified subset: {ex_}", fn=fq, meta=rp)); return
    n_ok = 0
    for k1, (kind1, val1, p1) in enumerate(outs1):
        if kind1 != "return":
            run.add(Obl(f"{fq}.parameters/raises.none[path{k1}]", p1.pc + ex.axioms, z3.BoolVal(False), fn=fq, meta=rp)); continue
        T1 = val1 if isinstance(val1, Text) else Text([val1]) if isinstance(val1, Tok) else Text([]) if val1 == "" else None
        if T1 is None:
            run.add(undecided(f"{fq}.parameters/subset[path{k1}]", f"parameters() returned {type(val1).__name__}", fn=fq, meta=rp)); continue
        ex2 = TokExec(src, m_c[0], xr.Ax(), selfobj=Obj(cls, dict(junk)))
        ex2.axioms, ex2.seen_fmt = ex.axioms, ex.seen_fmt
        try:
            outs2 = ex2.run(m_c[2], {"self": ex2.selfobj, "parameters": T1}, pc=list(p1.pc))
        except (Unsupported, MultiReturn) as ex_:
            run.add(undecided(f"{fq}.configure/subset[path{k1}]", f"outside the verified subset: {ex_}", fn=fq, meta=rp)); continue
        for nm, pc, goal in ex2.safety:
            run.add(Obl(f"{fq}.configure/safety/{nm}[path{k1}]", pc + ex.axioms, goal, fn=fq, meta=rp))
        for j, (q, exc) in enumerate(ex2.raised):
            run.add(Obl(f"{fq}.configure/accepts_own_output[path{k1}][raise{j}:{exc}]", q.pc + ex.axioms + str_distinct(), z3.BoolVal(False), fn=fq, meta=rp))
        for k2, (kind2, val2, p2) in enumerate(outs2):
            tag = f"[path{k1}.{k2}]"
            if kind2 != "return":
                run.add(Obl(f"{fq}.configure/accepts_own_output{tag}[raise:{val2}]", p2.pc + ex.axioms + str_distinct(), z3.BoolVal(False), fn=fq, meta=rp)); continue
            after = p2.env.get("__self_fields__", ex2.selfobj.fields)
            printed_height = height and len(T1.toks) > len([n for n in names if n != "height"])
            goals = []
            for n in names:
                a, b = after.get(n), before[n]
                sv = same_val(a, b)
                if sv is not None:
                    goals.append(sv); continue
                if a is None:
                    goals.append(z3.BoolVal(False)); continue
                ta, tb = x2xr(ex2.num(a).x), x2xr(ex.num(b).x)
                if kinds.get(n) == "int":
                    goals.append(ex2.num(a).x.v == ex.num(b).x.v)
                elif n == "height":
                    # from the statement: a height farther from 1 than the comparison tolerance is restored (to the value that survives printing);
                    # one within the tolerance may be replaced by the neutral 1.0 - whatever branch the code took
                    ex.ax_fmt(tb)
                    hv = Num(xr2x(rnd(tb)), False, True)
                    close = ex.boo(ex.ev(Path({"h": hv}, []), ast.parse("Op.is_close(h, 1.0)").body[0].value)).b
                    goals.append(z3.If(close, z3.Or(ta == x2xr(xr.const(1.0)), ta == rnd(tb)), ta == rnd(tb)))
                else:
                    ex.ax_fmt(tb)
                    goals.append(ta == rnd(tb))
            run.add(Obl(f"{fq}/configure_restores_every_field{tag}", p2.pc + ex.axioms + str_distinct(), z3.And(*goals) if goals else z3.BoolVal(True), fn=fq, meta=rp))
            # print again: the same tokens (fixed point of export -> import -> export for this component)
            ex3 = TokExec(src, m_p[0], xr.Ax(), selfobj=Obj(cls, dict(after)))
            ex3.axioms, ex3.seen_fmt = ex.axioms, ex.seen_fmt
            try:
                outs3 = ex3.run(m_p[2], {"self": ex3.selfobj}, pc=list(p2.pc))
            except MultiReturn as mr:
                # printing again may take either branch of the helper: every branch whose text differs must be infeasible
                outs3 = []
                for c_ in mr.cases:
                    ex3 = TokExec(src, m_p[0], xr.Ax(), selfobj=Obj(cls, dict(after)))
                    ex3.axioms, ex3.seen_fmt = ex.axioms, ex.seen_fmt
                    try:
                        outs3 += ex3.run(m_p[2], {"self": ex3.selfobj}, pc=list(p2.pc) + [c_])
                    except (Unsupported, MultiReturn) as ex_:
                        run.add(undecided(f"{fq}.parameters/subset.second{tag}", f"{ex_}", fn=fq, meta=rp))
            except ANALYSIS as ex_:
                run.add(undecided(f"{fq}.parameters/subset.second{tag}", f"{ex_}", fn=fq, meta=rp)); continue
            for k3, (kind3, val3, p3) in enumerate(outs3):
                T3 = val3 if isinstance(val3, Text) else Text([val3]) if isinstance(val3, Tok) else Text([]) if val3 == "" else None
                if kind3 != "return" or T3 is None:
                    run.add(Obl(f"{fq}/print_again.no_raise{tag}.{k3}", p3.pc + ex.axioms + str_distinct(), z3.BoolVal(False), fn=fq, meta=rp)); continue
                if len(T3.toks) != len(T1.toks):
                    goal = z3.BoolVal(False)      # a different number of tokens must be impossible
                else:
                    goal = z3.And(*[a.t == b.t for a, b in zip(T3.toks, T1.toks)]) if T1.toks else z3.BoolVal(True)
                run.add(Obl(f"{fq}/print_again_gives_the_same_text{tag}.{k3}", p3.pc + ex.axioms + str_distinct(), goal, fn=fq, meta=dict(rp, sat_final=True)))
            n_ok += 1
    run.add(static(f"{fq}/round_trip_paths", n_ok > 0, f"{n_ok} print/parse path combination(s) analysed", fn=fq))


def verify_rule_weight(run):
    """Rule.text prints `if A then C [with w]`; Rule.parse (C16) reads the weight back as to_float(token) or 1.0 when absent: the printed text is a
    fixed point and the weight is restored unless it is within the tolerance of 1"""
    src = run.src
    fq = "rule.Rule.text"
    fn = src.func("rule", "Rule.text", "getter")
    run.under_contract("rule", "Rule.text", fn)
    rp = RP("fll-text-not-fixed-point")
    A, C = Tok(z3.Const("antecedent_text", Str)), Tok(z3.Const("consequent_text", Str))
    w, wf = xr.sym("weight")

    def rule_obj(weight):
        return Obj("Rule", {"weight": weight, "antecedent": Obj("Antecedent", {"text": A}), "consequent": Obj("Consequent", {"text": C})})

    def run_text(weight, pc, shared=None):
        ex = TokExec(src, "rule", xr.Ax(), selfobj=rule_obj(weight))
        if shared is not None:
            ex.axioms, ex.seen_fmt = shared.axioms, shared.seen_fmt
        return ex, ex.run(fn, {"self": ex.selfobj}, pc=list(pc))
    try:
        ex, outs = run_text(Num(w, False, True), [wf, canon(x2xr(w))])
    except (Unsupported, MultiReturn) as ex_:
        run.add(undecided(f"{fq}/subset", f"outside the verified subset: {ex_}", fn=fq, meta=rp)); return
    from pyvc.tokexec import pf
    from pyvc.heap import strc
    n_ok = 0
    for k, (kind, val, p1) in enumerate(outs):
        if kind != "return" or not isinstance(val, Text):
            run.add(Obl(f"{fq}/returns_text[path{k}]", p1.pc + ex.axioms, z3.BoolVal(False), fn=fq, meta=rp)); continue
        toks = val.toks
        shape_ok = len(toks) in (4, 6) and toks[1] is A and toks[3] is C
        run.add(static(f"{fq}/layout[path{k}]", shape_ok, f"{len(toks)} tokens: if <antecedent> then <consequent>" + (" with <weight>" if len(toks) == 6 else ""), fn=fq, meta=rp))
        if not shape_ok:
            continue
        kw = [toks[0].t == strc("if"), toks[2].t == strc("then")] + ([toks[4].t == strc("with")] if len(toks) == 6 else [])
        run.add(Obl(f"{fq}/keywords[path{k}]", p1.pc + ex.axioms + str_distinct(), z3.And(*kw), fn=fq, meta=rp))
        # what Rule.parse stores (C16): the float of the token after `with`, or 1.0
        w2 = Num(xr2x(pf(toks[5].t)), False, True) if len(toks) == 6 else Num(xr.const(1.0), False, True)
        tw = x2xr(w)
        ex.ax_fmt(tw)
        hv = Num(xr2x(rnd(tw)), False, True)
        close = ex.boo(ex.ev(Path({"h": hv}, []), ast.parse("Op.is_close(h, 1.0)").body[0].value)).b
        t2 = x2xr(w2.x)
        run.add(Obl(f"{fq}/weight_restored_unless_within_tolerance_of_1[path{k}]", p1.pc + ex.axioms + str_distinct(), z3.If(close, z3.Or(t2 == x2xr(xr.const(1.0)), t2 == rnd(tw)), t2 == rnd(tw)), fn=fq, meta=rp))
        try:
            ex3, outs3 = run_text(w2, p1.pc, shared=ex)
        except (Unsupported, MultiReturn) as ex_:
            run.add(undecided(f"{fq}/subset.second[path{k}]", f"{ex_}", fn=fq, meta=rp)); continue
        for k3, (kind3, val3, p3) in enumerate(outs3):
            if kind3 != "return" or not isinstance(val3, Text):
                run.add(Obl(f"{fq}/print_again.no_raise[path{k}.{k3}]", p3.pc + ex.axioms, z3.BoolVal(False), fn=fq, meta=rp)); continue
            goal = z3.And(*[a.t == b.t for a, b in zip(val3.toks, toks)]) if len(val3.toks) == len(toks) else z3.BoolVal(False)
            run.add(Obl(f"{fq}/print_again_gives_the_same_text[path{k}.{k3}]", p3.pc + ex.axioms + str_distinct(), goal, fn=fq, meta=rp))
        n_ok += 1
    run.add(static(f"{fq}/paths", n_ok == 2, f"{n_ok} printing path(s) (with and without the weight)", fn=fq))


# ------------------------------------------------------------------------------------------------ Linear / Discrete: variable-length parameter lists
class PairsV:
    """Discrete.values: an (m, 2) array as a concrete-length list of (x, y) pairs"""

    def __init__(s, pairs):
        s.pairs = tuple(pairs)


class ListTermExec(TokExec):
    """TokExec + the list/array idioms of Linear and Discrete (lists of CONCRETE length with symbolic elements)"""

    def ev_Call(s, p, e):
        t = ast.unparse(e.func)
        if t == "self.values.flatten().tolist" and not e.args:
            v = s.ev(p, ast.parse("self.values").body[0].value)
            if isinstance(v, PairsV):
                out = []
                for x, y in v.pairs:
                    out += [x, y]
                return PyL(out)
        if t == "array" and len(e.args) == 1:
            v = s.ev(p, e.args[0])
            if isinstance(v, PyL) and all(isinstance(x, (Tok, Num, float, int)) for x in v.items):
                # numpy.array(list of numeric strings, dtype=float): every element parsed like float() (A-NP); ValueError when one is not a number
                out = []
                for x in v.items:
                    if isinstance(x, Tok):
                        from pyvc.tokexec import pf, pf_ok
                        q = Path(p.env, list(p.pc)); q.pc.append(z3.Not(pf_ok(x.t))); s.raised.append((q, "ValueError"))
                        p.pc += [pf_ok(x.t), canon(pf(x.t))]
                        out.append(Num(xr2x(pf(x.t)), False, True))
                    else:
                        out.append(s.num(x, e))
                return PyL(out)
            if isinstance(v, PyL) and len(v.items) == 2 and all(isinstance(x, PyL) for x in v.items):
                return ("matrix2", v.items[0], v.items[1])
        if t in ("Discrete.to_xy",) and len(e.args) == 2:
            fn = s.src.func("term", "Discrete.to_xy")
            sub = type(s)(s.src, "term", s.ax)
            sub.axioms, sub.seen_fmt, sub.raised = s.axioms, s.seen_fmt, s.raised
            outs = sub.run(fn, {"x": s.ev(p, e.args[0]), "y": s.ev(p, e.args[1])}, pc=p.pc)
            rets = [(v_, q) for k_, v_, q in outs if k_ == "return"]
            for k_, v_, q in outs:
                if k_ == "raise":
                    s.raised.append((q, v_))
            if len(rets) != 1:
                raise Unsupported(f"Discrete.to_xy: {len(rets)} returning paths")
            p.pc[:] = rets[0][1].pc
            return rets[0][0]
        return super().ev_Call(p, e)

    def ev_Attribute(s, p, e):
        if e.attr == "T":
            v = s.ev(p, e.value)
            if isinstance(v, tuple) and v and v[0] == "matrix2" and len(v[1].items) == len(v[2].items):
                return PairsV(zip(v[1].items, v[2].items))
        if e.attr == "shape":
            v = s.ev(p, e.value)
            if isinstance(v, PyL):
                return ("shape", len(v.items))
        if ast.unparse(e) == "settings.float_type":
            return "float_type"
        return super().ev_Attribute(p, e)

    def ev_Compare(s, p, e):
        if len(e.ops) == 1 and isinstance(e.ops[0], (ast.NotEq, ast.Eq)):
            q = Path(p.env, p.pc)
            try:
                l, r = s.ev(q, e.left), s.ev(q, e.comparators[0])
            except Unsupported:
                l = r = None
            if isinstance(l, tuple) and isinstance(r, tuple) and l and r and l[0] == r[0] == "shape":
                return (l != r) if isinstance(e.ops[0], ast.NotEq) else (l == r)
        return super().ev_Compare(p, e)

    def ev_Subscript(s, p, e):
        base = s.ev(Path(p.env, p.pc), e.value)
        if isinstance(base, PyL) and isinstance(e.slice, ast.Slice):
            lo = e.slice.lower.value if isinstance(e.slice.lower, ast.Constant) else 0
            st = e.slice.step.value if isinstance(e.slice.step, ast.Constant) else 1
            if e.slice.upper is None:
                return PyL(base.items[lo::st])
        return super().ev_Subscript(p, e)

    def binop(s, op, l, r, e, p):
        if isinstance(op, ast.Mod) and isinstance(l, int) and isinstance(r, int):
            return l % r
        return super().binop(op, l, r, e, p)

    def stmt(s, p, n):
        if isinstance(n, ast.Delete) and len(n.targets) == 1 and isinstance(n.targets[0], ast.Subscript) and isinstance(n.targets[0].value, ast.Name) \
                and isinstance(p.env.get(n.targets[0].value.id), PyL) and ast.unparse(n.targets[0].slice) == "-1":
            nm = n.targets[0].value.id
            p.env[nm] = PyL(p.env[nm].items[:-1])
            return [(p, None)]
        return super().stmt(p, n)


def list_term_roundtrip(run, cls, k):
    """Linear with k coefficients / Discrete with k pairs: print -> configure (on the constructor-default object) -> print again"""
    src = run.src
    fq = f"term.{cls}[{k}]"
    m_p, m_c = src.resolve_method(cls, "parameters"), src.resolve_method(cls, "configure")
    run.under_contract(m_p[0], f"{m_p[1]}.parameters", m_p[2]); run.under_contract(m_c[0], f"{m_c[1]}.configure", m_c[2])
    rp = RP(f"fll-component:{cls}")
    nums, wf = [], []
    for i in range(k * (2 if cls == "Discrete" else 1)):
        x, w = xr.sym(f"v{i}")
        nums.append(Num(x, False, True)); wf += [w, canon(x2xr(x))]
    h, wh = xr.sym("height")
    if cls == "Linear":
        before = {"name": "t", "height": 1.0, "coefficients": PyL(nums), "engine": None}
        default = {"name": "", "height": 1.0, "coefficients": PyL(()), "engine": None}
    else:
        before = {"name": "t", "height": Num(h, False, True), "values": PairsV(zip(nums[0::2], nums[1::2]))}
        default = {"name": "", "height": 1.0, "values": PairsV(())}
        wf += [wh, canon(x2xr(h))]

    def run_params(fields, pc, shared=None, cases=None):
        outs = []
        for c in (cases or [z3.BoolVal(True)]):
            ex = ListTermExec(src, m_p[0], xr.Ax(), selfobj=Obj(cls, dict(fields)))
            if shared is not None:
                ex.axioms, ex.seen_fmt = shared.axioms, shared.seen_fmt
            try:
                outs += [(ex, o) for o in ex.run(m_p[2], {"self": ex.selfobj}, pc=list(pc) + [c])]
            except MultiReturn as mr:
                if cases is None:
                    return run_params(fields, pc, shared, mr.cases)
                raise
        return outs
    try:
        first = run_params(before, wf)
    except (Unsupported, MultiReturn) as ex_:
        run.add(undecided(f"{fq}.parameters/subset", f"outside the verified subset: {ex_}", fn=fq, meta=rp, level="B")); return
    shared = first[0][0] if first else None
    n_ok = 0
    for k1, (ex, (kind1, val1, p1)) in enumerate(first):
        T1 = val1 if isinstance(val1, Text) else Text([val1]) if isinstance(val1, Tok) else Text([]) if val1 == "" else None
        if kind1 != "return" or T1 is None:
            run.add(Obl(f"{fq}.parameters/returns_text[path{k1}]", p1.pc + ex.axioms, z3.BoolVal(False), fn=fq, meta=rp, level="B")); continue
        ex2 = ListTermExec(src, m_c[0], xr.Ax(), selfobj=Obj(cls, dict(default)))
        ex2.axioms, ex2.seen_fmt = shared.axioms, shared.seen_fmt
        try:
            outs2 = ex2.run(m_c[2], {"self": ex2.selfobj, "parameters": T1}, pc=list(p1.pc))
        except (Unsupported, MultiReturn) as ex_:
            run.add(undecided(f"{fq}.configure/subset[path{k1}]", f"outside the verified subset: {ex_}", fn=fq, meta=rp, level="B")); continue
        for j, (q, exc) in enumerate(ex2.raised):
            run.add(Obl(f"{fq}.configure/accepts_own_output[path{k1}][raise{j}:{exc}]", q.pc + shared.axioms + str_distinct(), z3.BoolVal(False), fn=fq, meta=rp, level="B"))
        for k2, (kind2, val2, p2) in enumerate(outs2):
            tag = f"[path{k1}.{k2}]"
            if kind2 != "return":
                run.add(Obl(f"{fq}.configure/accepts_own_output{tag}[raise:{val2}]", p2.pc + shared.axioms + str_distinct(), z3.BoolVal(False), fn=fq, meta=rp, level="B")); continue
            after = p2.env.get("__self_fields__", ex2.selfobj.fields)
            got = after.get("coefficients") if cls == "Linear" else after.get("values")
            flat = list(got.items) if isinstance(got, PyL) else [z for pr in got.pairs for z in pr] if isinstance(got, PairsV) else None
            goals = []
            if flat is None or len(flat) != len(nums):
                goals.append(z3.BoolVal(False))
            else:
                for a, b in zip(flat, nums):
                    tb = x2xr(b.x); shared.ax_fmt(tb)
                    goals.append(x2xr(ex2.num(a).x) == rnd(tb))
            run.add(Obl(f"{fq}/configure_restores_every_element{tag}", p2.pc + shared.axioms + str_distinct(), z3.And(*goals) if goals else z3.BoolVal(True), fn=fq, meta=rp, level="B"))
            try:
                third = run_params(after, p2.pc, shared)
            except (Unsupported, MultiReturn) as ex_:
                run.add(undecided(f"{fq}.parameters/subset.second{tag}", f"{ex_}", fn=fq, meta=rp, level="B")); continue
            for k3, (ex3, (kind3, val3, p3)) in enumerate(third):
                T3 = val3 if isinstance(val3, Text) else Text([val3]) if isinstance(val3, Tok) else Text([]) if val3 == "" else None
                if kind3 != "return" or T3 is None or len(T3.toks) != len(T1.toks):
                    goal = z3.BoolVal(False)
                else:
                    goal = z3.And(*[a.t == b.t for a, b in zip(T3.toks, T1.toks)]) if T1.toks else z3.BoolVal(True)
                run.add(Obl(f"{fq}/print_again_gives_the_same_text{tag}.{k3}", p3.pc + shared.axioms + str_distinct(), goal, fn=fq, meta=rp, level="B"))
            n_ok += 1
    run.add(static(f"{fq}/round_trip_paths", n_ok > 0, f"{n_ok} print/parse path combination(s) analysed for a list of length {k}", fn=fq, level="B"))


# ------------------------------------------------------------------------------------------------ line-level schema: exporter keys <-> importer keys
def verify_fll_schema(run):
    """every `key: value` line the exporter writes for a component is read back by the importer's branch for that key into the SAME field with the
    matching converter (boolean / to_float / range / tnorm / snorm / activation / defuzzifier / term / rule) - read off both ASTs"""
    src = run.src

    def exported(fn_names):
        out = {}
        for q in fn_names:
            fn = src.func("exporter", f"FllExporter.{q}")
            run.under_contract("exporter", f"FllExporter.{q}", fn)
            for n in ast.walk(fn):
                if isinstance(n, ast.Call) and ast.unparse(n.func) == "self.format" and n.args and isinstance(n.args[0], ast.Constant) and len(n.args) > 1:
                    attrs = sorted({x.attr for x in ast.walk(n.args[1]) if isinstance(x, ast.Attribute) and isinstance(x.value, ast.Name) and x.value.id not in ("self", "Op")})
                    conv = [ast.unparse(c.func).replace("self.", "") for c in ast.walk(n.args[1]) if isinstance(c, ast.Call) and ast.unparse(c.func).startswith("self.")]
                    out[n.args[0].value] = (tuple(attrs), conv[0] if conv else None)
            for n in ast.walk(fn):      # lists of terms / rules are written through self.term / self.rule
                if isinstance(n, ast.ListComp) and isinstance(n.elt, ast.BinOp) and isinstance(n.elt.right, ast.Call) and ast.unparse(n.elt.right.func) in ("self.term", "self.rule"):
                    k = ast.unparse(n.elt.right.func).replace("self.", "")
                    out[k] = ((ast.unparse(n.generators[0].iter).split(".")[-1],), k)
        return out

    def imported(q):
        fn = src.func("importer", f"FllImporter.{q}")
        run.under_contract("importer", f"FllImporter.{q}", fn)
        out = {}
        for n in ast.walk(fn):
            if isinstance(n, ast.If) and isinstance(n.test, ast.Compare) and ast.unparse(n.test.left) == "key" and isinstance(n.test.comparators[0], ast.Constant):
                key = n.test.comparators[0].value
                attrs, conv = [], None
                for st in n.body:
                    for x in ast.walk(st):
                        if isinstance(x, ast.Attribute) and isinstance(x.ctx, ast.Store):
                            attrs.append(x.attr)
                        if isinstance(x, ast.Call) and isinstance(x.func, ast.Attribute) and x.func.attr == "append" and isinstance(x.func.value, ast.Attribute):
                            attrs.append(x.func.value.attr)
                        if isinstance(x, ast.Call) and (ast.unparse(x.func).startswith("self.") or ast.unparse(x.func) == "to_float"):
                            conv = conv or ast.unparse(x.func).replace("self.", "")
                out[key] = (tuple(sorted(set(attrs))), conv)
        return out
    # how a field is converted back: by the kind of the field
    CONV = {"enabled": "boolean", "lock_range": "boolean", "lock_previous": "boolean", "default_value": "to_float", "aggregation": "snorm", "disjunction": "snorm", "conjunction": "tnorm", "implication": "tnorm",
            "activation": "activation", "defuzzifier": "defuzzifier", "terms": "term", "rules": "rule", "description": None, "name": None}
    comps = {"InputVariable": (["variable"], "input_variable"), "OutputVariable": (["variable", "output_variable"], "output_variable"), "RuleBlock": (["rule_block"], "rule_block")}
    rs = src.func("variable", "Variable.range", "setter")
    range_ok = ast.unparse(rs.body[-1]) == "self.minimum, self.maximum = min_max"
    run.add(static("variable.Variable.range/setter_assigns_minimum_and_maximum", range_ok, f"`{ast.unparse(rs.body[-1])}`", fn="variable.Variable.range", meta=dict(RP("fll-structure"), soft=True)))
    for comp, (exp_fns, imp_fn) in comps.items():
        ex_map, im_map = exported(exp_fns), imported(imp_fn)
        ex_map.pop("term", None) if comp == "RuleBlock" else None
        if len(ex_map) < 4 or len(im_map) < 4:
            # the functions are not written as `self.format('key', ...)` lines / `key == '...'` branches any more: nothing can be read off the AST -
            # undecided (the bounded stand-in decides), never a violation
            run.add(undecided(f"exporter.FllExporter+importer.FllImporter/{comp}.keys_and_fields_agree", f"pattern not recognised: {len(ex_map)} exported keys, {len(im_map)} importer branches",
                              fn=f"importer.FllImporter.{imp_fn}", meta=RP("fll-structure")))
            continue
        problems = []
        for key, (attrs, conv) in ex_map.items():
            if key not in im_map:
                problems.append(f"`{key}:` is written but the importer has no branch for it"); continue
            iattrs, iconv = im_map[key]
            want_attrs = ("range",) if attrs == ("maximum", "minimum") else attrs
            if tuple(iattrs) != tuple(want_attrs):
                problems.append(f"`{key}:` is written from {attrs} but read into {iattrs}")
            want_conv = "range" if key == "range" else CONV.get(attrs[0]) if attrs else None
            if want_conv != iconv:
                problems.append(f"`{key}:` ({attrs}) is read back with {iconv}, expected {want_conv}")
        extra = [k for k in im_map if k not in ex_map and k != comp]
        if extra:
            problems.append(f"the importer accepts keys the exporter never writes: {extra}")
        run.add(static(f"exporter.FllExporter+importer.FllImporter/{comp}.keys_and_fields_agree", not problems and len(ex_map) >= 4,
                       "; ".join(problems) if problems else f"{len(ex_map)} keys: " + ", ".join(f"{k} <- {','.join(a)}" for k, (a, c) in sorted(ex_map.items())),
                       fn=f"importer.FllImporter.{imp_fn}", meta=RP("fll-structure")))


def verify_is_close(run):
    """Op.is_close(a, b) IS the library's comparison tolerance of the statement: |a - b| <= atol + rtol * |b| with the library settings (defaults read from
    Settings.__init__, A-SET), NaN equal to NaN, infinities only to themselves.  The round-trip obligations above call the real helper to decide whether a
    height / weight may be dropped; this contract fixes what the helper means."""
    from pyvc.numexec import NumExec, Path as NPath
    src = run.src
    fq = "operation.Op.is_close"
    fn = src.func("operation", "Operation.is_close")
    run.under_contract("operation", "Operation.is_close", fn)
    rp = {"replay": {"module": "contracts.settings_native", "func": "replay_is_close", "kwargs": {}, "vars": {"a": "a", "b": "b"}}}
    ax = xr.Ax()
    ex = NumExec(src, "operation", ax)
    a, ca = xr.sym("a"); b, cb = xr.sym("b")
    try:
        r = ex.boo(ex.ev(NPath({"a": Num(a, False, True), "b": Num(b, False, True)}, []), ast.parse("Op.is_close(a, b)").body[0].value)).b
        atol, rtol = ex.setting("atol", fn), ex.setting("rtol", fn)
    except ANALYSIS as ex_:
        run.add(undecided(f"{fq}/subset", f"outside the verified subset: {ex_}", fn=fq, meta=rp)); return
    fin = z3.And(xr.fin(a), xr.fin(b))
    spec_fin = xr.le(xr.xabs(xr.sub(a, b)), xr.add(xr.const(float(atol)), xr.mul(xr.const(float(rtol)), xr.xabs(b))))
    run.add(Obl(f"{fq}/ensures.library_tolerance_on_finite_operands", [ca, cb, fin] + ax.axioms(), r == spec_fin, fn=fq, meta=rp))
    run.add(Obl(f"{fq}/ensures.nan_equals_nan_and_infinities_only_themselves", [ca, cb, z3.Not(fin)] + ax.axioms(),
                r == z3.If(z3.Or(a.nan, b.nan), z3.And(a.nan, b.nan), xr.eq(a, b)), fn=fq, meta=rp))
    run.add(static(f"{fq}/default_tolerances", float(atol) > 0 and float(rtol) >= 0, f"atol = {atol}, rtol = {rtol} (defaults of Settings.__init__)", fn=fq))


def build(run):
    run.assume("A-FMT", "A-STR", "A-SET", "A-PY", "A-MSG", "A-NP")
    try:
        verify_is_close(run)
    except NotFound as ex_:
        run.add(static("operation.Op.is_close/exists", False, str(ex_)))
    src = run.src
    terms = [c for c in src.subclasses("term", "Term")]
    for c in terms:
        if c in SKIP_TERMS:
            run.notes.append(f"{c}: {SKIP_TERMS[c]}")
            continue
        try:
            roundtrip(run, "term", c, height=(c != "Constant"))
        except ANALYSIS as ex_:
            run.add(undecided(f"term.{c}/subset", f"outside the verified subset: {ex_}", fn=f"term.{c}", meta=RP(f"fll-component:{c}")))
    ncomp = 6
    for c in src.subclasses("activation", "Activation"):
        kinds = {"rules": "int", "comparator": ("enum", "Threshold.Comparator", ncomp)}
        try:
            roundtrip(run, "activation", c, kinds=kinds, height=False)
        except ANALYSIS as ex_:
            run.add(undecided(f"activation.{c}/subset", f"outside the verified subset: {ex_}", fn=f"activation.{c}", meta=RP(f"fll-component:{c}")))
    for c in src.subclasses("defuzzifier", "Defuzzifier"):
        if c in ("IntegralDefuzzifier", "WeightedDefuzzifier"):
            continue
        kinds = {"resolution": "int", "type": ("enum", "WeightedDefuzzifier.Type", 3)}
        try:
            roundtrip(run, "defuzzifier", c, kinds=kinds, height=False)
        except ANALYSIS as ex_:
            run.add(undecided(f"defuzzifier.{c}/subset", f"outside the verified subset: {ex_}", fn=f"defuzzifier.{c}", meta=RP(f"fll-component:{c}")))
    verify_rule_weight(run)
    try:
        verify_fll_schema(run)
    except NotFound as ex_:
        run.add(static("exporter.FllExporter+importer.FllImporter/schema.exists", False, str(ex_)))
    # Linear / Discrete: parameter lists of bounded length (level B: complete for each length, the bound is on the length)
    for cls, ks in (("Linear", (0, 1, 3)), ("Discrete", (1, 2, 3))):
        for k in ks:
            try:
                list_term_roundtrip(run, cls, k)
            except (Unsupported, MultiReturn) as ex_:
                run.add(undecided(f"term.{cls}[{k}]/subset", f"outside the verified subset: {ex_}", fn=f"term.{cls}", meta=RP(f"fll-component:{cls}"), level="B"))
    b = 200 if run.tier == "quick" else 2000
    run.bounded("exporter.FllExporter+importer.FllImporter/round_trip.runtime", N_, "replay_fll_roundtrip", [dict(seed=run.seed, budget=b)],
                bound=f"every registered term/norm/defuzzifier/activation/hedge on its own at decimals 1..9; {b} generated engines forming a covering array (every class, flags both ways, descriptions, infinite ranges, NaN defaults, non-unit heights and weights) at two decimals settings each: text fixed point, structural equality, exact outputs under the representability hypothesis; 61 shipped examples verbatim and reformatted + hand-written texts: one import/export cycle is a fixed point")
    run.bounded("importer.FllImporter/empty_components_survive.runtime", "contracts.fll_edge_native", "replay_fll_empty_components", [dict(seed=run.seed)],
                bound="engines with a term-less input variable, a term-less output variable, an empty rule block and a disabled bare rule block (with and without descriptions): no component is lost and the text is a fixed point")


if __name__ == "__main__":
    sys.exit(main("C14", build, "FuzzyLite Language export/import round-trips engines"))
