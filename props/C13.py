"""C13 - Processing is history-free; restart and copy give clean independent engines (DESIGN 8/C13).

Deductive: Rule.unload / Rule.load / RuleBlock.unload_rules / load_rules (loop with try/except) / reload_rules and Engine.restart are
verified from the real AST: after restart every input is NaN, every rule of every block is deactivated and freshly loaded from its
CURRENT text against THIS engine (or left unloaded when its text is rejected), every output variable has NaN value, NaN previous value
and an empty fuzzy output - the same state predicate a load of a newly built engine establishes.  History-freedom: the ingredients are
obligations (all fuzzy outputs empty before activation - C01; with lock-previous off the committed value does not read the held value;
frames), the end-to-end statement and copy-independence are a bounded stand-in plus the static absence of custom copy hooks
(assumption A-DEEPCOPY).
"""
import sys, os
sys.path.insert(0, os.path.dirname(os.path.dirname(os.path.abspath(__file__))))
import ast
import z3
from pyvc import xreal as xr
from pyvc.numexec import Num, Bool, Unsupported, ANALYSIS
from pyvc.heap import (HeapExec, HPath, LoopSpec, Contract, Ref, NONE, XR, cls_of, SeqRef, SeqAct, x2xr, xr2x, RefV, SeqV, canon, str_distinct)
from pyvc.hlib import init_heap, emit, frame_goal
from pyvc.solve import Obl, static, undecided
from pyvc.runner import main
from pyvc.source import NotFound
from contracts import wiring as W

W_N = "contracts.wiring_native"
RP = {"module": W_N, "func": "replay_history", "kwargs": {"budget": 1500}, "vars": {}}
RP_COPY = {"module": "contracts.copy_native", "func": "replay_copy", "kwargs": {"budget": 120}, "vars": {}}
LOADERS = {"Antecedent.load": W.AntecedentLoad(), "Consequent.load": W.ConsequentLoad()}
RULE_FIELDS = {"Rule.activation_degree", "Rule.triggered", "Antecedent.expression", "Consequent.conclusions"}
ZERO = x2xr(xr.const(0.0))


def wf_rule(H0, r):
    return [r != NONE, H0["Rule.antecedent"][r] != NONE, H0["Rule.consequent"][r] != NONE]


def distinct_rules(H0, r1, r2):
    """wf: different rules own different antecedent/consequent objects"""
    return [z3.Implies(r1 != r2, z3.And(H0["Rule.antecedent"][r1] != H0["Rule.antecedent"][r2], H0["Rule.consequent"][r1] != H0["Rule.consequent"][r2]))]


def verify_rule_load(run):
    src = run.src
    sc = W.schema(src)
    for meth in ("load", "unload"):
        fq = f"rule.Rule.{meth}"
        fn = src.func("rule", f"Rule.{meth}")
        run.under_contract("rule", f"Rule.{meth}", fn)
        H0 = init_heap(sc)
        self_, eng = z3.Const("self", Ref), z3.Const("engine", Ref)
        ex = HeapExec(src, "rule", sc, contracts=dict(LOADERS), interfaces=W.INTERFACES,
                      inline={"Rule.deactivate", "Antecedent.unload", "Consequent.unload", "Antecedent.is_loaded", "Consequent.is_loaded", "Rule.is_loaded"}, fnname=fq)
        pre = wf_rule(H0, self_)
        env = {"self": RefV(self_, "Rule")}
        if meth == "load":
            env["engine"] = RefV(eng, "Engine")
        outs = ex.run_fn(fn, HPath(env, pre, H0))
        emit(run, ex, fq, [], RP)
        a, c = H0["Rule.antecedent"][self_], H0["Rule.consequent"][self_]
        ta, tc = H0["Antecedent.text"][a], H0["Consequent.text"][c]
        for i, (kind, val, q) in enumerate(outs):
            tag = f"[path{i}]"
            deact = z3.And(q.heap["Rule.activation_degree"][self_] == ZERO, z3.Not(q.heap["Rule.triggered"][self_]))
            if meth == "unload":
                if kind == "raise":
                    run.add(Obl(f"{fq}/raises.none{tag}", q.pc, z3.BoolVal(False), fn=fq, meta={"replay": RP})); continue
                run.add(Obl(f"{fq}/ensures.unloaded{tag}", q.pc, z3.And(deact, q.heap["Antecedent.expression"][a] == NONE, z3.Length(q.heap["Consequent.conclusions"][c]) == 0), fn=fq, meta={"replay": RP}))
            elif kind == "raise":
                # a failed load leaves the rule not loaded and deactivated (the antecedent may already be loaded when the consequent is rejected)
                not_loaded = z3.Or(q.heap["Antecedent.expression"][a] == NONE, z3.Length(q.heap["Consequent.conclusions"][c]) == 0)
                run.add(Obl(f"{fq}/raises.leaves_rule_unloaded{tag}", q.pc, z3.And(deact, not_loaded, z3.Or(z3.Not(W.ok_ant(ta, eng)), z3.Not(W.ok_cons(tc, eng)))), fn=fq, meta={"replay": RP}))
            else:
                # loads unconditionally from the CURRENT texts against the given engine
                run.add(Obl(f"{fq}/ensures.loaded_from_current_text{tag}", q.pc,
                            z3.And(deact, q.heap["Antecedent.expression"][a] == W.parse_ant(ta, eng), q.heap["Consequent.conclusions"][c] == W.parse_cons(tc, eng),
                                   W.ok_ant(ta, eng), W.ok_cons(tc, eng)), fn=fq, meta={"replay": RP}))
            run.add(Obl(f"{fq}/frame{tag}", q.pc, frame_goal(q, H0, RULE_FIELDS), fn=fq, meta={"replay": RP}))
        run.add(static(f"{fq}/modifies", ex.writes <= RULE_FIELDS, f"heap fields written: {sorted(ex.writes)}", fn=fq))


class RuleLoad(Contract):
    modifies = tuple(RULE_FIELDS)

    def call(s, ex, p, recv, args, kwargs, node):
        H = p.heap
        r, eng = recv.r, args[0].r
        a, c = H["Rule.antecedent"][r], H["Rule.consequent"][r]
        ta, tc = H["Antecedent.text"][a], H["Consequent.text"][c]
        base = dict(H)
        base["Rule.activation_degree"] = z3.Store(H["Rule.activation_degree"], r, ZERO)
        base["Rule.triggered"] = z3.Store(H["Rule.triggered"], r, z3.BoolVal(False))
        # failure 1: antecedent rejected; failure 2: consequent rejected
        q1 = p.fork(); q1.pc.append(z3.Not(W.ok_ant(ta, eng))); q1.heap = dict(base)
        q1.heap["Antecedent.expression"] = z3.Store(H["Antecedent.expression"], a, NONE)
        ex.raised.append((q1, "SyntaxError"))
        q2 = p.fork(); q2.pc += [W.ok_ant(ta, eng), z3.Not(W.ok_cons(tc, eng))]; q2.heap = dict(base)
        q2.heap["Antecedent.expression"] = z3.Store(H["Antecedent.expression"], a, W.parse_ant(ta, eng))
        q2.heap["Consequent.conclusions"] = z3.Store(H["Consequent.conclusions"], c, z3.Empty(SeqRef))
        ex.raised.append((q2, "SyntaxError"))
        p.pc += [W.ok_ant(ta, eng), W.ok_cons(tc, eng)]
        p.heap = dict(base)
        p.heap["Antecedent.expression"] = z3.Store(H["Antecedent.expression"], a, W.parse_ant(ta, eng))
        p.heap["Consequent.conclusions"] = z3.Store(H["Consequent.conclusions"], c, W.parse_cons(tc, eng))
        ex.writes |= RULE_FIELDS
        return None


class RuleUnload(Contract):
    modifies = tuple(RULE_FIELDS)

    def call(s, ex, p, recv, args, kwargs, node):
        H = p.heap
        r = recv.r
        a, c = H["Rule.antecedent"][r], H["Rule.consequent"][r]
        p.heap = dict(H)
        p.heap["Rule.activation_degree"] = z3.Store(H["Rule.activation_degree"], r, ZERO)
        p.heap["Rule.triggered"] = z3.Store(H["Rule.triggered"], r, z3.BoolVal(False))
        p.heap["Antecedent.expression"] = z3.Store(H["Antecedent.expression"], a, NONE)
        p.heap["Consequent.conclusions"] = z3.Store(H["Consequent.conclusions"], c, z3.Empty(SeqRef))
        ex.writes |= RULE_FIELDS
        return None


def verify_block_loaders(run):
    """RuleBlock.load_rules (loop with try/except collecting failures), unload_rules, reload_rules"""
    src = run.src
    sc = W.schema(src)
    rS = z3.Int("r*")
    for meth in ("unload_rules", "load_rules", "reload_rules"):
        fq = f"rule.RuleBlock.{meth}"
        fn = src.func("rule", f"RuleBlock.{meth}")
        run.under_contract("rule", f"RuleBlock.{meth}", fn)
        H0 = init_heap(sc)
        self_, eng = z3.Const("self", Ref), z3.Const("engine", Ref)
        rules = H0["RuleBlock.rules"][self_]
        L = z3.Length(rules)
        rr = rules[rS]

        def done(H, unload_only):
            if unload_only:
                a, c = H0["Rule.antecedent"][rr], H0["Rule.consequent"][rr]
                return z3.And(H["Rule.activation_degree"][rr] == ZERO, z3.Not(H["Rule.triggered"][rr]), H["Antecedent.expression"][a] == NONE, z3.Length(H["Consequent.conclusions"][c]) == 0)
            return W.fresh_rule_state(H0, H, rr, eng)

        def untouched(H):
            a, c = H0["Rule.antecedent"][rr], H0["Rule.consequent"][rr]
            return z3.And(H["Rule.activation_degree"][rr] == H0["Rule.activation_degree"][rr], H["Rule.triggered"][rr] == H0["Rule.triggered"][rr],
                          H["Antecedent.expression"][a] == H0["Antecedent.expression"][a], H["Consequent.conclusions"][c] == H0["Consequent.conclusions"][c])

        def mk_inv(unload_only, base_state=None):
            def inv(ex, p, k, seq):
                before = untouched(p.heap) if base_state is None else base_state(p.heap)
                c = [z3.Implies(z3.And(rS >= 0, rS < k), done(p.heap, unload_only)), z3.Implies(z3.And(rS >= k, rS < L), before)]
                if not unload_only and "exceptions" in p.env and isinstance(p.env["exceptions"], SeqV):
                    # a failure has been recorded iff some rule so far was rejected (skolem: for r* ... => non-empty)
                    a, c_ = H0["Rule.antecedent"][rr], H0["Rule.consequent"][rr]
                    rejected = z3.Not(z3.And(W.ok_ant(H0["Antecedent.text"][a], eng), W.ok_cons(H0["Consequent.text"][c_], eng)))
                    c.append(z3.Implies(z3.And(rS >= 0, rS < k, rejected), z3.Length(p.env["exceptions"].q) > 0))
                return z3.And(*c)
            return inv

        def facts(ex, p, k, seq):
            return wf_rule(H0, seq[k]) + wf_rule(H0, rr) + distinct_rules(H0, seq[k], rr) + [z3.Implies(k != rS, seq[k] != rr)]

        inline = {"RuleBlock.unload_rules", "RuleBlock.load_rules"} if meth == "reload_rules" else set()
        loops = {}
        if meth == "unload_rules":
            loops = {0: LoopSpec(mk_inv(True), facts=facts, name="loop0", modifies=RULE_FIELDS)}
        elif meth == "load_rules":
            loops = {0: LoopSpec(mk_inv(False), facts=facts, name="loop0", modifies=RULE_FIELDS)}
        if meth == "reload_rules":
            # verified over the contracts of the two halves (each proved above)
            class Unl(Contract):
                modifies = tuple(RULE_FIELDS)

                def call(s, ex, p, recv, args, kwargs, node):
                    Hn = {k: (z3.FreshConst(p.heap[k].sort(), k + "@unloaded") if k in RULE_FIELDS else p.heap[k]) for k in p.heap}
                    a, c = H0["Rule.antecedent"][rr], H0["Rule.consequent"][rr]
                    p.pc.append(z3.And(Hn["Rule.activation_degree"][rr] == ZERO, z3.Not(Hn["Rule.triggered"][rr]), Hn["Antecedent.expression"][a] == NONE,
                                       z3.Length(Hn["Consequent.conclusions"][c]) == 0))
                    p.heap = Hn; ex.writes |= RULE_FIELDS

            class Ld(Contract):
                modifies = tuple(RULE_FIELDS)

                def call(s, ex, p, recv, args, kwargs, node):
                    Hn = {k: (z3.FreshConst(p.heap[k].sort(), k + "@loaded") if k in RULE_FIELDS else p.heap[k]) for k in p.heap}
                    a, c = H0["Rule.antecedent"][rr], H0["Rule.consequent"][rr]
                    post = W.fresh_rule_state(H0, Hn, rr, args[0].r)
                    q = p.fork(); q.heap = dict(Hn); q.pc.append(post); ex.raised.append((q, "RuntimeError"))      # some rule was rejected: state is the same, error reported
                    p.pc.append(post); p.heap = Hn; ex.writes |= RULE_FIELDS
            contracts = {"RuleBlock.unload_rules": Unl(), "RuleBlock.load_rules": Ld()}
            inline = set()
        else:
            contracts = {"Rule.load": RuleLoad(), "Rule.unload": RuleUnload()}
        ex = HeapExec(src, "rule", sc, contracts=contracts, interfaces=W.INTERFACES, inline=inline, loops=loops, fnname=fq)
        pre = [self_ != NONE, rS >= 0, rS < L] + wf_rule(H0, rr)
        env = {"self": RefV(self_, "RuleBlock")}
        if meth != "unload_rules":
            env["engine"] = RefV(eng, "Engine")
        outs = ex.run_fn(fn, HPath(env, pre, H0))
        emit(run, ex, fq, [], RP)
        for i, (kind, val, q) in enumerate(outs):
            tag = f"[path{i}]"
            a, c_ = H0["Rule.antecedent"][rr], H0["Rule.consequent"][rr]
            rejected = z3.Not(z3.And(W.ok_ant(H0["Antecedent.text"][a], eng), W.ok_cons(H0["Consequent.text"][c_], eng)))
            if meth == "unload_rules":
                if kind == "raise":
                    run.add(Obl(f"{fq}/raises.none{tag}", q.pc, z3.BoolVal(False), fn=fq, meta={"replay": RP})); continue
                run.add(Obl(f"{fq}/ensures.every_rule_unloaded{tag}", q.pc, done(q.heap, True), fn=fq, meta={"replay": RP}))
            else:
                # success or the collected RuntimeError: EVERY rule has been unloaded and freshly loaded from its current text (rejected ones stay unloaded)
                run.add(Obl(f"{fq}/ensures.every_rule_freshly_loaded{tag}", q.pc, done(q.heap, False), fn=fq, meta={"replay": RP}))
                if kind == "raise":
                    run.add(static(f"{fq}/raises.RuntimeError{tag}", val == "RuntimeError", f"raising outcome {val}", fn=fq))
                elif meth == "load_rules":
                    run.add(Obl(f"{fq}/ensures.no_error_means_all_accepted{tag}", q.pc, z3.Not(rejected), fn=fq, meta={"replay": RP}))
            run.add(Obl(f"{fq}/frame{tag}", q.pc, frame_goal(q, H0, RULE_FIELDS), fn=fq, meta={"replay": RP}))


def verify_restart(run):
    src = run.src
    sc = W.schema(src)
    fq = "engine.Engine.restart"
    fn = src.func("engine", "Engine.restart")
    run.under_contract("engine", "Engine.restart", fn)
    run.under_contract("variable", "Variable.value[setter]", src.func("variable", "Variable.value", "setter"))
    run.under_contract("variable", "OutputVariable.clear", src.func("variable", "OutputVariable.clear"))
    H0 = init_heap(sc)
    self_ = z3.Const("self", Ref)
    iS, bS, rS, oS = z3.Int("i*"), z3.Int("b*"), z3.Int("r*"), z3.Int("o*")
    ins, blocks, outs_ = H0["Engine.input_variables"][self_], H0["Engine.rule_blocks"][self_], H0["Engine.output_variables"][self_]
    iv, bb, ov = ins[iS], blocks[bS], outs_[oS]
    rules = H0["RuleBlock.rules"][bb]
    rr = rules[rS]
    NANX = x2xr(xr.const(float("nan")))

    class Reload(Contract):
        """RuleBlock.reload_rules(engine) (proved above): every rule of the block is freshly loaded against the engine; RuntimeError if one was rejected"""
        modifies = tuple(RULE_FIELDS)

        def call(s, ex, p, recv, args, kwargs, node):
            Hn = {k: (z3.FreshConst(p.heap[k].sort(), k + "@reloaded") if k in RULE_FIELDS else p.heap[k]) for k in p.heap}
            b = recv.r
            # instantiated at the skolem rule r* of the skolem block b*: rules of this block are reloaded, rules of other blocks untouched
            a, c = H0["Rule.antecedent"][rr], H0["Rule.consequent"][rr]
            same = z3.And(Hn["Rule.activation_degree"][rr] == p.heap["Rule.activation_degree"][rr], Hn["Rule.triggered"][rr] == p.heap["Rule.triggered"][rr],
                          Hn["Antecedent.expression"][a] == p.heap["Antecedent.expression"][a], Hn["Consequent.conclusions"][c] == p.heap["Consequent.conclusions"][c])
            post = z3.If(b == bb, W.fresh_rule_state(H0, Hn, rr, args[0].r), same)
            q = p.fork(); q.heap = dict(Hn); q.pc.append(post); ex.raised.append((q, "RuntimeError"))
            p.pc.append(post); p.heap = Hn; ex.writes |= RULE_FIELDS

    def inv0(ex, p, k, seq):
        return z3.And(z3.Implies(z3.And(iS >= 0, iS < k), p.heap["Variable._value"][iv] == z3.If(H0["Variable.lock_range"][iv], x2xr(xr.clip(xr.const(float("nan")), xr2x(H0["Variable.minimum"][iv]), xr2x(H0["Variable.maximum"][iv]))), NANX)),
                      p.heap["Variable._value"][ov] == H0["Variable._value"][ov])

    def facts0(ex, p, k, seq):
        return [seq[k] != NONE, cls_of(seq[k]) == sc.ids["InputVariable"], iv != NONE, cls_of(iv) == sc.ids["InputVariable"], ov != NONE, cls_of(ov) == sc.ids["OutputVariable"],
                z3.Implies(k != iS, seq[k] != iv), canon(H0["Variable.minimum"][seq[k]]), canon(H0["Variable.maximum"][seq[k]])]

    def inv1(ex, p, k, seq):
        a, c = H0["Rule.antecedent"][rr], H0["Rule.consequent"][rr]
        before = z3.And(p.heap["Rule.activation_degree"][rr] == H0["Rule.activation_degree"][rr], p.heap["Antecedent.expression"][a] == H0["Antecedent.expression"][a],
                        p.heap["Consequent.conclusions"][c] == H0["Consequent.conclusions"][c], p.heap["Rule.triggered"][rr] == H0["Rule.triggered"][rr])
        return z3.And(z3.Implies(z3.And(bS >= 0, bS < k), W.fresh_rule_state(H0, p.heap, rr, self_)), z3.Implies(z3.And(bS >= k), before))

    def facts1(ex, p, k, seq):
        # wf: a block occurs once; a rule belongs to one block
        return [seq[k] != NONE, bb != NONE, z3.Implies(k != bS, seq[k] != bb)] + wf_rule(H0, rr)

    def inv2(ex, p, k, seq):
        fz = H0["OutputVariable.fuzzy"][ov]
        cleared = z3.And(XR.x_nan(p.heap["Variable._value"][ov]), XR.x_nan(p.heap["OutputVariable.previous_value"][ov]), z3.Length(p.heap["Aggregated.terms"][fz]) == 0)
        return z3.And(z3.Implies(z3.And(oS >= 0, oS < k), cleared), p.heap["Variable._value"][iv] == ex.entry[2].heap["Variable._value"][iv])

    def facts2(ex, p, k, seq):
        v = seq[k]
        return [v != NONE, cls_of(v) == sc.ids["OutputVariable"], ov != NONE, cls_of(ov) == sc.ids["OutputVariable"], z3.Implies(k != oS, v != ov), iv != NONE, cls_of(iv) == sc.ids["InputVariable"]] \
            + W.wf_output_variable(sc, H0, v) + W.wf_output_variable(sc, H0, ov) + [canon(H0["Aggregated.minimum"][H0["OutputVariable.fuzzy"][v]]), canon(H0["Aggregated.maximum"][H0["OutputVariable.fuzzy"][v]])]

    loops = {0: LoopSpec(inv0, facts=facts0, name="loop0.inputs", modifies={"Variable._value"}),
             1: LoopSpec(inv1, facts=facts1, name="loop1.blocks", modifies=RULE_FIELDS),
             2: LoopSpec(inv2, facts=facts2, name="loop2.outputs", modifies={"Variable._value", "OutputVariable.previous_value", "Aggregated.terms"})}
    ex = HeapExec(src, "engine", sc, contracts={"RuleBlock.reload_rules": Reload()}, interfaces=W.INTERFACES,
                  inline={"OutputVariable.clear", "Aggregated.clear"}, loops=loops, fnname=fq)
    pre = [self_ != NONE, iS >= 0, iS < z3.Length(ins), bS >= 0, bS < z3.Length(blocks), rS >= 0, rS < z3.Length(rules), oS >= 0, oS < z3.Length(outs_),
           canon(H0["Variable.minimum"][iv]), canon(H0["Variable.maximum"][iv])] + wf_rule(H0, rr)
    outs = ex.run_fn(fn, HPath({"self": RefV(self_, "Engine")}, pre, H0))
    emit(run, ex, fq, [], RP)
    run.add(Obl(f"{fq}/pre.sat", pre, None, expect="sat", fn=fq))
    for i, (kind, val, q) in enumerate(outs):
        tag = f"[path{i}]"
        if kind == "raise":
            run.add(static(f"{fq}/raises.only_rejected_rules{tag}", val == "RuntimeError", f"raising outcome {val} (a rule text rejected while reloading)", fn=fq)); continue
        fz = H0["OutputVariable.fuzzy"][ov]
        nanv = z3.If(H0["Variable.lock_range"][iv], x2xr(xr.clip(xr.const(float("nan")), xr2x(H0["Variable.minimum"][iv]), xr2x(H0["Variable.maximum"][iv]))), NANX)
        goal = z3.And(q.heap["Variable._value"][iv] == nanv, XR.x_nan(nanv),
                      W.fresh_rule_state(H0, q.heap, rr, self_),
                      XR.x_nan(q.heap["Variable._value"][ov]), XR.x_nan(q.heap["OutputVariable.previous_value"][ov]), z3.Length(q.heap["Aggregated.terms"][fz]) == 0)
        run.add(Obl(f"{fq}/ensures.clean_state{tag}", q.pc + facts0(ex, q, iS, ins) + facts2(ex, q, oS, outs_), goal, fn=fq, meta={"replay": RP}))
        run.add(Obl(f"{fq}/frame{tag}", q.pc, frame_goal(q, H0, RULE_FIELDS | {"Variable._value", "OutputVariable.previous_value", "Aggregated.terms"}), fn=fq, meta={"replay": RP}))
    run.add(static(f"{fq}/lemma.restart_equals_fresh", True, "ensures.clean_state is the predicate `fresh_rule_state` for every rule (deactivated; loaded from its current text against this engine), NaN inputs, "
                   "NaN output values/previous values and empty fuzzy outputs - exactly what RuleBlock.load_rules establishes in Engine.__init__ (load=True) for a newly built engine whose variables have "
                   "their initial NaN values; process() reads no other mutable state (C01 frame)", fn=fq))


def verify_engine_init_loads(run):
    """Engine.__init__ (load=True) calls load_rules(self) for every block and update_reference(self) for every term of every variable (static)"""
    src = run.src
    fn = src.func("engine", "Engine.__init__")
    run.under_contract("engine", "Engine.__init__", fn)
    txt = ast.unparse(fn)
    ok = ("for variable in self.variables:\n            for term in variable.terms:\n                term.update_reference(self)" in txt
          and "for rb in self.rule_blocks:\n            rb.load_rules(self)" in txt and "if load:" in txt)
    vs = ast.unparse(src.func("engine", "Engine.variables", "getter"))
    ok2 = "return self.input_variables + self.output_variables" in vs
    run.add(static("engine.Engine.__init__/loads_and_updates_references", ok and ok2, "constructor with load=True: update_reference(self) for every term of every input and output variable, then load_rules(self) for every block",
                   fn="engine.Engine.__init__", meta={"replay": RP}))


def verify_no_custom_copy(run):
    src = run.src
    hooks = ("__deepcopy__", "__copy__", "__reduce__", "__reduce_ex__", "__getstate__", "__setstate__", "__getnewargs__")
    found = [f"{m}.{q}" for (m, q) in src.functions if q.split(".")[-1] in hooks]
    run.add(static("package/no_custom_copy_hooks", not found, f"copy hooks defined: {found}" if found else "no class defines __deepcopy__/__copy__/__reduce__/__getstate__/__setstate__: copy.deepcopy copies every attribute (A-DEEPCOPY)",
                   meta={"replay": RP}))
    cp = src.func("engine", "Engine.copy")
    run.under_contract("engine", "Engine.copy", cp)
    body = [ast.unparse(x) for x in cp.body if not (isinstance(x, ast.Expr) and isinstance(x.value, ast.Constant))]
    # recognised spellings: [import copy | from copy import deepcopy]; [x = <deepcopy>(self); return x | return <deepcopy>(self)]
    core = [x for x in cp.body if not isinstance(x, (ast.Import, ast.ImportFrom)) and not (isinstance(x, ast.Expr) and isinstance(x.value, ast.Constant))]
    imported = {a.asname or a.name for x in cp.body if isinstance(x, ast.ImportFrom) and x.module == "copy" for a in x.names if a.name == "deepcopy"}
    expr = None
    if len(core) == 1 and isinstance(core[0], ast.Return) and core[0].value is not None:
        expr = core[0].value
    elif (len(core) == 2 and isinstance(core[0], (ast.Assign, ast.AnnAssign)) and isinstance(core[1], ast.Return) and isinstance(core[1].value, ast.Name)
          and isinstance((core[0].targets[0] if isinstance(core[0], ast.Assign) else core[0].target), ast.Name)
          and (core[0].targets[0] if isinstance(core[0], ast.Assign) else core[0].target).id == core[1].value.id):
        expr = core[0].value
    ok = expr is not None and (ast.unparse(expr) == "copy.deepcopy(self)" or (ast.unparse(expr) in {f"{n}(self)" for n in imported}))
    run.add(static("engine.Engine.copy/is_deepcopy", ok, f"body: {body}", fn="engine.Engine.copy", meta={"replay": RP_COPY}))
    # no module-level or class-level mutable cache is written by the functions of the processing path (frames are per-object; this is the global part)
    bad = []
    for (m, q), fns in src.functions.items():
        for f in fns:
            for n in ast.walk(f):
                if isinstance(n, ast.Global):
                    bad.append(f"{m}.{q}: global {n.names}")
    run.add(static("package/no_global_state_written", not bad, f"{bad}" if bad else "no function of the package declares a global it assigns", meta={"replay": RP}))
    # deepcopy treats weak references (and modules, functions, classes) as atomic: an attribute held through weakref would still point into the ORIGINAL engine
    weak = []
    for m, tree in src.mod.items():
        for n in ast.walk(tree):
            if isinstance(n, (ast.Import, ast.ImportFrom)) and ("weakref" in [a.name for a in n.names] or getattr(n, "module", None) == "weakref"):
                weak.append(f"fuzzylite/{m}.py:{n.lineno}")
            if isinstance(n, ast.Attribute) and isinstance(n.value, ast.Name) and n.value.id == "weakref":
                weak.append(f"fuzzylite/{m}.py:{n.lineno}")
    run.add(static("package/no_weak_references", not weak, f"weakref used at {sorted(set(weak))[:6]}: objects reached through a weak reference are shared by a deep copy" if weak
                   else "no module of the package uses weakref: every object an engine reaches is reached through strong references and is copied (A-DEEPCOPY)", meta={"replay": RP, "soft": True}))


def verify_history_ingredients(run):
    """with lock-previous off the committed value of an output variable does not read the value it held before (over the C01/C12 contract)"""
    sc = W.schema(run.src)
    Ha, Hb = init_heap(sc, "@a"), init_heap(sc, "@b")
    v = z3.Const("v", Ref)
    T = z3.Const("T_final", W.TArr)
    same_cfg = [Ha[k] == Hb[k] for k in Ha if k not in ("Variable._value", "OutputVariable.previous_value", "Aggregated.terms", "Rule.activation_degree", "Rule.triggered")]
    hyp = same_cfg + [z3.Not(Ha["OutputVariable.lock_previous"][v])]
    run.add(Obl("lemma.history_free/value_does_not_read_held_value", hyp, W.defuzzified(Ha, v, T) == W.defuzzified(Hb, v, T), fn="engine.Engine.process", meta={"replay": RP}))
    run.add(Obl("lemma.history_free/held_value_matters_only_with_lock_previous", same_cfg + [Ha["Variable._value"][v] != Hb["Variable._value"][v], W.defuzzified(Ha, v, T) != W.defuzzified(Hb, v, T)],
                Ha["OutputVariable.lock_previous"][v], fn="engine.Engine.process", meta={"replay": RP}))


def verify_leaf_methods_keep_no_state(run):
    """history-freedom of the leaves: the methods on the processing path of terms, norms, hedges and defuzzifiers store nothing on their object
    (no cache, no `sticky` inferred setting) and write no module-level name - an AST scan of every such method in the package"""
    src = run.src
    offenders, n = [], 0
    for (m, q), nodes in src.functions.items():
        if m not in ("term", "norm", "hedge", "defuzzifier") or "." not in q:
            continue
        meth = q.rsplit(".", 1)[1]
        if meth not in ("membership", "compute", "hedge", "defuzzify", "tsukamoto", "infer_type", "is_monotonic", "activation_degree", "grouped_terms"):
            continue
        for fn in nodes:
            n += 1
            for x in ast.walk(fn):
                tg = x.targets if isinstance(x, ast.Assign) else [x.target] if isinstance(x, (ast.AugAssign, ast.AnnAssign)) else []
                for t in tg:
                    for y in ast.walk(t):
                        if isinstance(y, ast.Attribute) and isinstance(y.ctx, ast.Store) and isinstance(y.value, ast.Name) and y.value.id in ("self", "cls"):
                            offenders.append(f"{m}.{q}: {ast.unparse(x)[:80]}")
                if isinstance(x, (ast.Global, ast.Nonlocal)):
                    offenders.append(f"{m}.{q}: {ast.unparse(x)}")
    run.add(static("package/leaf_methods_store_nothing_on_their_object", n > 0 and not offenders, f"{n} membership/compute/hedge/defuzzify/tsukamoto/... methods scanned; stores on self: {offenders[:4]}",
                   fn="term|norm|hedge|defuzzifier", meta={"replay": RP}))
    # the weighted defuzzifiers are additionally verified to write nothing at all (frame obligations over the heap; shared with C10)
    from props import C10
    for cls in ("WeightedAverage", "WeightedSum"):
        C10.verify_defuzzify(run, cls)


def build(run):
    run.assume("A-REAL", "A-NP", "A-PY", "A-MSG", "A-LOG", "A-LISTVAL", "A-ACTVAL", "A-WF", "A-DEEPCOPY", "A-LOADERS")
    plan = [("rule.Rule.load", verify_rule_load), ("rule.RuleBlock.load_rules", verify_block_loaders), ("engine.Engine.restart", verify_restart),
            ("engine.Engine.__init__", verify_engine_init_loads), ("package/no_custom_copy", verify_no_custom_copy), ("lemma.history_free", verify_history_ingredients), ("package/leaf_methods", verify_leaf_methods_keep_no_state)]
    for fq, f in plan:
        try:
            f(run)
        except ANALYSIS as ex_:
            run.add(undecided(f"{fq}/subset", f"outside the verified subset: {ex_}", fn=fq, meta={"replay": RP}))
        except NotFound as ex_:
            run.add(static(f"{fq}/exists", False, f"function under contract not found: {ex_}", fn=fq))
    budget = 1500 if run.tier == "quick" else 30000
    run.bounded("engine.Engine/history_restart_copy.runtime", W_N, "replay_history", [dict(seed=run.seed, budget=budget)],
                bound=f"{budget} generated engines (incl. Linear and Function terms holding engine references) x random interleavings of length <= 8 of {{set inputs, process, restart, copy and switch to the copy, "
                      "edit a parameter of the copy (in place and by assignment), toggle an enabled flag and restore it, edit a rule text and reload}; each result (output values, fuzzy outputs, per-rule degree and triggered flag) compared with a freshly built engine and the untouched original")
    nb = 120 if run.tier == "quick" else 2400
    run.bounded("engine.Engine.copy/copies_are_independent.runtime", "contracts.copy_native", "replay_copy", [dict(seed=run.seed, budget=nb)],
                bound=f"{nb} engines over the activation methods with parameters (First, Last, Highest, Lowest, Threshold), Proportional and General x integral / weighted outputs x Linear and Function terms: "
                      "the same engine copied twice (two new objects), no component object with state shared between original and copies, edits of one (activation parameter, term, weight, defuzzifier, rule text, "
                      "default / lock-range, input term) leave text and outputs of the others unchanged, a copy taken after an edit of the original has the edit")


if __name__ == "__main__":
    sys.exit(main("C13", build, "Processing is history-free; restart and copy give clean independent engines"))
