#!/usr/bin/env python3
"""Writes /verif/contracts/local_names.json: for every function of the package, its local variables in first-binding order with a name-free
fingerprint of the binding site.  The sidecar invariants were written with THESE names; at check time pyvc.source renames the locals of the
current source positionally to them when (and only when) the binding sites still match, so that a pure rename of a local is not a change."""
import ast, json, os, sys
sys.path.insert(0, os.path.dirname(os.path.dirname(os.path.abspath(__file__))))
from pyvc.source import Source, local_bindings, loop_shape

src = Source(sys.argv[1] if len(sys.argv) > 1 else "/repo")
out = {}
for (m, q), fns in src.functions.items():
    for k, fn in enumerate(fns):
        b = local_bindings(fn)
        if b:
            out[f"{m}:{q}#{k}"] = b
json.dump(out, open(os.path.join(os.path.dirname(os.path.dirname(os.path.abspath(__file__))), "contracts", "local_names.json"), "w"), indent=0, sort_keys=True)
print(len(out), "functions with locals")
shapes = {}
for (m, q), fns in src.functions.items():
    for k, fn in enumerate(fns):
        shapes[f"{m}:{q}#{k}"] = loop_shape(fn)
json.dump(shapes, open(os.path.join(os.path.dirname(os.path.dirname(os.path.abspath(__file__))), "contracts", "loop_shapes.json"), "w"), indent=0, sort_keys=True)
print(len(shapes), "functions with loop shapes")
