#!/bin/bash
# usage: ren_survey.sh Cxx module:Class.func ...
c=$1; shift
d=$(mktemp -d /var/tmp/ren_XXXX); cp -r /repo/fuzzylite $d/
python3 /verif/tools/rename_locals.py $d "$@" > $d/ren.log 2>&1
# the edited package must still work: quick smoke via the test-suite subset is too slow; just import
(cd $d && /venv/bin/python -c "import sys; sys.path.insert(0,'.'); import fuzzylite" ) || echo "IMPORT BROKEN"
cd /verif && PYVC_REPO=$d PYVC_OUT=$d/out python3-vt props/$c.py 2>&1 | grep -E "VIOLATION|UNDECIDED|FAULT|^$c:" | cut -c1-200 | head -4
rm -rf $d
