#!/usr/bin/env python3
"""Self-test helper: a semantics-preserving edit - renames every LOCAL variable (not parameters, not attributes, not globals) of the given
functions in a scratch copy of the package, to measure how the checks behave on harmless refactorings (they must not print VIOLATION).
usage: rename_locals.py <scratch_root> module:Class.func [module:Class.func ...]"""
import ast, os, sys


def locals_of(fn):
    params = {a.arg for a in fn.args.args + fn.args.kwonlyargs + fn.args.posonlyargs}
    if fn.args.vararg:
        params.add(fn.args.vararg.arg)
    if fn.args.kwarg:
        params.add(fn.args.kwarg.arg)
    out = set()
    for n in ast.walk(fn):
        if isinstance(n, ast.Name) and isinstance(n.ctx, ast.Store):
            out.add(n.id)
        if isinstance(n, (ast.Global, ast.Nonlocal)):
            return set()
    inner = {x.name for x in ast.walk(fn) if isinstance(x, (ast.FunctionDef, ast.ClassDef)) and x is not fn}
    return {v for v in out if v not in params and v not in inner and not v.startswith("__")}


def main():
    root = sys.argv[1]
    for spec in sys.argv[2:]:
        module, qual = spec.split(":")
        path = os.path.join(root, "fuzzylite", module + ".py")
        src = open(path).read()
        tree = ast.parse(src)
        # locate the function
        def find(body, parts):
            for n in body:
                if isinstance(n, ast.ClassDef) and n.name == parts[0] and len(parts) > 1:
                    return find(n.body, parts[1:])
                if isinstance(n, ast.FunctionDef) and n.name == parts[0] and len(parts) == 1:
                    return n
            return None
        cands = []
        def findall(body, parts):
            for n in body:
                if isinstance(n, ast.ClassDef) and n.name == parts[0] and len(parts) > 1:
                    findall(n.body, parts[1:])
                if isinstance(n, ast.FunctionDef) and n.name == parts[0] and len(parts) == 1:
                    cands.append(n)
        findall(tree.body, qual.split("."))
        if not cands:
            print("not found", spec); continue
        lines = src.split("\n")
        edits = []
        for fn in cands:
            names = locals_of(fn)
            for n in ast.walk(fn):
                if isinstance(n, ast.Name) and n.id in names:
                    edits.append((n.lineno, n.col_offset, n.id))
        for ln, col, nm in sorted(set(edits), reverse=True):
            line = lines[ln - 1]
            assert line[col:col + len(nm)] == nm, (spec, ln, col, nm, line)
            lines[ln - 1] = line[:col] + nm + "_r" + line[col + len(nm):]
        open(path, "w").write("\n".join(lines))
        print(spec, "renamed", sorted({e[2] for e in edits}))


if __name__ == "__main__":
    main()
