#!/bin/bash
# validate_seeds.sh Cxx : confirm each candidate seeded change in /tmp/seed_Cxx on the scratch worktree /tmp/wt_Cxx
# (suite passes with the patch, demo fails with it, demo passes without it).  Writes /tmp/seed_Cxx/validated.txt
id=$1; wt=/tmp/wt6_$id; sd=/tmp/seed6_$id
[ -d $wt ] || git -C /repo worktree add -q --detach $wt HEAD
: > $sd/validated.txt
for k in 1 2 3; do
  [ -f $sd/patch$k.diff ] || continue
  git -C $wt checkout -q -- . ; git -C $wt clean -fdq
  if ! git -C $wt apply $sd/patch$k.diff 2>/dev/null; then echo "$k apply-failed" >> $sd/validated.txt; continue; fi
  (cd $wt && /venv/bin/python -m pytest -q -p no:cacheprovider --timeout=900 --deselect tests/test_exporter.py::TestPythonExporter::test_object --deselect tests/test_benchmark.py::TestBenchmark::test_measure -x > $sd/suite$k.log 2>&1); suite=$?
  (cd $wt && /venv/bin/python $sd/demo$k.py > $sd/demo$k.patched.log 2>&1); dp=$?
  git -C $wt checkout -q -- . ; git -C $wt clean -fdq
  (cd $wt && /venv/bin/python $sd/demo$k.py > $sd/demo$k.clean.log 2>&1); dc=$?
  echo "$k suite=$suite demo_patched=$dp demo_clean=$dc $(tail -1 $sd/suite$k.log)" >> $sd/validated.txt
done
find $wt -name __pycache__ -type d -prune -exec rm -rf {} + 2>/dev/null
cat $sd/validated.txt
