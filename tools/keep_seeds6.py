#!/usr/bin/env python3
"""Round 6: copies validated seeded changes from /tmp/seed6_Cxx (validated by tools/validate_seeds6.sh on a scratch worktree of /repo HEAD) into
/verif/seeded/<Cxx>-<next free index>/ {patch.diff, demo.py, meta.json}."""
import json, os, shutil, sys
for pid in sys.argv[1:]:
    sd = f"/tmp/seed6_{pid}"
    val = {}
    for line in open(os.path.join(sd, "validated.txt")):
        parts = line.split()
        val[parts[0]] = line.strip()
    nxt = max([int(d.split("-")[1]) for d in os.listdir("/verif/seeded") if d.startswith(pid + "-")] + [0]) + 1
    for k in "123":
        if k not in val or "suite=0 demo_patched=1 demo_clean=0" not in val[k]:
            print(pid, k, "NOT kept:", val.get(k)); continue
        dst = f"/verif/seeded/{pid}-{nxt}"; nxt += 1
        os.makedirs(dst, exist_ok=True)
        shutil.copy(f"{sd}/patch{k}.diff", f"{dst}/patch.diff")
        shutil.copy(f"{sd}/demo{k}.py", f"{dst}/demo.py")
        try:
            meta = json.load(open(f"{sd}/meta{k}.json"))
        except Exception:
            meta = {"property": pid}
        meta["property"] = pid
        meta["round"] = 6
        meta["origin"] = "written by a fresh sub-agent (round 6) given only the property text, the summaries of the changes already known for it, and a scratch worktree of /repo HEAD (with the fix commits)"
        meta["confirmed_by_me"] = {"how": "tools/validate_seeds6.sh on a scratch worktree of /repo HEAD: git apply; full pytest suite (the 2 baseline-failing/flaky tests deselected); demo with patch; git checkout; demo without patch",
                                   "result": val[k]}
        json.dump(meta, open(f"{dst}/meta.json", "w"), indent=1)
        print(pid, k, "kept as", dst)
