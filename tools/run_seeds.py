#!/usr/bin/env python3
"""Self-test (not a manifest command): run the registered checks against every kept seeded change.
For each /verif/seeded/<Cxx>-<k>: scratch copy of /repo/fuzzylite (mktemp under /var/tmp, removed afterwards), apply patch.diff,
run ./check for the seed's own property and for the related ones, record which check reports what.
usage: run_seeds.py [seed-dir-name ...] [--also C01,C07]"""
import json, os, shutil, subprocess, sys, tempfile
from concurrent.futures import ThreadPoolExecutor
V = "/verif"
RELATED = {"C08": ["C01", "C07", "C13"], "C04": [], "C01": ["C07", "C08", "C06", "C12", "C13", "C19"], "C03": ["C11"], "C05": ["C06", "C07"], "C07": ["C01", "C16", "C08"], "C11": ["C10", "C03"], "C19": ["C01", "C06", "C10", "C12"], "C02": ["C12", "C08", "C09", "C01"], "C06": ["C10", "C13", "C16", "C01", "C14"], "C13": ["C01"], "C12": ["C02", "C01", "C13", "C19"], "C10": ["C06", "C01", "C13"],
           "C09": ["C02"], "C14": ["C15", "C16"], "C15": ["C14"], "C16": ["C13", "C17"], "C17": ["C16"], "C18": []}
SD = os.environ.get("SEED_DIR", "seeded")      # SEED_DIR=harmless: the behaviour-preserving refactorings (no check may print VIOLATION on them)
man = json.load(open(f"{V}/MANIFEST.json"))
claimed = [c["property_id"] for c in man["checks"]]


def one(name):
    d = f"{V}/{SD}/{name}"
    pid = name.split("-")[0]
    tmp = tempfile.mkdtemp(prefix="pyvc_seed_", dir="/var/tmp")
    res = {}
    try:
        shutil.copytree("/repo/fuzzylite", f"{tmp}/fuzzylite", ignore=shutil.ignore_patterns("__pycache__"))
        r = subprocess.run(["patch", "-p1", "-d", tmp, "-i", f"{d}/patch.diff"], capture_output=True, text=True)
        if r.returncode != 0:
            return name, {"error": "patch does not apply to the current /repo: " + r.stdout[-300:]}
        for c in [pid] + RELATED.get(pid, []):
            if c not in claimed:
                continue
            env = dict(os.environ, PYVC_REPO=tmp, PYVC_OUT=f"{tmp}/out_{c}", PYVC_JOBS="3")
            cp = subprocess.run([f"{V}/check", c], env=env, capture_output=True, text=True, cwd=V)
            lines = [l for l in cp.stdout.splitlines() if l.startswith(("VIOLATION", "UNDECIDED", "CHECKER-FAULT"))]
            obl = [l.strip()[:260] for l in cp.stdout.splitlines() if l.strip().startswith("obligation ")]
            res[c] = {"exit": cp.returncode, "lines": [l.replace(tmp, "<scratch>")[:200] for l in lines][:6], "obligations": [o.replace(tmp, "<scratch>") for o in obl][:4]}
    finally:
        shutil.rmtree(tmp, ignore_errors=True)
    json.dump(res, open(f"{d}/" + os.environ.get("DETECT_NAME", "detect.json"), "w"), indent=1)
    return name, res


names = [a for a in sys.argv[1:] if not a.startswith("--")] or sorted(os.listdir(f"{V}/{SD}"))
names = [n for n in names if os.path.isdir(f"{V}/{SD}/{n}")]
with ThreadPoolExecutor(int(os.environ.get("SEED_THREADS", "5"))) as ex:
    for name, res in ex.map(one, names):
        pid = name.split("-")[0]
        own = res.get(pid, {})
        caught = [c for c, r in res.items() if isinstance(r, dict) and r.get("exit") == 1]
        if "error" in res:
            print(f"{name:8s} ERROR {res['error'][:150]}"); continue
        print(f"{name:8s} own={own.get('exit', '-')!s:3s} caught_by={caught} {'; '.join(own.get('lines', [])[:1])[:120] if isinstance(own, dict) else res}")
