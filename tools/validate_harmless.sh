#!/bin/bash
# validate_harmless.sh : every /verif/harmless/<id>/patch.diff applies to a scratch worktree of /repo's HEAD and the suite still passes with it
# (sequential: the documentation test of the suite uses the shared /tmp/fl).  Writes /verif/harmless/<id>/validated.txt
wt=/var/tmp/h8/wt_validate
[ -d $wt ] || git -C /repo worktree add -q --detach $wt HEAD
for d in ${HDIRS:-/verif/harmless/*/}; do
  n=$(basename $d)
  git -C $wt checkout -q -- . ; git -C $wt clean -fdq
  if ! git -C $wt apply $d/patch.diff 2>/dev/null; then echo "$n apply-failed" | tee $d/validated.txt; continue; fi
  (cd $wt && /venv/bin/python -m pytest -q -p no:cacheprovider --timeout=900 --deselect tests/test_exporter.py::TestPythonExporter::test_object --deselect tests/test_benchmark.py::TestBenchmark::test_measure > /var/tmp/h8/suite_$n.log 2>&1); suite=$?
  echo "$n suite=$suite $(tail -1 /var/tmp/h8/suite_$n.log)" | tee $d/validated.txt
done
git -C $wt checkout -q -- . ; git -C $wt clean -fdq
git -C /repo worktree remove --force $wt
