#!/usr/bin/env python3
"""Self-test (not a manifest command): semantics-preserving edits of the whole package in a scratch copy, then every registered check on the edited tree -
none may print VIOLATION (exit 1); exit 2/3 would be a weakness (reported), exit 0 is the goal.
  rename   every local of every function under contract gets a suffix (tools/rename_locals.py)
  logging  a settings.logger.debug(...) call is inserted at the start of every function under contract (in modules that import settings)
  messages the text of every exception message is changed
usage: harmless_survey.py rename|logging|messages [Cxx ...]"""
import ast, json, os, shutil, subprocess, sys, tempfile
V = "/verif"
kind = sys.argv[1]
checks = sys.argv[2:] or [c["property_id"] for c in json.load(open(f"{V}/MANIFEST.json"))["checks"]]
funcs = set()
for c in [c_["property_id"] for c_ in json.load(open(f"{V}/MANIFEST.json"))["checks"]]:
    try:
        ev = json.load(open(f"{V}/evidence/{c}.json"))
    except Exception:
        continue
    for k in ev["coverage"].get("functions_under_contract", {}):
        _, module, qual = k.split(".", 2)
        funcs.add((module, qual.replace("[setter]", "").replace("[getter]", "")))
tmp = tempfile.mkdtemp(prefix="pyvc_harmless_", dir="/var/tmp")
try:
    shutil.copytree("/repo/fuzzylite", f"{tmp}/fuzzylite", ignore=shutil.ignore_patterns("__pycache__"))
    shutil.copytree("/repo/tests", f"{tmp}/tests", ignore=shutil.ignore_patterns("__pycache__"))
    for f in ("pyproject.toml", "README.md", "noxfile.py"):
        if os.path.exists(f"/repo/{f}"):
            shutil.copy(f"/repo/{f}", tmp)
    if kind == "rename":
        specs = [f"{m}:{q}" for m, q in sorted(funcs)]
        subprocess.run(["python3", f"{V}/tools/rename_locals.py", tmp] + specs, capture_output=True, text=True)
    else:
        for m in sorted({m for m, _ in funcs}):
            path = f"{tmp}/fuzzylite/{m}.py"
            src = open(path).read()
            tree = ast.parse(src)
            lines = src.split("\n")
            edits = []        # (lineno, col, insert text) applied bottom-up
            quals = {q for mm, q in funcs if mm == m}
            has_settings = any(isinstance(n, ast.ImportFrom) and any(a.name == "settings" for a in n.names) for n in ast.walk(tree)) or m == "library"

            def visit(body, prefix):
                for n in body:
                    if isinstance(n, ast.ClassDef):
                        visit(n.body, prefix + [n.name])
                    elif isinstance(n, ast.FunctionDef):
                        q = ".".join(prefix + [n.name])
                        if kind == "logging" and q in quals and has_settings and m != "library":
                            first = n.body[0]
                            if isinstance(first, ast.Expr) and isinstance(first.value, ast.Constant) and isinstance(first.value.value, str) and len(n.body) > 1:
                                first = n.body[1]
                            ind = " " * first.col_offset
                            edits.append((first.lineno, 0, ind + f'settings.logger.debug("entering {q}")\n'))
                        if kind == "messages":
                            for r in ast.walk(n):
                                if isinstance(r, ast.Raise) and isinstance(r.exc, ast.Call) and r.exc.args:
                                    a0 = r.exc.args[0]
                                    last = a0.values[-1] if isinstance(a0, ast.JoinedStr) and a0.values else a0
                                    if isinstance(last, ast.Constant) and isinstance(last.value, str) and last.end_lineno == last.lineno and isinstance(a0, ast.Constant):
                                        edits.append((a0.end_lineno, a0.end_col_offset - 1, " [edited]"))
                        visit(n.body, prefix + [n.name])
            visit(tree.body, [])
            for ln, col, text in sorted(set(edits), reverse=True):
                if col == 0:
                    lines.insert(ln - 1, text.rstrip("\n"))
                else:
                    lines[ln - 1] = lines[ln - 1][:col] + text + lines[ln - 1][col:]
            open(path, "w").write("\n".join(lines))
    r = subprocess.run(["/venv/bin/python", "-c", "import sys; sys.path.insert(0, '.'); import fuzzylite"], cwd=tmp, capture_output=True, text=True)
    if r.returncode:
        print("IMPORT BROKEN", r.stderr[-500:]); sys.exit(9)
    d = subprocess.run(["diff", "-r", "-q", "/repo/fuzzylite", f"{tmp}/fuzzylite"], capture_output=True, text=True).stdout
    nd = subprocess.run("diff -r /repo/fuzzylite %s/fuzzylite | grep -c '^[<>]'" % tmp, shell=True, capture_output=True, text=True).stdout.strip()
    print(f"{kind}: {len([l for l in d.splitlines() if 'differ' in l])} files edited, {nd} changed lines")
    if "--suite" in os.environ.get("HS_FLAGS", "--suite"):
        r = subprocess.run(["/venv/bin/python", "-m", "pytest", "-q", "-p", "no:cacheprovider", "--timeout=900", "-x", "--deselect", "tests/test_exporter.py::TestPythonExporter::test_object",
                            "--deselect", "tests/test_benchmark.py::TestBenchmark::test_measure"], cwd=tmp, capture_output=True, text=True)
        print("suite:", r.stdout.strip().splitlines()[-1] if r.stdout.strip() else r.stderr[-300:])
    for c in checks:
        env = dict(os.environ, PYVC_REPO=tmp, PYVC_OUT=f"{tmp}/out_{c}")
        cp = subprocess.run([f"{V}/check", c], env=env, capture_output=True, text=True, cwd=V)
        lines = [l for l in cp.stdout.splitlines() if l.startswith(("VIOLATION", "UNDECIDED", "CHECKER-FAULT"))]
        print(c, "exit", cp.returncode, (lines[0][:220].replace(tmp, "<scratch>") if lines else ""))
finally:
    shutil.rmtree(tmp, ignore_errors=True)
