#!/usr/bin/env python3
"""Markdown table of the kept seeded changes and which registered checks report them (from seeded/*/meta.json + detect.json,
written by tools/run_seeds.py). usage: seed_table.py > table.md"""
import json, os, re
V = os.path.dirname(os.path.dirname(os.path.abspath(__file__)))
rows = []
for name in sorted(os.listdir(f"{V}/seeded")):
    d = f"{V}/seeded/{name}"
    if not os.path.isdir(d):
        continue
    meta = json.load(open(f"{d}/meta.json"))
    det = json.load(open(f"{d}/detect.json")) if os.path.exists(f"{d}/detect.json") else {}
    pid = name.split("-")[0]
    what = re.sub(r"\s+", " ", meta.get("summary", ""))
    what = what[:150] + ("..." if len(what) > 150 else "")
    needs = re.sub(r"\s+", " ", meta.get("needs_to_manifest", ""))[:110]
    if "error" in det:
        rows.append(f"| {name} | {what} | patch does not apply to the repaired tree | - |")
        continue
    caught = [c for c, r in det.items() if isinstance(r, dict) and r.get("exit") == 1]
    own = det.get(pid, {})
    first = ""
    src = own if own.get("exit") == 1 else (det[caught[0]] if caught else {})
    if src.get("obligations"):
        m = re.search(r"obligation (\S+)", src["obligations"][0])
        first = m.group(1) if m else ""
    verdict = {1: "VIOLATION", 0: "missed", 2: "undecided", 3: "checker fault"}.get(own.get("exit"), "-")
    rows.append(f"| {name} | {what} | own check: {verdict}; reported by: {', '.join(caught) or 'none'} | `{first[:110]}` |")
print("| seed | change (fresh sub-agent, property text only) | detection | first reported obligation |")
print("|---|---|---|---|")
print("\n".join(rows))
