#!/usr/bin/env python3
"""Round 4: copies validated seeded changes from /tmp/seed4_Cxx (validated by tools/validate_seeds4.sh on a scratch worktree of /repo HEAD)
into /verif/seeded/<Cxx>-<3+k>/ {patch.diff, demo.py, meta.json}."""
import json, os, shutil, sys
for pid in sys.argv[1:]:
    sd = f"/tmp/seed4_{pid}"
    val = {}
    for line in open(os.path.join(sd, "validated.txt")):
        parts = line.split()
        val[parts[0]] = line.strip()
    for k in "123":
        if k not in val or "suite=0 demo_patched=1 demo_clean=0" not in val[k]:
            print(pid, k, "NOT kept:", val.get(k)); continue
        dst = f"/verif/seeded/{pid}-{6 + int(k)}"
        os.makedirs(dst, exist_ok=True)
        shutil.copy(f"{sd}/patch{k}.diff", f"{dst}/patch.diff")
        shutil.copy(f"{sd}/demo{k}.py", f"{dst}/demo.py")
        try:
            meta = json.load(open(f"{sd}/meta{k}.json"))
        except Exception:
            meta = {"property": pid}
        meta["property"] = pid
        meta["round"] = 4
        meta["origin"] = "written by a fresh sub-agent (round 4) given only the property text, the summaries of the three changes already known for it, and a scratch worktree of /repo HEAD (with the fix commits)"
        meta["confirmed_by_me"] = {"how": "tools/validate_seeds4.sh on a scratch worktree of /repo HEAD: git apply; full pytest suite (the 2 baseline-failing/flaky tests deselected); demo with patch; git checkout; demo without patch",
                                   "result": val[k]}
        json.dump(meta, open(f"{dst}/meta.json", "w"), indent=1)
        print(pid, k, "kept as", dst)
