#!/usr/bin/env python3
"""Self-test helper (not a manifest command): apply a textual mutation (or a patch file) to a scratch copy of /repo and
run one property check against it.  usage: try_mutant.py Cxx file.py 'old' 'new' [count]   |   try_mutant.py Cxx --patch file.diff"""
import os, shutil, subprocess, sys, tempfile
pid = sys.argv[1]
tmp = tempfile.mkdtemp(prefix="pyvc_mut_", dir="/var/tmp")
try:
    shutil.copytree("/repo/fuzzylite", os.path.join(tmp, "fuzzylite"), ignore=shutil.ignore_patterns("__pycache__"))
    if sys.argv[2] == "--patch":
        r = subprocess.run(["patch", "-p1", "-d", tmp, "-i", os.path.abspath(sys.argv[3])], capture_output=True, text=True)
        if r.returncode != 0:
            print("PATCH FAILED", r.stdout, r.stderr); sys.exit(9)
    else:
        f, old, new = sys.argv[2:5]
        p = os.path.join(tmp, "fuzzylite", f)
        s = open(p).read()
        n = s.count(old)
        if n == 0:
            print("MUTATION SITE NOT FOUND"); sys.exit(9)
        cnt = int(sys.argv[5]) if len(sys.argv) > 5 else 1
        s = s.replace(old, new, cnt)
        open(p, "w").write(s)
    env = dict(os.environ, PYVC_REPO=tmp, PYVC_OUT=os.path.join(tmp, "out"))
    r = subprocess.run(["python3-vt", f"/verif/props/{pid}.py"] + ([] if "--tier" not in sys.argv else sys.argv[sys.argv.index("--tier"):]),
                       env=env, capture_output=True, text=True, cwd="/verif")
    out = r.stdout.replace(tmp, "<scratch>")
    print(out[-3000:]); print(r.stderr[-2000:]); print("exit", r.returncode)
finally:
    shutil.rmtree(tmp, ignore_errors=True)
