#!/usr/bin/env python3
"""Self-test: re-decide every SMT obligation of a property under several solver seeds; report verdict flips and slow ones.
usage: python3-vt tools/stability.py Cxx [nseeds]"""
import importlib, os, sys, time
sys.path.insert(0, os.path.dirname(os.path.dirname(os.path.abspath(__file__))))
from concurrent.futures import ProcessPoolExecutor
import multiprocessing as mp


def work(job):
    name, smt2, seed, expect = job
    import z3
    z3.set_param("smt.random_seed", seed); z3.set_param("sat.random_seed", seed); z3.set_param("nlsat.seed", seed)
    s = z3.Solver(); s.set("timeout", 20000); s.set("random_seed", seed)
    s.from_string(smt2)
    t = time.time(); r = str(s.check())
    return name, seed, r, time.time() - t, expect


def main():
    pid = sys.argv[1]; n = int(sys.argv[2]) if len(sys.argv) > 2 else 6
    from pyvc.runner import Run
    mod = importlib.import_module(f"props.{pid}")
    run = Run(pid, argv=[])
    run.bounded = lambda *a, **k: None
    mod.build(run)
    jobs = [(o.name, o.smt2, seed, o.expect) for o in run.obls if o.smt2 for seed in range(n)]
    bad = {}
    with ProcessPoolExecutor(16, mp_context=mp.get_context("spawn")) as ex:
        for name, seed, r, dt, expect in ex.map(work, jobs, chunksize=4):
            want = "unsat" if expect == "unsat" else "sat"
            if r != want or dt > 3:
                bad.setdefault(name, []).append((seed, r, round(dt, 1)))
    print(f"{pid}: {len(jobs)} runs over {len(jobs)//n} obligations; unstable/slow: {len(bad)}")
    for k, v in bad.items():
        print("  ", k, v)


if __name__ == "__main__":
    main()
