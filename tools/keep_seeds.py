#!/usr/bin/env python3
"""Copies validated seeded changes from /tmp/seed_Cxx (written by independent sub-agents, validated by tools/validate_seeds.sh)
into /verif/seeded/<Cxx>-<k>/ {patch.diff, demo.py, meta.json}."""
import json, os, shutil, sys
for pid in sys.argv[1:]:
    sd = f"/tmp/seed_{pid}"
    val = {}
    for line in open(os.path.join(sd, "validated.txt")):
        parts = line.split()
        val[parts[0]] = line.strip()
    for k in "123":
        if k not in val or "suite=0 demo_patched=1 demo_clean=0" not in val[k]:
            print(pid, k, "NOT kept:", val.get(k)); continue
        dst = f"/verif/seeded/{pid}-{k}"
        os.makedirs(dst, exist_ok=True)
        shutil.copy(f"{sd}/patch{k}.diff", f"{dst}/patch.diff")
        shutil.copy(f"{sd}/demo{k}.py", f"{dst}/demo.py")
        try:
            meta = json.load(open(f"{sd}/meta{k}.json"))
        except Exception:
            meta = {"property": pid}
        meta["property"] = pid
        meta["origin"] = "written by a fresh sub-agent given only the property text and a scratch worktree"
        meta["confirmed_by_me"] = {"how": "tools/validate_seeds.sh on a scratch worktree of /repo at the pinned commit: git apply; full pytest suite (the 2 baseline-failing/flaky tests deselected); demo with patch; git checkout; demo without patch",
                                   "result": val[k]}
        json.dump(meta, open(f"{dst}/meta.json", "w"), indent=1)
        print(pid, k, "kept")
