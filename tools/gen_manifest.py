#!/usr/bin/env python3
"""Regenerates MANIFEST.json from the table below (kept next to the checks so that it is always valid)."""
import json, os
HERE = os.path.dirname(os.path.dirname(os.path.abspath(__file__)))
A_NUM = "Assumes A-REAL (finite float arithmetic = exact real arithmetic; NaN/+-inf exact), A-TF (ground axioms of exp/log/cos/pow), A-NP (NumPy primitive models, conformance-checked), A-LIFT (element-wise lifting; premise `oblivious` checked), A-PY, soundness of z3/cvc5 and of the pyvc executor."
CHECKS = {
 "C03": dict(cat="proof", design="8/C03", tech="VCs from the real AST of every membership() in extended reals vs documented closed forms; z3/cvc5",
   text="Every shape term's membership(), read from /repo's AST on each run, is proved equal to its documented closed form (scaled by height) for ALL parameters satisfying the validity predicate and ALL x in the extended reals (every breakpoint, +-inf, NaN), plus NaN-iff, range [0,height], two-point monotonicity for the classes whose is_monotonic() returns True, constructor field contracts, modular preconditions of nested term calls, and the `oblivious` obligation that makes array evaluation element-wise. Discrete relies on an assumed contract of numpy.interp (cross-checked by a bounded run-time stand-in, labelled B).",
   note=A_NUM + " Rounding of computed breakpoints (Arc/SemiEllipse end points in IEEE arithmetic) is outside A-REAL; see DESIGN 10."),
 "C04": dict(cat="proof", design="8/C04", tech="VCs from the real AST of the 16 compute() bodies; formula, range and all norm laws in NRA; z3/cvc5",
   text="Each compute() body is symbolically executed and proved equal to the documented formula on [0,1]^2, with range, commutativity, monotonicity, associativity (three operands), identity, annihilator, min/max bound and the duality law S(a,b)=1-T(1-a,1-b) proved over the code's own symbolic result for all real operands in [0,1]; obliviousness gives the element-wise clause.",
   note=A_NUM),
 "C05": dict(cat="proof", design="8/C05", tech="VCs from the real AST of the 6 hedge() bodies; formula, range, fixed points, monotonicity, inverse/involution laws; z3",
   text="Each hedge() body is proved equal to its documented formula on [0,1], maps [0,1] into [0,1], fixes 0 and 1 (not swaps, any -> 1), is monotone (not antitone); very<=x<=somewhat, very/somewhat and extremely/seldom mutual inverses and not-involution are proved over the code's symbolic results (sqrt is definitional). Factory registration is a static obligation on the source plus a bounded run-time confirmation.",
   note=A_NUM),
 "C11": dict(cat="proof", design="8/C11", tech="VCs from the real AST of the 6 tsukamoto() bodies composed with the membership contracts; z3",
   text="For every monotonic term and all valid parameters and all y in (0,height): tsukamoto(y) is finite, membership(tsukamoto(y)) == y through the membership contract (closed form proved in C03), z is monotone in y in the term's direction, no data-dependent Python control (element-wise). Static: a class overrides tsukamoto iff its is_monotonic() returns True; Term.tsukamoto raises unconditionally.",
   note=A_NUM),
}
A_WIRE = "Assumes A-LISTVAL (list fields are values: no list object shared between two fields), A-ACTVAL (Activated terms stored in a fuzzy output are never mutated; constructor/degree setter verified against the value model), A-WF (well-formedness of loaded rules/engines is a heap invariant established by the loaders), interface contracts of the abstract methods (hedge, compute, membership are pure functions of receiver and arguments), A-REAL, A-NP, A-PY, A-MSG, A-LOG, solvers and executor soundness."
CHECKS.update({
 "C07": dict(cat="other", design="8/C07", tech="loop-invariant VCs from the real AST of Consequent.modify / Rule.trigger / Activated.__init__ over a Boogie-style heap; z3; native witness templates",
   text="Deductive: Consequent.modify (two nested loops, invariants keyed by loop ordinal, frame, raises), Rule.trigger (against the modify contract) and the Activated constructor/degree setter are verified from /repo's AST for consequents of any length, any hedges, any degree incl. NaN/+-inf. On the pinned tree ONE obligation is refuted by a genuine defect (known finding C07-1: hedges of an earlier conclusion leak into later ones, replayed natively); it is recorded, not repaired, so this is not a completed proof: the same contract is proved outside the recorded failing region (residual obligations) and any other refutation is still reported.",
   note=A_WIRE + " Known finding C07-1 is open: discharged < obligations by exactly that obligation."),
 "C08": dict(cat="proof", design="8/C08", tech="loop-invariant VCs with history (ghost) functions from the real AST of General/First/Last/Threshold.activate; comparator table read from the AST; z3; bounded run-time stand-in for Highest/Lowest/Proportional",
   text="General, First, Last and Threshold: for rule blocks of ANY length the loop is proved to compute every loaded rule's degree as weight x antecedent value on the outputs accumulated so far, to trigger exactly the rules the definition selects (count, positivity, threshold, comparator meaning) in order, to mark triggered only for positive degrees, to leave unloaded rules deactivated, to write nothing else, and (non-General) to reject batches before any selection. Highest, Lowest and Proportional are covered only by a bounded run-time stand-in (level B, random rule blocks of 1-8 rules with ties, zeros, NaN, unloaded/disabled rules), never counted as proved.",
   note=A_WIRE + " Callee contracts used: Rule.activate_with (proved in C06), Rule.trigger (proved in C07)."),
})
CHECKS.update({
 "C06": dict(cat="proof", design="8/C06", tech="recursion-contract VCs (decreases on tree height) from the real AST of Antecedent.activation_degree; Rule.activate_with against it; static operator table; bounded run-time stand-in for text->tree",
   text="Antecedent.activation_degree is verified against its own contract for expression trees of ANY shape: a proposition is the hedges applied from the one nearest the term outwards to the term's membership of the variable's value (output variable: aggregated activation of the term), `any` yields 1, a disabled variable 0, `and`/`or` are the block's conjunction/disjunction applied to (left, right) in that order; recursive calls are replaced by the contract with a decreasing height measure; no raise for a loaded well-formed tree; writes nothing. Rule.activate_with stores and returns weight x that value. Static: `and` binds tighter than `or`, both binary and left-associative in the operator table read from the AST. Bounded (B, not proved): text -> postfix -> tree (Function.infix_to_postfix and Antecedent.load) is checked on rules generated from the grammar against a reference evaluation of the generated tree.",
   note=A_WIRE + " Interface fact used: Any.hedge is the constant 1 (C05). The shunting-yard stage has no inductive proof (bounded stand-in only)."),
})
CHECKS.update({
 "C12": dict(cat="proof", design="8/C12", tech="loop-invariant VCs from the real AST of OutputVariable.defuzzify over batches of symbolic length (index-function arrays, ghost fill/pprev), induction lemma cascade.base/step; z3",
   text="OutputVariable.defuzzify is verified for defuzzified sequences of ANY length n >= 1 (a float is n = 1) and every setting: the np.nditer fill-forward loop (invariant over the row index), the masked default substitution, the clipping value setter; every row equals commit(fill) and by the induction lemma (base, step, commit idempotent) equals the sequential per-row `step` on the committed value, hence any split into calls/batches gives the same values; previous_value is the last value held before the call; a disabled variable is untouched; on ValueError (no defuzzifier) or a failing defuzzifier value, previous value and fuzzy output are unchanged; the defuzzifier receives (fuzzy, minimum, maximum). clear() resets value, previous value and fuzzy output. A bounded run-time stand-in (B) replays sequences x splits x 12 settings x failures x clear().",
   note=A_WIRE + " The defuzzifier may return a numpy.float64 or an ndarray: the two static `kind` obligations check that the value passes through scalar()/np.asarray before np.nditer and the masked assignment (the pinned tree failed them - genuine defect repaired by fix commit 95f5e5a)."),
})
CHECKS.update({
 "C20": dict(cat="proof", design="8/C20", tech="symbolic execution of the real AST of Settings.context over a finite key universe with symbolic values/None-ness, arbitrary with-body, normal and exceptional exits; z3; static read-at-call-time scan",
   text="Settings.context is executed symbolically from /repo's AST: for EVERY subset of the seven settings (None-ness symbolic), arbitrary values, an arbitrary with-body (havoc of all settings) and both exits (normal, exception incl. BaseException): inside the context exactly the named settings hold the given values; on leaving, every named setting has its entry value and every unnamed setting keeps whatever the body left (never touched); no KeyError on any path. Nesting to any depth follows because an inner context is part of the outer body (lemma). Static: every read of a setting in the package happens inside a function body at call time and is never cached in an attribute/global/default argument. A bounded run-time stand-in (B) exercises nestings to depth 4 with exceptions at every level.",
   note="A-CTX: contextlib.contextmanager / generator semantics (code after yield runs once; a body exception is raised at the yield; only finally/except blocks run). A-PY. Solvers and executor soundness."),
})
CHECKS.update({
 "C19": dict(cat="proof", design="8/C19", tech="loop-invariant VCs (4 nested loops, skolem block/rule/conclusion/variable) from the real AST of Engine.is_ready; static matching of every raise site in process()'s call tree; bounded run-time stand-in",
   text="Engine.is_ready is verified for engines of ANY size: if it returns True with an initially empty error list then, for an arbitrary output variable, block, rule and conclusion, the defuzzifier is present, the aggregation operator is present when the defuzzifier is integral, the conjunction (disjunction) operator is present when ' and ' (' or ') occurs in a rule's antecedent text, and the implication operator is present when a loaded rule concludes on an output variable with an integral defuzzifier; the result is exactly `no errors`; nothing is written. Static composition: every raise statement in the call tree of Engine.process is matched to the is_ready clause, premise or proved callee precondition that excludes it (a new or unguarded raise site fails). The pinned tree failed one obligation (missing disjunction not reported) - a genuine defect repaired by fix commit 8fae7d7. Bounded (B): generated engines with every subset of operators removed x input forms, ready => process() completes.",
   note=A_WIRE + " H-WS (hypothesis of the property): rules are written with whitespace-separated tokens, i.e. the expression tree has an and/or node iff ' and '/' or ' occurs in the antecedent text. One residual raise site is NOT excluded by readiness and is listed: WeightedDefuzzifier.infer_type TypeError for mixed term kinds."),
})
CHECKS.update({
 "C01": dict(cat="proof", design="8/C01", tech="loop-invariant VCs with block-indexed history functions from the real AST of Engine.process over the contracts of its callees; z3; bounded run-time stand-in against an independently wired reference pipeline",
   text="Engine.process is verified for engines of ANY size over the contracts of its callees: every output variable's fuzzy output is empty before the first block runs; exactly the enabled rule blocks are activated, in order, each on the fuzzy outputs accumulated so far (Tb(j+1) = activate(block j, Tb(j)) if enabled else Tb(j)); then every enabled output variable takes the cascade (C12) of its defuzzifier applied to its final fuzzy output, range and aggregation operator, disabled ones keep their value; nothing else is written. The meaning of one activation is the interface contract proved per method in C08 (degrees = weight x antecedent, C06; contributions per conclusion, C07). Bounded (B): generated engines x input rows against a reference pipeline wired independently of process/activate/trigger/modify/defuzzify.",
   note=A_WIRE + " The end-to-end statement is the composition of C01 (wiring) with C06/C07/C08/C12 (callee contracts) and C03/C04/C05/C09/C10 (leaf meanings) by substitution; the composition itself is not mechanised. Known finding C07-1 (hedge leak in Consequent.modify) is open and limits the composed statement to rules outside its region."),
})
TODO = {}
def main():
    props = [json.loads(l) for l in open(os.path.join(HERE, "properties.jsonl"))]
    checks, na = [], []
    for p in props:
        pid = p["id"]
        if pid in CHECKS and os.path.exists(os.path.join(HERE, "props", pid + ".py")):
            c = CHECKS[pid]
            checks.append({"property_id": pid, "quick_cmd": f"./check {pid} --tier quick", "thorough_cmd": f"./check {pid} --tier thorough",
                           "evidence_file": f"/verif/evidence/{pid}.json", "replay_cmd_template": f"./check {pid} --replay {{path}}", "engine": "pyvc",
                           "level_claimed": {"category": c["cat"], "text": c["text"], "design_ref": c["design"]}, "level_note": c["note"], "technique": c["tech"]})
        else:
            na.append({"property_id": pid, "reason": TODO.get(pid, "no check registered yet: the contracts for this property are still being built (see DESIGN.md 8 and 11); nothing is claimed for it")})
    man = {"version": 1,
           "setup_cmd": "python3-vt -c \"import z3, sys; assert z3.get_version_string().startswith('5.'), z3.get_version_string()\" && /venv/bin/python -c \"import numpy, sys; sys.path.insert(0, '/repo'); import fuzzylite\" && test -x /usr/bin/cvc5",
           "hooks": {"guard": "PYFUZZYLITE_VERIF", "enable": "no hooks: the checks read /repo's working tree with ast.parse and run the unmodified package for replays; the guard name is reserved and unused",
                     "baseline_off_cmd": "cd /repo && /venv/bin/python -m pytest -ra -q -p no:cacheprovider --timeout=900 --continue-on-collection-errors", "source_commits": [], "add_only": True},
           "engines": [{"name": "pyvc", "path": "/verif/pyvc", "serves_properties": [c["property_id"] for c in checks],
                        "kind_free_text": "contract-based deductive verifier for a Python/NumPy subset: real AST -> verification conditions over extended reals / heap -> z3 5.1 (cvc5 fallback); refutations replayed natively under /venv/bin/python"}],
           "checks": checks, "not_applicable": na,
           "notes": "Contracts are sidecar files under /verif/contracts keyed by qualified name; no file in /repo is edited for verification. Exit codes: 0 held, 1 VIOLATION, 2 undecided, 3 checker fault."}
    json.dump(man, open(os.path.join(HERE, "MANIFEST.json"), "w"), indent=1)
    print(len(checks), "checks;", len(na), "not claimed")
if __name__ == "__main__":
    main()
