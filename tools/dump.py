import ast,sys
files=sys.argv[1].split(','); names=set(sys.argv[2].split(',')) if len(sys.argv)>2 else None
for fn in files:
    src=open('/repo/fuzzylite/'+fn).read(); mod=ast.parse(src)
    for c in mod.body:
        if isinstance(c,ast.ClassDef):
            print('##',fn,c.name,[ast.unparse(b) for b in c.bases], c.lineno)
            for f in c.body:
                if isinstance(f,ast.FunctionDef) and (names is None or f.name in names):
                    body=[s for s in f.body if not(isinstance(s,ast.Expr) and isinstance(s.value,ast.Constant))]
                    print('  def',f.name,'('+ast.unparse(f.args)+')',':',f.lineno, [ast.unparse(d) for d in f.decorator_list])
                    for s in body: print('     ',ast.unparse(s).replace('\n','\n      '))
