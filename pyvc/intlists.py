"""Executor extension: Python lists of ints held in locals/parameters and mutated in place (`x[i] += 1`), as (z3 array Int->Int, length).
Used for Op.increment and the grid loop of FldExporter.write_from_scope (C18)."""
import ast
import z3
from . import xreal as xr
from .xreal import X
from .numexec import Num, Bool, Unsupported
from .heap import HeapExec

IntArr = z3.ArraySort(z3.IntSort(), z3.IntSort())
_ICMP = {ast.Lt: lambda a, b: a < b, ast.LtE: lambda a, b: a <= b, ast.Gt: lambda a, b: a > b, ast.GtE: lambda a, b: a >= b,
         ast.Eq: lambda a, b: a == b, ast.NotEq: lambda a, b: a != b}


class ArrV:
    """list[int] value: elements arr[0..n-1]"""
    __slots__ = ("arr", "n")

    def __init__(s, arr, n):
        s.arr, s.n = arr, n


def mkint(i):
    return Num(X(xr.F, xr.I0, z3.ToReal(i)), False, True, True)


def toint(ex, v, node=None):
    if isinstance(v, int) and not isinstance(v, bool):
        return z3.IntVal(v)
    n = ex.num(v, node)
    return z3.simplify(z3.ToInt(n.x.v))


class IntListExec(HeapExec):
    def ev_Subscript(s, p, e):
        base = s.ev(p, e.value)
        if isinstance(base, ArrV):
            i = toint(s, s.ev(p, e.slice), e)
            s.oblige(f"safety/line{e.lineno - s.fn_line}:list index in range", p, z3.And(i >= -base.n, i < base.n))
            return mkint(z3.Select(base.arr, z3.If(i >= 0, i, base.n + i)))
        return super().ev_Subscript(p, e)

    def subscript_store(s, p, t, v):
        if isinstance(t.value, ast.Name) and isinstance(p.env.get(t.value.id), ArrV):
            base = p.env[t.value.id]
            i = toint(s, s.ev(p, t.slice), t)
            s.oblige(f"safety/line{t.lineno - s.fn_line}:list index in range (store)", p, z3.And(i >= -base.n, i < base.n))
            p.env[t.value.id] = ArrV(z3.Store(base.arr, z3.If(i >= 0, i, base.n + i), toint(s, v, t)), base.n)
            return
        return super().subscript_store(p, t, v)

    def truth(s, v, node, p=None):
        if isinstance(v, ArrV):
            return v.n > 0
        return super().truth(v, node, p)

    def ev_Call(s, p, e):
        if isinstance(e.func, ast.Name) and e.func.id == "len" and len(e.args) == 1:
            v = s.ev(p, e.args[0])
            if isinstance(v, ArrV):
                return mkint(v.n)
        if isinstance(e.func, ast.Name) and e.func.id in ("max", "min") and len(e.args) == 2 and not e.keywords:
            q = p.fork()
            vs = [s.ev(q, a) for a in e.args]
            if all(s._isint(v) for v in vs) and any(isinstance(v, Num) for v in vs):
                a, b = (toint(s, s.ev(p, x), e) for x in e.args)
                # Python: max(a, b) = b if b > a else a ; min(a, b) = b if b < a else a
                return mkint(z3.If(b > a, b, a) if e.func.id == "max" else z3.If(b < a, b, a))
        return super().ev_Call(p, e)

    @staticmethod
    def _isint(v):
        return (isinstance(v, int) and not isinstance(v, bool)) or (isinstance(v, Num) and v.isint and not v.data)

    def binop(s, op, l, r, e, p):
        # Python int arithmetic stays in the integer domain
        if isinstance(op, (ast.Add, ast.Sub, ast.Mult)) and s._isint(l) and s._isint(r) and (isinstance(l, Num) or isinstance(r, Num)):
            a, b = toint(s, l, e), toint(s, r, e)
            return mkint(a + b if isinstance(op, ast.Add) else a - b if isinstance(op, ast.Sub) else a * b)
        return super().binop(op, l, r, e, p)

    def havoc_value(s, v, hint):
        if isinstance(v, ArrV):
            return ArrV(z3.FreshConst(IntArr, hint), v.n)
        return super().havoc_value(v, hint)

    def ev_Compare(s, p, e):
        # `x is None` / `x is not None` for an int-or-None parameter represented as ("opt", is_none Bool, Int)
        if len(e.ops) == 1 and isinstance(e.ops[0], (ast.Is, ast.IsNot)) and isinstance(e.comparators[0], ast.Constant) and e.comparators[0].value is None:
            l = s.ev(p, e.left)
            if isinstance(l, tuple) and l and l[0] == "opt":
                return Bool(l[1] if isinstance(e.ops[0], ast.Is) else z3.Not(l[1]), False, True)
            if isinstance(l, Num):
                return isinstance(e.ops[0], ast.IsNot)
        # a comparison of two Python ints stays in the integer domain (mixed Int/Real nonlinear terms are much harder for the solver)
        if len(e.ops) == 1 and type(e.ops[0]) in _ICMP:
            q = p.fork()
            l, r = s.ev(q, e.left), s.ev(q, e.comparators[0])
            li = isinstance(l, int) and not isinstance(l, bool) or (isinstance(l, Num) and l.isint and not l.data)
            ri = isinstance(r, int) and not isinstance(r, bool) or (isinstance(r, Num) and r.isint and not r.data)
            if li and ri and (isinstance(l, Num) or isinstance(r, Num)):
                l, r = s.ev(p, e.left), s.ev(p, e.comparators[0])
                return Bool(_ICMP[type(e.ops[0])](toint(s, l, e), toint(s, r, e)), False, True)
        return super().ev_Compare(p, e)
