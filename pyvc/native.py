"""Native side (runs under /venv/bin/python with the tree under check first on sys.path): replays counterexamples and
runs bounded stand-ins against the REAL package.  Reads one JSON job on stdin, writes one JSON result on stdout.

job = {"repo": "/repo", "module": "contracts.norms", "func": "replay", "calls": [ {kwargs}, ... ], "first_failure": true}
Each call is `func(fl, FA, **kwargs)` -> dict with at least {"failed": bool}.
"""
import importlib
import json
import os
import sys
import traceback


def main():
    job = json.load(sys.stdin)
    repo = job.get("repo", "/repo")
    here = os.path.dirname(os.path.dirname(os.path.abspath(__file__)))
    sys.path.insert(0, here)
    sys.path.insert(0, repo)
    import warnings
    warnings.simplefilter("ignore")
    import numpy as np
    np.seterr(all="ignore")
    out = {"results": [], "error": None}
    try:
        import fuzzylite as fl
        assert os.path.abspath(fl.__file__).startswith(os.path.abspath(repo)), (fl.__file__, repo)
        from pyvc.falg import FA
        mod = importlib.import_module(job["module"])
        fn = getattr(mod, job["func"])
        for kw in job["calls"]:
            try:
                r = fn(fl, FA, **kw)
            except BaseException as ex:  # noqa
                tb = traceback.extract_tb(ex.__traceback__)
                inner = tb[-1].filename if tb else ""
                in_pkg = [f for f in tb if os.path.abspath(f.filename).startswith(os.path.join(os.path.abspath(repo), "fuzzylite"))]
                if in_pkg and not isinstance(ex, (KeyboardInterrupt, SystemExit)):
                    # the REAL code raised where the helper expected none: that is a failing case, reported with the exception
                    r = {"failed": True, "expected": "no exception from the library on this case", "observed": f"{type(ex).__name__}: {ex}",
                         "call": f"raised at {os.path.relpath(in_pkg[-1].filename, repo)}:{in_pkg[-1].lineno} ({in_pkg[-1].name})", "trace": traceback.format_exc()[-1200:]}
                else:   # a replay helper that crashes on its own is a checker fault, not a violation
                    r = {"failed": False, "crash": f"{type(ex).__name__}: {ex}", "trace": traceback.format_exc()[-1500:]}
            r["kwargs"] = kw
            out["results"].append(r)
            if job.get("first_failure") and r.get("failed"):
                break
    except Exception as ex:  # noqa
        out["error"] = f"{type(ex).__name__}: {ex}\n{traceback.format_exc()[-2000:]}"
    json.dump(out, sys.stdout, default=str)


if __name__ == "__main__":
    main()
