"""Executor extension for the token-level parsers (rule.py state machines, Function.parse): abstract strings and tokens
(DESIGN 4.7), name-keyed dictionaries built by comprehension, factories, deques, typed empty lists.

Strings are values of the uninterpreted sort Str.  The str/list operations that occur are uninterpreted functions
(assumption A-STR): split_fn(text) = the whitespace-separated tokens, join_fn(tokens) = ' '.join, find_hash / prefix for comment
stripping, to_float_ok / to_float for float(token).
"""
import ast
import z3
from . import xreal as xr
from .xreal import X
from .numexec import Num, Bool, Unsupported
from .heap import (HeapExec, Contract, Ref, Str, NONE, XR, cls_of, SeqRef, SeqStr, x2xr, xr2x, RefV, SeqV, StrV, Exc, strc, sort_of, canon)

split_fn = z3.Function("split_fn", Str, SeqStr)
join_fn = z3.Function("join_fn", SeqStr, Str)
find_hash = z3.Function("find_hash", Str, z3.IntSort())
prefix_fn = z3.Function("prefix_fn", Str, z3.IntSort(), Str)
to_float_ok = z3.Function("to_float_ok", Str, z3.BoolSort())
to_float_fn = z3.Function("to_float_fn", Str, XR)
lookup = z3.Function("lookup_by_name", SeqRef, Str, Ref)
is_hedge = z3.Function("is_hedge_name", Str, z3.BoolSort())
hedge_tok = z3.Function("constructed_from_name", Ref, Str)      # ghost: the registered name a hedge object was constructed from (HedgeFactory.construct(name))


class NameMapV:
    """{x.name: x for x in seq}"""

    def __init__(s, seq, elemcls, namekey):
        s.seq, s.elemcls, s.namekey = seq, elemcls, namekey


class FactoryV:
    def __init__(s, which):
        s.which = which


class ParserExec(HeapExec):
    KNOWN_CLASSES = ("Proposition", "Operator", "Expression", "Hedge", "Term", "Variable", "Rule", "Node")

    def __init__(s, *a, **kw):
        super().__init__(*a, **kw)
        s.decl = {}

    # ---- ghost hooks: unfoldings of recursively defined ghost functions over a list at the places where the list changes
    def on_append(s, name, cur, new, v):
        return []

    def on_pop(s, name, cur, rest, top):
        return []

    # ---- typed empty lists / declared local types
    def ann_elem(s, ann):
        txt = ast.unparse(ann)
        for c in s.KNOWN_CLASSES:
            if c in txt:
                return f"ref:{c}"
        if "str" in txt:
            return "str"
        return None

    def stmt(s, p, n):
        if isinstance(n, ast.AnnAssign) and isinstance(n.target, ast.Name) and n.value is not None:
            v = n.value
            empty = (isinstance(v, ast.List) and not v.elts) or (isinstance(v, ast.Call) and isinstance(v.func, ast.Name) and v.func.id in ("deque", "list") and not v.args)
            kind = s.ann_elem(n.annotation)
            if empty and kind:
                p.env[n.target.id] = SeqV(z3.Empty(z3.SeqSort(sort_of(kind))), kind)
                return [(p, None)]
            if isinstance(v, ast.Constant) and v.value is None and kind:
                s.decl[n.target.id] = kind
                p.env[n.target.id] = None
                return [(p, None)]
        if isinstance(n, ast.Expr) and isinstance(n.value, ast.Call) and isinstance(n.value.func, ast.Attribute) and n.value.func.attr == "append" \
                and isinstance(n.value.func.value, ast.Name) and isinstance(p.env.get(n.value.func.value.id), SeqV) and len(n.value.args) == 1:
            # xs.append(v): new == xs ++ [v], given to the solver with the ground consequences it needs (length, last element, elements at
            # the skolem indices of the goal) - z3's sequence solver is unstable when it has to derive them itself (spike S11)
            nm = n.value.func.value.id
            cur = p.env[nm]
            v = s.unwrap(cur.kind, s.ev(p, n.value.args[0]), n)
            ln = z3.Length(cur.q)
            new = z3.FreshConst(cur.q.sort(), nm + "@app")
            p.pc += [new == z3.Concat(cur.q, z3.Unit(v)), z3.Length(new) == ln + 1, new[ln] == v]
            p.pc += s.on_append(nm, cur.q, new, v)
            for j in list(getattr(s, "skolems", [])) + [ln - 1, ln - 2]:
                p.pc.append(z3.Implies(z3.And(j >= 0, j < ln), new[j] == cur.q[j]))
            p.env[nm] = SeqV(new, cur.kind)
            return [(p, None)]
        if isinstance(n, ast.Expr) and isinstance(n.value, ast.Call) and isinstance(n.value.func, ast.Attribute) and n.value.func.attr == "pop" \
                and isinstance(n.value.func.value, ast.Name) and isinstance(p.env.get(n.value.func.value.id), SeqV):
            s.ev(p, n.value)
            return [(p, None)]
        return super().stmt(p, n)

    def havoc(s, p, names, fields, tag):
        for nm in names:
            if nm in p.env and p.env[nm] is None and nm in s.decl and s.decl[nm].startswith("ref:"):
                p.env[nm] = RefV(z3.FreshConst(Ref, f"{nm}@{tag}"), s.decl[nm][4:])      # a declared `X | None` local: any reference incl. None
        return super().havoc(p, [n_ for n_ in names if not (n_ in p.env and isinstance(p.env[n_], RefV) and n_ in s.decl and False)], fields, tag)

    # ---- expressions
    def ev_GeneratorExp(s, p, e):
        g = e.generators[0]
        if len(e.generators) == 1 and not g.ifs and isinstance(g.iter, ast.Call) and isinstance(g.iter.func, ast.Name) and g.iter.func.id == "range" \
                and len(g.iter.args) == 1 and isinstance(g.iter.args[0], ast.Constant) and isinstance(g.target, ast.Name):
            out = []
            for i in range(g.iter.args[0].value):
                q = p.fork(); q.env[g.target.id] = i
                out.append(s.ev(q, e.elt))
            return tuple(out)
        raise Unsupported(f"generator expression at line {e.lineno}")

    def ev_DictComp(s, p, e):
        g = e.generators[0]
        if len(e.generators) == 1 and not g.ifs and isinstance(g.target, ast.Name) and isinstance(e.value, ast.Name) and e.value.id == g.target.id \
                and isinstance(e.key, ast.Attribute) and isinstance(e.key.value, ast.Name) and e.key.value.id == g.target.id and e.key.attr == "name":
            seq = s.ev(p, g.iter)
            if isinstance(seq, SeqV) and seq.kind.startswith("ref:"):
                cls = seq.kind[4:]
                key = s.schema.field_key(cls, "name")
                if key:
                    return NameMapV(seq.q, cls, key)
        raise Unsupported(f"dict comprehension at line {e.lineno}")

    def ev_Attribute(s, p, e):
        if ast.unparse(e) == "settings.factory_manager.hedge":
            return FactoryV("hedge")
        return super().ev_Attribute(p, e)

    def ev_Call(s, p, e):
        f = e.func
        if isinstance(f, ast.Name) and f.id == "range" and len(e.args) == 1 and isinstance(e.args[0], ast.Constant):
            return tuple(range(e.args[0].value))
        if isinstance(f, ast.Name) and f.id == "float" and len(e.args) == 1:
            v = s.ev(p, e.args[0])
            if isinstance(v, StrV):
                q = p.fork(); q.pc.append(z3.Not(to_float_ok(v.t))); s.raised.append((q, "ValueError"))
                p.pc += [to_float_ok(v.t), canon(to_float_fn(v.t))]
                return Num(xr2x(to_float_fn(v.t)), False, True)
        if isinstance(f, ast.Name) and f.id == "len" and len(e.args) == 1:
            v = s.ev(p, e.args[0])
            if v == ("emptylist",):
                return 0
        if isinstance(f, ast.Attribute) and isinstance(f.value, ast.Name) and isinstance(p.env.get(f.value.id), SeqV) and f.attr == "pop" and not e.args:
            cur = p.env[f.value.id]
            n = z3.Length(cur.q)
            s.oblige(f"safety/line{e.lineno - s.fn_line}:pop from a non-empty {f.value.id}", p, n > 0)
            # cur == rest ++ [top] for fresh rest/top (exists because n > 0); z3's Extract is avoided (unstable with length arithmetic, spike S11)
            rest = z3.FreshConst(cur.q.sort(), f.value.id + "@rest")
            top = cur.q[n - 1]
            p.pc += [cur.q == z3.Concat(rest, z3.Unit(top)), z3.Length(rest) == n - 1]
            p.pc += s.on_pop(f.value.id, cur.q, rest, top)
            for j in list(getattr(s, "skolems", [])) + [n - 2, n - 3]:
                p.pc.append(z3.Implies(z3.And(j >= 0, j < n - 1), rest[j] == cur.q[j]))
            p.env[f.value.id] = SeqV(rest, cur.kind)
            return s.wrap(cur.kind, top)
        if isinstance(f, ast.Attribute) and isinstance(f.value, ast.Constant) and isinstance(f.value.value, str) and f.attr == "join":
            if f.value.value != " ":
                raise Unsupported("join with another separator")
            try:
                v = s.ev(p, e.args[0])
            except Unsupported:
                if isinstance(e.args[0], ast.GeneratorExp) and "str(" in ast.unparse(e.args[0]):
                    return "<message>"            # text of an error message (A-MSG)
                raise
            if isinstance(v, SeqV) and v.kind == "str":
                return StrV(join_fn(v.q))
            if isinstance(v, str):        # opaque message
                return "<message>"
        return super().ev_Call(p, e)

    def method_call(s, p, recv, meth, args, kwargs, node):
        if isinstance(recv, NameMapV) and meth == "get" and len(args) == 1:
            tok = s.unwrap("str", args[0])
            r = lookup(recv.seq, tok)
            p.pc.append(z3.Or(r == NONE, z3.And(z3.Contains(recv.seq, z3.Unit(r)), p.heap[recv.namekey][r] == tok, s.schema.is_instance(r, recv.elemcls))))
            return RefV(r, recv.elemcls)
        if isinstance(recv, FactoryV) and meth == "construct" and recv.which == "hedge":
            tok = s.unwrap("str", args[0])
            h = s.fresh(Ref, "hedge")
            p.pc += [h != NONE, cls_of(h) == z3.If(tok == strc("any"), s.schema.ids["Any"], s.schema.ids["Hedge"]), hedge_tok(h) == tok]
            return RefV(h, "Hedge")
        if isinstance(recv, StrV):
            if meth == "split" and not args:
                return SeqV(split_fn(recv.t), "str")
            if meth == "find" and args == ["#"]:
                i = find_hash(recv.t)
                p.pc.append(i >= -1)
                return Num(X(xr.F, xr.I0, z3.ToReal(i)), False, True, True)
        return super().method_call(p, recv, meth, args, kwargs, node)

    def contains(s, p, item, coll, e):
        if isinstance(coll, FactoryV) and coll.which == "hedge":
            return is_hedge(s.unwrap("str", item))
        return super().contains(p, item, coll, e)

    def ev_Subscript(s, p, e):
        if isinstance(e.value, ast.Call):          # never evaluate a call twice (it may pop / allocate): the generic handler evaluates it
            return super().ev_Subscript(p, e)
        base = s.ev(p, e.value)
        if isinstance(base, StrV) and isinstance(e.slice, ast.Slice) and e.slice.step is None and e.slice.upper is not None:
            lo = s.ev(p, e.slice.lower) if e.slice.lower is not None else 0
            if lo != 0:
                raise Unsupported("string slice with a lower bound")
            hi = s.num(s.ev(p, e.slice.upper), e)
            return StrV(prefix_fn(base.t, z3.ToInt(hi.x.v)))
        return super().ev_Subscript(p, e)

    def binop(s, op, l, r, e, p):
        if isinstance(op, (ast.BitAnd, ast.BitOr)) and (isinstance(l, (SeqV, RefV)) or isinstance(r, (SeqV, RefV))):
            # a list/deque/object combined with an int by a bit operator: TypeError at run time
            s.oblige(f"safety/line{e.lineno - s.fn_line}:operands of `{ast.unparse(e)}` support the operator (no TypeError)", p, z3.BoolVal(False))
            return 0
        if isinstance(op, ast.Add) and isinstance(l, SeqV) and isinstance(r, SeqV):
            kl, kr = l.kind, r.kind
            kind = kl if kl == kr else "ref:" + s.common_base(kl[4:], kr[4:])
            return SeqV(z3.Concat(l.q, r.q), kind)
        return super().binop(op, l, r, e, p)

    def common_base(s, a, b):
        for c in s.src.mro(a):
            if c in s.src.mro(b):
                return c
        raise Unsupported(f"no common base of {a} and {b}")

    def truth(s, v, node, p=None):
        if v == ("emptylist",):
            return z3.BoolVal(False)
        return super().truth(v, node, p)
