"""Heap layer of pyvc (DESIGN 5): symbolic execution of the real AST of object-manipulating functions.

* Boogie-style heap: one z3 array per field key (`Class.field`), `Ref` an uninterpreted sort, dynamic class tag cls_of.
* Lists are values held in fields (z3 sequences); assumption A-LISTVAL: a list object is never shared between two
  fields (constructors copy with list(...)); `x.f.append(v)` is the heap update f[x] := f[x] ++ [v].
* Activated terms are immutable values (term, cleaned degree, implication) - A-ACTVAL (the code never mutates an
  Activated that is stored in a fuzzy output; grouped_terms works on fresh copies).
* Numbers are extended reals stored as the datatype XR.
* Calls: interface contracts (pure UF: hedge_fn, compute_fn, membership_fn, ...), function contracts (sidecar objects),
  `inline` helpers, else Unsupported.  A call that may raise records a terminated path in `self.raised` and the main path
  continues under the no-raise condition.
* Loops: invariants from the sidecar keyed by loop ordinal (init / preserved / use); havoc sets are computed from the AST.
* Implicit safety obligations: attribute of None, pop from empty, operand types.
"""
import ast
import math
import z3
from . import xreal as xr
from .xreal import X
from .numexec import NumExec, Num, Bool, Obj, Unsupported, Path, raised_name

Ref = z3.DeclareSort("Ref")
Str = z3.DeclareSort("Str")
NONE = z3.Const("None", Ref)
XR = z3.Datatype("XR"); XR.declare("mk_xr", ("x_nan", z3.BoolSort()), ("x_inf", z3.IntSort()), ("x_v", z3.RealSort())); XR = XR.create()
Act = z3.Datatype("Act"); Act.declare("mk_act", ("a_term", Ref), ("a_degree", XR), ("a_impl", Ref)); Act = Act.create()
cls_of = z3.Function("cls_of", Ref, z3.IntSort())
alloc = z3.Function("alloc", Ref, z3.IntSort())      # ghost allocation time: objects created by the code under verification are newer than all others
NOW0 = z3.Int("now0")

BATCH = z3.Int("BATCH")       # ghost: number of rows of a data value (1 = plain scalar processing); always >= 1
SeqRef, SeqAct, SeqStr, SeqXR = z3.SeqSort(Ref), z3.SeqSort(Act), z3.SeqSort(Str), z3.SeqSort(XR)


def x2xr(x):
    """canonical datatype value of an extended real (one representation per value, so that == on XR is value identity)"""
    if z3.is_app_of(x.nan, z3.Z3_OP_DT_ACCESSOR) and z3.is_app_of(x.inf, z3.Z3_OP_DT_ACCESSOR) and z3.is_app_of(x.v, z3.Z3_OP_DT_ACCESSOR) \
            and x.nan.arg(0).eq(x.inf.arg(0)) and x.nan.arg(0).eq(x.v.arg(0)):
        return x.nan.arg(0)          # xr2x(t) converted back: t itself (t is canonical by the heap invariant)
    inf = z3.If(x.nan, 0, x.inf)
    return XR.mk_xr(x.nan, inf, z3.If(z3.Or(x.nan, inf != 0), z3.RealVal(0), x.v))


def canon(t):
    """heap invariant for stored numbers: canonical representation"""
    return z3.And(XR.x_inf(t) >= -1, XR.x_inf(t) <= 1, z3.Implies(XR.x_nan(t), z3.And(XR.x_inf(t) == 0, XR.x_v(t) == 0)),
                  z3.Implies(XR.x_inf(t) != 0, XR.x_v(t) == 0))


def xr2x(t):
    return X(XR.x_nan(t), XR.x_inf(t), XR.x_v(t))


str_contains = z3.Function("str_contains", Str, Str, z3.BoolSort())       # `needle in text` on abstract strings
_STR = {}


def strc(text):
    """distinct constant of sort Str for a Python string literal"""
    if text not in _STR:
        _STR[text] = z3.Const("str:" + text, Str)
    return _STR[text]


def str_distinct():
    cs = list(_STR.values())
    return [z3.Distinct(*cs)] if len(cs) > 1 else []


class RefV:
    __slots__ = ("r", "cls")

    def __init__(s, r, cls):
        s.r, s.cls = r, cls


class SeqV:
    """list value; kind: 'ref:<Class>' | 'act' | 'str' | 'num'"""
    __slots__ = ("q", "kind", "rev")

    def __init__(s, q, kind, rev=False):
        s.q, s.kind, s.rev = q, kind, rev


class AliasV:
    """a local name bound directly to a list-valued field (`xs = obj.f`): the same list object, so reads see the field's current
    value and mutations through the local write through to the field"""
    __slots__ = ("r", "key", "cls")

    def __init__(s, r, key, cls):
        s.r, s.key, s.cls = r, key, cls


class ActV:
    __slots__ = ("a",)

    def __init__(s, a):
        s.a = a


class StrV:
    __slots__ = ("t", "opts")

    def __init__(s, t, opts=None):
        s.t = t
        s.opts = opts        # [(condition, python str)] when the value is one of finitely many literals


class Exc:
    def __init__(s, name):
        s.name = name


SORTS = {"bool": z3.BoolSort(), "num": XR, "int": z3.IntSort(), "str": Str, "act": Act}


def sort_of(kind):
    if kind.startswith("ref"):
        return Ref
    if kind.startswith("seq:"):
        return z3.SeqSort(sort_of(kind[4:]))
    return SORTS[kind]


class Schema:
    """field table of the sidecar: 'Class.field' -> kind; class ids from the source hierarchy"""

    def __init__(s, src, fields, classes):
        s.src, s.fields = src, dict(fields)
        s.ids = {c: i + 1 for i, c in enumerate(classes)}
        s.classes = list(classes)

    def field_key(s, cls, attr):
        for c in s.src.mro(cls):
            if f"{c}.{attr}" in s.fields:
                return f"{c}.{attr}"
        return None

    def sub_ids(s, cls):
        return [i for c, i in s.ids.items() if cls in s.src.mro(c)]

    def is_instance(s, r, cls):
        ids = s.sub_ids(cls)
        return z3.Or(*[cls_of(r) == i for i in ids]) if ids else z3.BoolVal(False)

    def concrete_subclasses(s, cls):
        return [c for c in s.classes if cls in s.src.mro(c)]


class HPath(Path):
    def __init__(s, env, pc, heap, known=None):
        super().__init__(env, pc)
        s.heap = dict(heap)
        s.known = dict(known or {})     # z3 term id -> refined static class

    def fork(s):
        return HPath(s.env, s.pc, s.heap, s.known)


def _guard(fn):
    """a sidecar callback written against the locals / value kinds of the source it was written for: when the source under check no longer has them (a local was
    removed, a list became a number) the sidecar does not apply - that is `outside the verified subset` (undecided), never a crash of the checker"""
    if fn is None or getattr(fn, "_guarded", False):
        return fn

    def wrapped(*a, **k):
        try:
            return fn(*a, **k)
        except (KeyError, AttributeError, TypeError, IndexError) as ex:
            raise Unsupported(f"the sidecar invariant does not apply to this source ({type(ex).__name__}: {ex})")
    wrapped._guarded = True
    return wrapped


class LoopSpec:
    def __init__(s, inv, elem=None, facts=None, havoc_heap=None, name=None, modifies=None, ghost=None, inst=None, cases=None):
        s.cases = cases              # state machines: [{local: concrete value}] - the loop head and exit are split into one path per case, so that
                                     # the control variable stays a concrete Python value (bit tests evaluate) and the invariant is a map case -> predicate
        s.inst = _guard(inst)        # (ex, path, k, seq) -> [z3 Bool]: further instances of a universally quantified invariant (whose goal
                                     # is proved for a skolem index); used ONLY where the invariant is assumed (loop head, loop exit)
        s.ghost = _guard(ghost)      # (ex, path, k, seq) -> [z3 Bool]: ghost assignments at the end of iteration k (definitions of
                                     # history functions at index k / k+1 only; the invariant at k may mention them below that only)
        s.modifies = modifies        # heap field keys the loop may change; every other havocked field is framed automatically
        s.inv = _guard(inv)          # (ex, path, k, seq) -> z3 Bool ; k = number of completed iterations
        s.facts = _guard(facts)      # (ex, path, k, seq) -> [z3 Bool] ground facts (wf of element k, ghost unfoldings)
        s.havoc_heap = havoc_heap    # extra heap fields to havoc (those written by callees' contracts)
        s.name = name


class Contract:
    """function contract used at call sites. Subclasses implement call()."""
    modifies = ()        # heap field keys possibly written

    def call(s, ex, p, recv, args, kwargs, node):
        raise NotImplementedError


class HeapExec(NumExec):
    def __init__(s, src, module, schema, ax=None, contracts=None, interfaces=None, inline=(), loops=None, fnname="?"):
        super().__init__(src, module, ax or xr.Ax())
        s.schema = schema
        s.contracts = contracts or {}      # 'Class.method' -> Contract
        s.interfaces = interfaces or {}    # ('RootClass','method') -> callable(ex, p, recvRef, args) -> value
        s.inline = set(inline)             # 'Class.method' executed in place
        s.loops = loops or {}              # ordinal -> LoopSpec
        s.obls = []                        # [(name, pc, goal, meta)]
        s.raised = []                      # [(path, exc name)]  terminated paths
        s.loop_ord = -1
        s.fnname = fnname
        s.fresh_n = 0
        s.loop_index = {}
        s.entry = {}                       # loop ordinal -> path at loop entry
        s.cur_k = {}                       # loop ordinal -> ghost index of the arbitrary iteration (for invariants of inner loops)
        s.writes = set()                   # heap field keys written (frame check)
        s.call_log = []
        s.witness = {}                     # skolem witnesses of the goal (DESIGN 5.6): contracts instantiate their postconditions at these
        s.modify_calls = []
        s.trigger_calls = []
        s.cur_owner = None

    # ------------------------------------------------------------------ obligations
    def oblige(s, name, p, goal, meta=None):
        s.obls.append((name, list(p.pc), goal, meta or {}))

    def fresh(s, sort, hint="v"):
        s.fresh_n += 1
        return z3.Const(f"{hint}!{s.fresh_n}", sort)

    def local(s, p, name):
        """value of a local for sidecar invariants (aliases of list fields are resolved to the field's current value)"""
        v = p.env[name]
        return s.heap_get(p, v.key, v.r) if isinstance(v, AliasV) else v

    def now(s, p):
        if "__now__" not in p.env:
            p.env["__now__"] = NOW0
        return p.env["__now__"]

    def allocate(s, p, hint="obj"):
        """a new object: distinct from None and newer than every object that existed before (ghost `alloc`)"""
        r = s.fresh(Ref, hint)
        t = s.now(p)
        p.pc += [r != NONE, alloc(r) == t]
        p.env["__now__"] = t + 1
        return r

    # ------------------------------------------------------------------ values
    def wrap(s, kind, t):
        if kind == "bool":
            return Bool(t, False, True)
        if kind == "num":
            return Num(xr2x(t), False, False)
        if kind == "int":
            return Num(X(xr.F, xr.I0, z3.ToReal(t)), False, True, True)
        if kind == "str":
            return StrV(t)
        if kind == "act":
            return ActV(t)
        if kind.startswith("ref"):
            return RefV(t, kind[4:] if ":" in kind else None)
        if kind.startswith("seq:"):
            return SeqV(t, kind[4:])
        raise Unsupported(f"kind {kind}")

    def unwrap(s, kind, v, node=None):
        if kind == "bool":
            if isinstance(v, (Bool, bool)):
                return s.boo(v, node).b
            if isinstance(v, Num):      # array(False) etc.
                return z3.Or(v.x.nan, v.x.inf != 0, v.x.v != 0)
        if kind == "num":
            return x2xr(s.num(v, node).x)
        if kind == "int":
            n = s.num(v, node)
            return z3.ToInt(n.x.v)
        if kind == "str":
            if isinstance(v, str):
                return strc(v)
            if isinstance(v, StrV):
                return v.t
        if kind == "act" and isinstance(v, ActV):
            return v.a
        if kind.startswith("ref"):
            if v is None:
                return NONE
            if isinstance(v, RefV):
                return v.r
        if kind.startswith("seq:") and isinstance(v, SeqV):
            if v.rev:
                raise Unsupported("storing a reversed view")
            return v.q
        raise Unsupported(f"cannot store {type(v).__name__} as {kind} at line {getattr(node, 'lineno', '?')}")

    def heap_get(s, p, key, r):
        t = z3.Select(p.heap[key], r)
        if s.schema.fields[key] == "num":
            p.pc.append(canon(t))          # heap invariant, instantiated at the term that is read
        return s.wrap(s.schema.fields[key], t)

    def heap_set(s, p, key, r, v, node=None):
        s.writes.add(key)
        p.heap[key] = z3.Store(p.heap[key], r, s.unwrap(s.schema.fields[key], v, node))

    def static_cls(s, p, v):
        if isinstance(v, RefV):
            return p.known.get(v.r.get_id(), v.cls)
        return None

    # ------------------------------------------------------------------ truthiness (Python protocol read from the source)
    def truth(s, v, node, p=None):
        if isinstance(v, RefV):
            cls = (p.known.get(v.r.get_id(), v.cls) if p is not None else v.cls)
            notnone = v.r != NONE
            if cls:
                for c in s.src.mro(cls):
                    m = s.src.module_of_class(c)
                    if m and s.src.has_func(m, f"{c}.__bool__"):
                        raise Unsupported(f"__bool__ on {c}")
                    if m and s.src.has_func(m, f"{c}.__len__"):
                        if p is None:
                            raise Unsupported("truthiness through __len__ needs the path")
                        q = p.fork(); q.pc.append(notnone)    # __len__ is only called on an object (None is falsy without it)
                        ln = s.call_inline(q, v, c, "__len__", [], {}, node)
                        return z3.And(notnone, s.num(ln, node).x.v > 0)
            return notnone
        if isinstance(v, SeqV):
            return z3.Length(v.q) > 0
        if isinstance(v, StrV):
            return v.t != strc("")
        if isinstance(v, ActV):
            return z3.BoolVal(True)
        return super().truth(v, node)

    # ------------------------------------------------------------------ expressions
    def ev_Name(s, p, e):
        if e.id in p.env:
            v = p.env[e.id]
            if isinstance(v, AliasV):
                return s.heap_get(p, v.key, v.r)
            return v
        if e.id in ("True", "False", "None"):
            return {"True": True, "False": False, "None": None}[e.id]
        if e.id in ("float", "int", "bool", "str"):
            return ("builtin", e.id)
        return super().ev_Name(p, e)

    def ev_Constant(s, p, e):
        return e.value

    def attr_of(s, p, base, attr, node):
        """attribute read with property resolution and dynamic dispatch merged by ite"""
        if isinstance(base, ActV):
            if attr == "term":
                return RefV(Act.a_term(base.a), "Term")
            if attr == "degree":
                return Num(xr2x(Act.a_degree(base.a)), False, False)
            if attr == "implication":
                return RefV(Act.a_impl(base.a), "TNorm")
            raise Unsupported(f"Activated.{attr}")
        if not isinstance(base, RefV):
            raise Unsupported(f"attribute {attr} of {type(base).__name__} at line {node.lineno}")
        cls = s.static_cls(p, base)
        if cls is None:
            raise Unsupported(f"attribute {attr} of an untyped reference at line {node.lineno}")
        s.oblige(f"safety/line{node.lineno - s.fn_line}:attribute `{attr}` of None", p, base.r != NONE)
        # candidates: concrete subclasses (dynamic type) grouped by how `attr` resolves
        subs = s.schema.concrete_subclasses(cls) or [cls]
        groups, missing = {}, []
        for c in subs:
            try:
                res = s.resolve_attr(c, attr)
            except Unsupported:
                missing.append(c)
                continue
            groups.setdefault(res, []).append(c)
        if not groups:
            raise Unsupported(f"attribute {cls}.{attr} is not in the schema (line {node.lineno})")
        if missing:       # the dynamic class must be one that has the attribute (AttributeError otherwise)
            s.oblige(f"safety/line{node.lineno - s.fn_line}:object has attribute `{attr}`", p, z3.Not(z3.Or(*[cls_of(base.r) == s.schema.ids[c] for c in missing])))
        if len(groups) == 1:
            return s.read_resolved(p, base, next(iter(groups)), node)
        val = None
        for res, cs in groups.items():
            v = s.read_resolved(p, base, res, node)
            cond = z3.Or(*[cls_of(base.r) == s.schema.ids[c] for c in cs])
            val = v if val is None else s.merge(cond, v, val, node)
        return val

    def resolve_attr(s, cls, attr):
        """('field', key) | ('prop', owner) | ('classattr', owner)"""
        for c in s.src.mro(cls):
            m = s.src.module_of_class(c)
            if m and s.src.has_func(m, f"{c}.{attr}"):
                try:
                    s.src.func(m, f"{c}.{attr}", "getter")
                    return ("prop", c)
                except KeyError:
                    return ("method", c)
            if f"{c}.{attr}" in s.schema.fields:
                return ("field", f"{c}.{attr}")
        raise Unsupported(f"attribute {cls}.{attr} is not in the schema")

    def read_resolved(s, p, base, res, node):
        kind, where = res
        if kind == "field":
            return s.heap_get(p, where, base.r)
        if kind == "prop":
            attr = node.attr if isinstance(node, ast.Attribute) else None
            return s.call_inline(p, base, where, attr, [], {}, node, which="getter")
        raise Unsupported(f"bound method as a value at line {node.lineno}")

    def merge(s, c, a, b, node):
        if isinstance(a, RefV) and isinstance(b, RefV):
            return RefV(z3.If(c, a.r, b.r), a.cls if a.cls == b.cls else None)
        if isinstance(a, (Bool, bool)) and isinstance(b, (Bool, bool)):
            return Bool(z3.If(c, s.boo(a, node).b, s.boo(b, node).b), False, True)
        if isinstance(a, SeqV) and isinstance(b, SeqV):
            return SeqV(z3.If(c, a.q, b.q), a.kind)
        if isinstance(a, (StrV, str)) and isinstance(b, (StrV, str)):
            oa = [(z3.BoolVal(True), a)] if isinstance(a, str) else a.opts
            ob = [(z3.BoolVal(True), b)] if isinstance(b, str) else b.opts
            opts = None
            if oa is not None and ob is not None:
                opts = [(z3.And(c, g), t) for g, t in oa] + [(z3.And(z3.Not(c), g), t) for g, t in ob]
            return StrV(z3.If(c, s.unwrap("str", a), s.unwrap("str", b)), opts)
        if a is None and isinstance(b, RefV):
            return RefV(z3.If(c, NONE, b.r), b.cls)
        if b is None and isinstance(a, RefV):
            return RefV(z3.If(c, a.r, NONE), a.cls)
        if isinstance(a, ActV) and isinstance(b, ActV):
            return ActV(z3.If(c, a.a, b.a))
        na, nb = s.num(a, node), s.num(b, node)
        return Num(xr.ite(c, na.x, nb.x), na.data or nb.data, na.py and nb.py, na.isint and nb.isint)

    def ev_Attribute(s, p, e):
        if isinstance(e.value, ast.Name) and e.value.id in ("np", "settings") and e.value.id not in p.env:
            return super().ev_Attribute(p, e)
        # class constants such as Rule.AND
        if isinstance(e.value, ast.Name) and e.value.id not in p.env and s.src.module_of_class(e.value.id):
            c = s.class_const(e.value.id, e.attr)
            if c is not NotImplemented:
                return c
        # enum members such as WeightedDefuzzifier.Type.Tsukamoto -> their index in declaration order;  Class.method.__name__ -> the name
        dotted = ast.unparse(e)
        parts = dotted.split(".")
        if len(parts) >= 3 and parts[0] not in p.env and all(x.isidentifier() for x in parts):
            if parts[-1] == "__name__" and s.src.module_of_class(parts[0]) and s.src.has_func(s.src.module_of_class(parts[0]), ".".join(parts[:-1])):
                return parts[-2]
            m = s.src.module_of_class(parts[0])
            cq = ".".join(parts[:-1])
            if m and s.src.has_cls(m, cq):
                members = s.enum_members(m, cq)
                if parts[-1] in members:
                    return members.index(parts[-1])
        base = s.ev(p, e.value)
        return s.attr_of(p, base, e.attr, e)

    def enum_members(s, module, cq):
        c = s.src.cls(module, cq)
        if not any("Enum" in ast.unparse(b) for b in c.bases):
            return []
        return [n.targets[0].id for n in c.body if isinstance(n, ast.Assign) and len(n.targets) == 1 and isinstance(n.targets[0], ast.Name)]

    def class_const(s, cname, attr):
        m = s.src.module_of_class(cname)
        for n in s.src.cls(m, cname).body:
            tgt = None
            if isinstance(n, ast.Assign) and len(n.targets) == 1 and isinstance(n.targets[0], ast.Name):
                tgt, val = n.targets[0].id, n.value
            elif isinstance(n, ast.AnnAssign) and isinstance(n.target, ast.Name) and n.value is not None:
                tgt, val = n.target.id, n.value
            if tgt == attr and isinstance(val, ast.Constant):
                return val.value
        return NotImplemented

    def ev_IfExp(s, p, e):
        # each branch is evaluated under its own condition (its safety obligations are guarded by it); a branch with an effect (a pop, a field write, a call that may
        # raise) would have to happen on one side only: outside the subset
        c = s.truth(s.ev(p, e.test), e, p)
        vals = []
        for br, g in ((e.body, c), (e.orelse, z3.Not(c))):
            q = p.fork(); q.pc.append(g)
            nr, nw = len(s.raised), len(s.writes)
            v = s.ev(q, br)
            if (any(q.heap.get(k) is not p.heap.get(k) for k in set(q.heap) | set(p.heap)) or any(q.env.get(k) is not p.env.get(k) for k in set(q.env) | set(p.env))
                    or len(s.raised) != nr or len(s.writes) != nw):
                raise Unsupported(f"conditional expression with an effect in a branch at line {e.lineno}: {ast.unparse(e)[:80]}")
            vals.append(v)
        return s.merge(c, vals[0], vals[1], e)

    def ev_JoinedStr(s, p, e):
        """f-strings made of literals and string constants are evaluated; anything else is an opaque message (A-MSG)"""
        parts = []
        for v in e.values:
            if isinstance(v, ast.Constant) and isinstance(v.value, str):
                parts.append(v.value)
            elif isinstance(v, ast.FormattedValue) and v.format_spec is None and v.conversion == -1:
                try:
                    x = s.ev(p.fork(), v.value)
                except Unsupported:
                    return "<message>"
                if not isinstance(x, str):
                    return "<message>"
                parts.append(x)
            else:
                return "<message>"
        return "".join(parts)

    def ev_BoolOp(s, p, e):
        # `a or b` / `a and b` as values: merged by ite on the truthiness of the left operand.  Later operands are evaluated under
        # the short-circuit guard (their implicit safety obligations hold only when they are reached)
        vals, base = [], len(p.pc)
        known0 = dict(p.known)
        for i, v in enumerate(e.values):
            val = s.ev(p, v)
            vals.append(val)
            if i + 1 < len(e.values):
                t = s.truth(val, e, p)
                ts = z3.simplify(t)
                if (isinstance(e.op, ast.Or) and z3.is_true(ts)) or (isinstance(e.op, ast.And) and z3.is_false(ts)):
                    break          # Python short-circuit: the remaining operands are not evaluated
                p.pc.append(t if isinstance(e.op, ast.And) else z3.Not(t))
                if isinstance(e.op, ast.And):
                    s.refine(p, v, True)
        guards = p.pc[base:]
        del p.pc[base:]
        p.known = known0
        res = vals[-1]
        for v in reversed(vals[:-1]):
            t = s.truth(v, e, p)
            if isinstance(res, (Bool, bool)) and isinstance(v, (Bool, bool)):
                rb = s.boo(res, e).b
                res = Bool(z3.And(t, rb) if isinstance(e.op, ast.And) else z3.Or(t, rb), False, True)
            else:
                try:
                    res = s.merge(t, res, v, e) if isinstance(e.op, ast.And) else s.merge(t, v, res, e)
                except Unsupported:
                    # operands of different types (`stack and stack[-1] != "("`): the value is only usable as a condition - keep its truth
                    rb = s.truth(res, e, p)
                    res = Bool(z3.And(t, rb) if isinstance(e.op, ast.And) else z3.Or(t, rb), False, True)
        return res

    def ev_UnaryOp(s, p, e):
        if isinstance(e.op, ast.Not):
            return Bool(z3.Not(s.truth(s.ev(p, e.operand), e, p)), False, True)
        return super().ev_UnaryOp(p, e)

    def ev_Compare(s, p, e):
        if len(e.ops) == 1:
            op = e.ops[0]
            l, r = s.ev(p, e.left), s.ev(p, e.comparators[0])
            if isinstance(op, (ast.Is, ast.IsNot, ast.Eq, ast.NotEq)):
                neg = isinstance(op, (ast.IsNot, ast.NotEq))
                t = None
                if isinstance(l, RefV) or isinstance(r, RefV):
                    if (l is None or isinstance(l, RefV)) and (r is None or isinstance(r, RefV)):
                        t = (l.r if l is not None else NONE) == (r.r if r is not None else NONE)
                elif isinstance(l, (StrV, str)) and isinstance(r, (StrV, str)):
                    if isinstance(l, str) and isinstance(r, str):
                        return (l != r) if neg else (l == r)
                    t = s.unwrap("str", l) == s.unwrap("str", r)
                elif l is None and r is None:
                    return not neg
                elif isinstance(op, (ast.Is, ast.IsNot)) and (l is None or r is None) and isinstance(r if l is None else l, (SeqV, Num, Bool, StrV, ActV)):
                    return neg          # a list / number / string object is not None
                if t is not None:
                    return Bool(z3.Not(t) if neg else t, False, True)
            if isinstance(op, (ast.In, ast.NotIn)):
                t = s.contains(p, l, r, e)
                return Bool(z3.Not(t) if isinstance(op, ast.NotIn) else t, False, True)
        return super().ev_Compare(p, e)

    def contains(s, p, item, coll, e):
        if isinstance(coll, (set, tuple, list)) and isinstance(item, (StrV, str)):
            return z3.Or(*[s.unwrap("str", item) == s.unwrap("str", c) for c in coll])
        if isinstance(coll, StrV) and isinstance(item, str):       # substring test on an abstract text
            return str_contains(coll.t, strc(item))
        raise Unsupported(f"`in` at line {e.lineno}")

    def ev_NamedExpr(s, p, e):
        v = s.ev(p, e.value)
        p.env[e.target.id] = v
        return v

    def ev_Set(s, p, e):
        return {s.ev(p, x) for x in e.elts}

    def ev_List(s, p, e):
        if not e.elts:
            return ("emptylist",)
        raise Unsupported(f"list literal at line {e.lineno}")

    def ev_Subscript(s, p, e):
        base = s.ev(p, e.value)
        if isinstance(base, SeqV):
            if isinstance(e.slice, ast.UnaryOp) and isinstance(e.slice.op, ast.USub) and isinstance(e.slice.operand, ast.Constant):
                k = e.slice.operand.value
                s.oblige(f"safety/line{e.lineno - s.fn_line}:index -{k} within the list", p, z3.Length(base.q) >= k)
                return s.wrap(base.kind, base.q[z3.Length(base.q) - k])
            idx = s.num(s.ev(p, e.slice), e)
            i = z3.ToInt(idx.x.v)
            s.oblige(f"safety/line{e.lineno - s.fn_line}:list index in range", p, z3.And(i >= -z3.Length(base.q), i < z3.Length(base.q)))
            return s.wrap(base.kind, base.q[z3.If(i >= 0, i, z3.Length(base.q) + i)])
        if isinstance(base, tuple):
            k = s.ev(p, e.slice)
            if isinstance(k, int):
                return base[k]
        raise Unsupported(f"subscript at line {e.lineno}: {ast.unparse(e)}")

    # ------------------------------------------------------------------ calls
    def ev_Call(s, p, e):
        f = e.func
        # obj.__getattribute__(name)(args): dynamic method selection among finitely many literal names
        if isinstance(f, ast.Call) and isinstance(f.func, ast.Attribute) and f.func.attr == "__getattribute__" and len(f.args) == 1:
            recv = s.ev(p, f.func.value)
            name = s.ev(p, f.args[0])
            args = [s.ev(p, a) for a in e.args]
            if isinstance(name, str):
                return s.method_call(p, recv, name, args, {}, e)
            if isinstance(name, StrV) and name.opts:
                val = None
                for g, nm in name.opts:
                    v = s.method_call(p, recv, nm, args, {}, e)
                    val = v if val is None else s.merge(g, v, val, e)
                return val
            raise Unsupported(f"__getattribute__ with a non-literal name at line {e.lineno}")
        if isinstance(f, ast.Name):
            n = f.id
            if n == "isinstance":
                v = s.ev(p, e.args[0])
                cs = e.args[1].elts if isinstance(e.args[1], ast.Tuple) else [e.args[1]]
                names = [c.id if isinstance(c, ast.Name) else c.attr for c in cs]
                if isinstance(v, RefV):
                    return Bool(z3.And(v.r != NONE, z3.Or(*[s.schema.is_instance(v.r, c) for c in names])), False, True)
                if isinstance(v, ActV):
                    return "Activated" in names or "Term" in names
                raise Unsupported(f"isinstance of {type(v).__name__} at line {e.lineno}")
            if n == "reversed":
                v = s.ev(p, e.args[0])
                if isinstance(v, SeqV):
                    return SeqV(v.q, v.kind, rev=not v.rev)
            if n == "iter":
                return s.ev(p, e.args[0])
            if n == "len":
                v = s.ev(p, e.args[0])
                if isinstance(v, SeqV):
                    return Num(X(xr.F, xr.I0, z3.ToReal(z3.Length(v.q))), False, True, True)
                if isinstance(v, RefV):
                    cls = s.static_cls(p, v)
                    return s.call_inline(p, v, s.owner_of(cls, "__len__"), "__len__", [], {}, e)
            if n == "bool":
                return Bool(s.truth(s.ev(p, e.args[0]), e, p), False, True)
            if n in ("scalar", "array") and len(e.args) == 1:
                v = s.ev(p, e.args[0])
                if isinstance(v, (Bool, bool)):      # array(False), array(degree > 0.0): kept as a truth value
                    return s.boo(v, e)
                return super().ev_Call(p, e)
            if n in ("RuntimeError", "ValueError", "SyntaxError", "TypeError", "KeyError", "IndexError"):
                return Exc(n)
            if n == "str":
                return "<message>"
            if n == "list" and not e.args:
                return ("emptylist",)
            # constructor of a schema class with a contract
            if n in s.contracts and isinstance(s.contracts[n], Contract):
                args = [s.ev(p, a) for a in e.args]
                kwargs = {k.arg: s.ev(p, k.value) for k in e.keywords}
                return s.contracts[n].call(s, p, None, args, kwargs, e)
        if (isinstance(f, ast.Attribute) and f.attr == "__init__" and isinstance(f.value, ast.Call) and isinstance(f.value.func, ast.Name)
                and f.value.func.id == "super" and s.cur_owner and isinstance(p.env.get("self"), RefV)):
            me = p.env["self"]
            mro = s.src.mro(s.static_cls(p, me))
            for c in mro[mro.index(s.cur_owner) + 1:]:
                m = s.src.module_of_class(c)
                if m and s.src.has_func(m, f"{c}.__init__"):
                    s.call_inline(p, me, c, "__init__", [s.ev(p, a) for a in e.args], {k.arg: s.ev(p, k.value) for k in e.keywords}, e)
                    return None
            return None
        if isinstance(f, ast.Attribute) and not (isinstance(f.value, ast.Name) and f.value.id in ("np", "Op") and f.value.id not in p.env):
            if not (isinstance(f.value, ast.Call) and isinstance(f.value.func, ast.Name) and f.value.func.id == "super"):
                recv = s.ev(p, f.value)
                args = [s.ev(p, a) for a in e.args]
                kwargs = {k.arg: s.ev(p, k.value) for k in e.keywords}
                return s.method_call(p, recv, f.attr, args, kwargs, e)
        return super().ev_Call(p, e)

    def owner_of(s, cls, meth):
        for c in s.src.mro(cls):
            m = s.src.module_of_class(c)
            if m and s.src.has_func(m, f"{c}.{meth}"):
                return c
        raise Unsupported(f"{cls}.{meth} not found")

    def method_call(s, p, recv, meth, args, kwargs, node):
        if isinstance(recv, SeqV):
            return s.seq_method(p, recv, meth, args, node)
        if isinstance(recv, RefV):
            cls = s.static_cls(p, recv)
            if cls is None:
                raise Unsupported(f"call .{meth} on an untyped reference at line {node.lineno}")
            s.oblige(f"safety/line{node.lineno - s.fn_line}:call `.{meth}` on None", p, recv.r != NONE)
            for c in s.src.mro(cls):
                if (c, meth) in s.interfaces:
                    return s.interfaces[(c, meth)](s, p, recv, args, kwargs, node)
            owner = s.owner_of(cls, meth)
            # dynamic dispatch must be unambiguous for the possible dynamic classes
            owners = {s.owner_of(c, meth) for c in (s.schema.concrete_subclasses(cls) or [cls])}
            if len(owners) > 1:
                raise Unsupported(f"dynamic dispatch of {cls}.{meth} over {sorted(owners)} at line {node.lineno}")
            owner = owners.pop()
            q = f"{owner}.{meth}"
            if q in s.contracts:
                s.call_log.append(q)
                return s.contracts[q].call(s, p, recv, args, kwargs, node)
            if q in s.inline:
                return s.call_inline(p, recv, owner, meth, args, kwargs, node)
            raise Unsupported(f"call {q} has neither contract nor inline mark (line {node.lineno})")
        if isinstance(recv, (Num, Bool)) and meth in ("any", "all", "item", "squeeze", "copy") and not args:
            # on a unit scalar these are the identity; any()/all() mix the rows of a batch (not element-wise)
            if meth in ("any", "all"):
                s.nonoblivious.append((node.lineno, f".{meth}() reduces over the rows of a batch"))
            return recv
        raise Unsupported(f"method .{meth} on {type(recv).__name__} at line {node.lineno}")

    def call_inline(s, p, recv, owner, meth, args, kwargs, node, which=None):
        """execute a small callee body in place on the current path (single outcome required)"""
        m = s.src.module_of_class(owner)
        fn = s.src.func(m, f"{owner}.{meth}", which)
        if s.depth > 6:
            raise Unsupported("inline depth")
        sub = type(s)(s.src, m, s.schema, s.ax, s.contracts, s.interfaces, s.inline, {}, fnname=f"{owner}.{meth}")
        for k_, v_ in s.__dict__.items():          # extension state of executor subclasses is shared with inlined callees
            if k_ not in sub.__dict__:
                sub.__dict__[k_] = v_
        sub.depth = s.depth + 1
        sub.fn_line = fn.lineno
        sub.cur_owner = owner
        sub.witness = s.witness
        sub.modify_calls = s.modify_calls
        sub.trigger_calls = s.trigger_calls
        sub.fresh_n = s.fresh_n + 1000 * (s.depth + 1)
        names = [a.arg for a in fn.args.args]
        env = {names[0]: recv}
        defaults = dict(zip(names[len(names) - len(fn.args.defaults):], fn.args.defaults))
        for i, nm in enumerate(names[1:]):
            if i < len(args):
                env[nm] = args[i]
            elif nm in kwargs:
                env[nm] = kwargs[nm]
            elif nm in defaults:
                env[nm] = sub.ev(HPath({}, [], {}), defaults[nm])
            else:
                raise Unsupported(f"missing argument {nm}")
        q = HPath(env, p.pc, p.heap, p.known)
        outs = sub.block([q], [st for st in fn.body])
        for nm, pc, goal, meta in sub.obls:
            s.obls.append((f"{nm} [in {owner}.{meth}]", pc, goal, meta))
        s.raised += sub.raised
        s.writes |= sub.writes
        s.inlined.add(f"{m}.{owner}.{meth}")
        rets = []
        for q2, sig in outs:
            if sig is not None and sig[0] == "raise":
                s.raised.append((q2, sig[1]))
            else:
                rets.append((q2, sig[1] if sig else None))
        if not rets:
            raise Unsupported(f"inlined {owner}.{meth} never returns")
        # merge returning paths (values by ite, heaps by ite)
        q0, v0 = rets[-1]
        heap, val = dict(q0.heap), v0
        conds = []
        for q2, v2 in reversed(rets[:-1]):
            extra = q2.pc[len(p.pc):]
            c = z3.And(*extra) if extra else z3.BoolVal(True)
            val = v2 if (val is None and v2 is None) else s.merge(c, v2, val, node)
            for k in heap:
                if not heap[k].eq(q2.heap[k]):
                    heap[k] = z3.If(c, q2.heap[k], heap[k])
        if len(rets) > 1:
            # the main path continues under "some returning path was taken"
            alts = [z3.And(*q2.pc[len(p.pc):]) if q2.pc[len(p.pc):] else z3.BoolVal(True) for q2, _ in rets]
            p.pc.append(z3.Or(*alts))
        else:
            p.pc[:] = q0.pc
        p.heap = heap
        return val

    def seq_method(s, p, recv, meth, args, node):
        raise Unsupported(f"list method .{meth} used as an expression at line {node.lineno}")

    def np_call(s, p, name, e):
        if name == "size" and len(e.args) == 1:
            v = s.ev(p, e.args[0])
            if isinstance(v, (Num, Bool)) and v.data:
                return Num(X(xr.F, xr.I0, z3.ToReal(BATCH)), False, True, True)      # number of rows of the batch being processed
            return 1
        return super().np_call(p, name, e)

    # ------------------------------------------------------------------ statements
    def stmt(s, p, n):
        if isinstance(n, ast.Expr) and isinstance(n.value, ast.Call):
            f = n.value.func
            # settings.logger.*(...) : dropped (A-LOG)
            if isinstance(f, ast.Attribute) and ast.unparse(f).startswith("settings.logger."):
                return [(p, None)]
            # list mutation through a field:  x.f.append(v) / x.f.clear() / x.f.extend(seq)
            if isinstance(f, ast.Attribute) and f.attr in ("append", "clear", "extend", "insert") and isinstance(f.value, ast.Attribute):
                owner = s.ev(p, f.value.value)
                cur = s.attr_of(p, owner, f.value.attr, f.value)
                if isinstance(cur, SeqV) and isinstance(owner, RefV):
                    key = s.resolve_attr(s.static_cls(p, owner), f.value.attr)
                    if key[0] != "field":
                        raise Unsupported(f"list mutation through a property at line {n.lineno}")
                    if f.attr == "clear":
                        new = z3.Empty(cur.q.sort())
                    elif f.attr == "insert":
                        if not (len(n.value.args) == 2 and isinstance(n.value.args[0], ast.Constant) and n.value.args[0].value == 0):
                            raise Unsupported(f"list.insert at another index than the constant 0 at line {n.lineno}")
                        v = s.ev(p, n.value.args[1])
                        new = z3.Concat(z3.Unit(s.unwrap(cur.kind, v, n)), cur.q)
                    elif f.attr == "append":
                        v = s.ev(p, n.value.args[0])
                        uv = s.unwrap(cur.kind, v, n)
                        new = z3.Concat(cur.q, z3.Unit(uv))
                        # ground consequences of the append (valid lemmas about sequences; z3's sequence solver is unstable when it has to derive them itself):
                        # the length, the last element, and the old elements at the goal's skolem indices
                        ln = z3.Length(cur.q)
                        p.pc += [z3.Length(new) == ln + 1, new[ln] == uv]
                        for j in list(getattr(s, "skolems", [])) + [ln - 1]:
                            p.pc.append(z3.Implies(z3.And(j >= 0, j < ln), new[j] == cur.q[j]))
                    else:
                        v = s.ev(p, n.value.args[0])
                        if not isinstance(v, SeqV):
                            raise Unsupported(f"extend with {type(v).__name__}")
                        new = z3.Concat(cur.q, v.q)
                    s.writes.add(key[1])
                    p.heap[key[1]] = z3.Store(p.heap[key[1]], owner.r, new)
                    return [(p, None)]
            # mutation through a local that aliases a list-valued field
            if isinstance(f, ast.Attribute) and f.attr in ("append", "clear", "extend") and isinstance(f.value, ast.Name) and isinstance(p.env.get(f.value.id), AliasV):
                al = p.env[f.value.id]
                cur = s.heap_get(p, al.key, al.r)
                if f.attr == "clear":
                    new = z3.Empty(cur.q.sort())
                elif f.attr == "append":
                    new = z3.Concat(cur.q, z3.Unit(s.unwrap(cur.kind, s.ev(p, n.value.args[0]), n)))
                else:
                    new = z3.Concat(cur.q, s.ev(p, n.value.args[0]).q)
                s.writes.add(al.key)
                p.heap[al.key] = z3.Store(p.heap[al.key], al.r, new)
                return [(p, None)]
            # local list mutation: xs.append(v)
            if isinstance(f, ast.Attribute) and f.attr in ("append", "clear") and isinstance(f.value, ast.Name) and isinstance(p.env.get(f.value.id), (SeqV, tuple)):
                cur = p.env[f.value.id]
                if f.attr == "clear":
                    if isinstance(cur, SeqV):
                        p.env[f.value.id] = SeqV(z3.Empty(cur.q.sort()), cur.kind)
                    return [(p, None)]
                v = s.ev(p, n.value.args[0])
                if isinstance(cur, tuple):      # ("emptylist",) gets its element kind from the first append
                    kind = s.kind_of(v)
                    cur = SeqV(z3.Empty(z3.SeqSort(sort_of(kind))), kind)
                p.env[f.value.id] = SeqV(z3.Concat(cur.q, z3.Unit(s.unwrap(cur.kind, v, n))), cur.kind)
                return [(p, None)]
        if isinstance(n, (ast.Assign, ast.AnnAssign)) and getattr(n, "value", None) is not None and isinstance(n.value, ast.Attribute):
            tgts = n.targets if isinstance(n, ast.Assign) else [n.target]
            if len(tgts) == 1 and isinstance(tgts[0], ast.Name):
                try:
                    owner = s.ev(p, n.value.value)
                except Unsupported:
                    owner = None
                if isinstance(owner, RefV) and s.static_cls(p, owner):
                    try:
                        res = s.resolve_attr(s.static_cls(p, owner), n.value.attr)
                    except Unsupported:
                        res = None
                    if res and res[0] == "field" and s.schema.fields[res[1]].startswith("seq:"):
                        s.oblige(f"safety/line{n.lineno - s.fn_line}:attribute `{n.value.attr}` of None", p, owner.r != NONE)
                        p.env[tgts[0].id] = AliasV(owner.r, res[1], s.static_cls(p, owner))
                        return [(p, None)]
        if isinstance(n, ast.Assign) and len(n.targets) == 1 and isinstance(n.targets[0], ast.Name) and isinstance(n.value, ast.IfExp):
            # `x = a if c else b` with two different Python constants (e.g. the next state of a state machine): the path forks,
            # so that the control variable stays concrete
            try:
                a_, b_ = s.ev(p.fork(), n.value.body), s.ev(p.fork(), n.value.orelse)
            except Unsupported:
                a_ = b_ = None
            if isinstance(a_, int) and isinstance(b_, int) and not isinstance(a_, bool) and not isinstance(b_, bool) and a_ != b_:
                c = z3.simplify(s.truth(s.ev(p, n.value.test), n, p))
                out = []
                for cond, val in ((c, a_), (z3.Not(c), b_)):
                    if z3.is_false(z3.simplify(cond)):
                        continue
                    q = p.fork(); q.pc.append(cond); q.env[n.targets[0].id] = val
                    out.append((q, None))
                return out
        if isinstance(n, ast.If) and ast.unparse(n.test) == "settings.debugging":
            return [(p, None)]            # logging block: dropped by extraction (A-LOG)
        if isinstance(n, ast.If):
            c = z3.simplify(s.truth(s.ev(p, n.test), n, p))
            out = []
            if not z3.is_false(c):
                a = p.fork(); a.pc.append(c); s.refine(a, n.test, True)
                out += s.block([a], n.body)
            if not z3.is_true(c):
                b = p.fork(); b.pc.append(z3.Not(c)); s.refine(b, n.test, False)
                out += s.block([b], n.orelse) if n.orelse else [(b, None)]
            return out
        if isinstance(n, ast.Raise):
            return [(p, ("raise", raised_name(n, p.env)))]
        if isinstance(n, ast.For):
            return s.for_loop(p, n)
        if isinstance(n, ast.While):
            return s.while_loop(p, n)
        if isinstance(n, ast.With):
            return s.with_stmt(p, n)
        if isinstance(n, ast.Try):
            return s.try_stmt(p, n)
        if isinstance(n, ast.Continue):
            return [(p, ("continue", None))]
        if isinstance(n, ast.Break):
            return [(p, ("break", None))]
        return super().stmt(p, n)

    def try_stmt(s, p, n):
        """try/except/finally: exceptional outcomes of the body (explicit raises and the raise outcomes that callee contracts record)
        are continued in the first handler that catches them (`except Exception`/bare catch everything the model raises)"""
        mark = len(s.raised)
        res = s.block([p], n.body)
        caught = s.raised[mark:]
        del s.raised[mark:]
        out, exc_paths = [], []
        for q, sig in res:
            if sig is not None and sig[0] == "raise":
                exc_paths.append((q, sig[1]))
            else:
                out.append((q, sig))
        exc_paths += caught
        for q, exc in exc_paths:
            handled = False
            for h in n.handlers:
                names = [] if h.type is None else [x.id for x in (h.type.elts if isinstance(h.type, ast.Tuple) else [h.type]) if isinstance(x, ast.Name)]
                if h.type is None or "Exception" in names or "BaseException" in names or exc in names:
                    if h.name:
                        q.env[h.name] = Exc(exc)
                    out += s.block([q], h.body)
                    handled = True
                    break
            if not handled:
                out.append((q, ("raise", exc)))
        if n.orelse:
            raise Unsupported("try-else")
        if n.finalbody:
            fin = []
            for q, sig in out:
                for q2, sig2 in s.block([q], n.finalbody):
                    fin.append((q2, sig2 if sig2 is not None else sig))
            out = fin
        return out

    def with_stmt(s, p, n):
        raise Unsupported(f"with statement at line {n.lineno}")

    def kind_of(s, v):
        if isinstance(v, RefV):
            return f"ref:{v.cls}" if v.cls else "ref"
        if isinstance(v, ActV):
            return "act"
        if isinstance(v, (StrV, str)):
            return "str"
        if isinstance(v, (Num, int, float)):
            return "num"
        raise Unsupported(f"list element of type {type(v).__name__}")

    def refine(s, p, test, positive):
        """isinstance(x, C) in a branch condition narrows the static class of x on that path"""
        if isinstance(test, ast.UnaryOp) and isinstance(test.op, ast.Not):
            return s.refine(p, test.operand, not positive)
        if positive and isinstance(test, ast.Call) and isinstance(test.func, ast.Name) and test.func.id == "isinstance" and isinstance(test.args[1], ast.Name):
            try:
                v = s.ev(p, test.args[0])
            except Unsupported:
                return
            if isinstance(v, RefV):
                p.known[v.r.get_id()] = test.args[1].id
        if positive and isinstance(test, ast.BoolOp) and isinstance(test.op, ast.And):
            for t in test.values:
                s.refine(p, t, True)

    def assign(s, p, t, v):
        if isinstance(t, ast.Attribute):
            base = s.ev(p, t.value)
            if not isinstance(base, RefV):
                raise Unsupported(f"attribute store on {type(base).__name__} at line {t.lineno}")
            cls = s.static_cls(p, base)
            s.oblige(f"safety/line{t.lineno - s.fn_line}:attribute store `{t.attr}` on None", p, base.r != NONE)
            subs = s.schema.concrete_subclasses(cls) or [cls]
            groups = {}
            for c in subs:
                groups.setdefault(s.resolve_store(c, t.attr), []).append(c)
            if len(groups) != 1:
                raise Unsupported(f"store {cls}.{t.attr} dispatches differently over {subs} (line {t.lineno})")
            kind, where = next(iter(groups))
            if kind == "field":
                if v == ("emptylist",):
                    fk = s.schema.fields[where]
                    v = SeqV(z3.Empty(sort_of(fk)), fk[4:])
                s.heap_set(p, where, base.r, v, t)
            else:   # property setter, executed in place
                s.call_inline(p, base, where, t.attr, [v], {}, t, which="setter")
            return
        if isinstance(t, ast.Name):
            p.env[t.id] = v
            return
        if isinstance(t, ast.Subscript):
            return s.subscript_store(p, t, v)
        if isinstance(t, ast.Tuple) and isinstance(v, (tuple, list)) and len(v) == len(t.elts):
            for ti, vi in zip(t.elts, v):
                s.assign(p, ti, vi)
            return
        raise Unsupported(f"assignment target {ast.unparse(t)} at line {t.lineno}")

    def subscript_store(s, p, t, v):
        raise Unsupported(f"subscript store {ast.unparse(t)} at line {t.lineno}")

    def resolve_store(s, cls, attr):
        for c in s.src.mro(cls):
            m = s.src.module_of_class(c)
            if m and s.src.has_func(m, f"{c}.{attr}"):
                try:
                    s.src.func(m, f"{c}.{attr}", "setter")
                    return ("prop", c)
                except KeyError:
                    raise Unsupported(f"store to read-only property {c}.{attr}")
            if f"{c}.{attr}" in s.schema.fields:
                return ("field", f"{c}.{attr}")
        raise Unsupported(f"attribute {cls}.{attr} is not in the schema")

    # ------------------------------------------------------------------ loops
    def assigned_names(s, body):
        out = set()
        for st in body:
            for n in ast.walk(st):
                if isinstance(n, (ast.Assign, ast.AnnAssign, ast.AugAssign)):
                    tg = n.targets if isinstance(n, ast.Assign) else [n.target]
                    for t in tg:
                        for x in ast.walk(t):
                            if isinstance(x, ast.Name) and isinstance(x.ctx, ast.Store):
                                out.add(x.id)
                if isinstance(n, ast.For):
                    for x in ast.walk(n.target):
                        if isinstance(x, ast.Name):
                            out.add(x.id)
                if isinstance(n, ast.NamedExpr):
                    out.add(n.target.id)
                if isinstance(n, ast.Call) and isinstance(n.func, ast.Attribute) and n.func.attr in ("append", "clear", "extend", "pop") and isinstance(n.func.value, ast.Name):
                    out.add(n.func.value.id)
                # callees that mutate a list argument in place (registered by the driver with the contract that models them)
                if isinstance(n, ast.Call) and ast.unparse(n.func) in s.mutating_calls:
                    for k in s.mutating_calls[ast.unparse(n.func)]:
                        if k < len(n.args) and isinstance(n.args[k], ast.Name):
                            out.add(n.args[k].id)
        return out

    mutating_calls = {}

    def written_fields(s, body, _seen=None):
        """heap field keys possibly written by a loop body: direct stores/list mutations + modifies of called contracts"""
        out = set()
        _seen = set() if _seen is None else _seen
        for st in body:
            for n in ast.walk(st):
                tg = []
                if isinstance(n, ast.Assign):
                    tg = n.targets
                elif isinstance(n, (ast.AugAssign, ast.AnnAssign)):
                    tg = [n.target]
                for t in tg:
                    for x in ast.walk(t):
                        if isinstance(x, ast.Attribute) and isinstance(x.ctx, ast.Store):
                            out |= {k for k in s.schema.fields if k.endswith("." + x.attr)}
                            for (c, a) in s.setter_effects:
                                if a == x.attr:
                                    out |= set(s.setter_effects[(c, a)])
                if isinstance(n, ast.Call) and isinstance(n.func, ast.Attribute):
                    a = n.func.attr
                    if a in ("append", "clear", "extend", "insert") and isinstance(n.func.value, ast.Attribute):
                        out |= {k for k in s.schema.fields if k.endswith("." + n.func.value.attr)}
                    for q, c in s.contracts.items():
                        if q.endswith("." + a):
                            out |= set(c.modifies)
                    for q in s.inline:
                        if q.endswith("." + a) and q not in _seen:
                            _seen.add(q)
                            m = s.src.module_of_class(q.split(".")[0])
                            out |= s.written_fields(s.src.func(m, q).body, _seen)
        return out

    setter_effects = {}

    def havoc(s, p, names, fields, tag):
        for nm in names:
            if nm in p.env and not nm.startswith("__"):
                p.env[nm] = s.havoc_value(p.env[nm], f"{nm}@{tag}")
                if isinstance(p.env[nm], Num):
                    p.pc.append(xr.wf(p.env[nm].x))
        for k in fields:
            p.heap[k] = z3.FreshConst(p.heap[k].sort(), f"{k}@{tag}")

    def havoc_value(s, v, hint):
        if isinstance(v, Num):
            x, _ = xr.sym(f"{hint}!{s.fresh_n}"); s.fresh_n += 1
            if v.isint:
                i = z3.Int(f"{hint}!{s.fresh_n}i"); s.fresh_n += 1
                return Num(X(xr.F, xr.I0, z3.ToReal(i)), v.data, v.py, True)
            return Num(x, v.data, v.py, False)
        if isinstance(v, Bool):
            return Bool(z3.FreshConst(z3.BoolSort(), hint), v.data, v.py)
        if isinstance(v, RefV):
            return RefV(z3.FreshConst(Ref, hint), v.cls)
        if isinstance(v, SeqV):
            return SeqV(z3.FreshConst(v.q.sort(), hint), v.kind)
        if isinstance(v, ActV):
            return ActV(z3.FreshConst(Act, hint))
        if isinstance(v, StrV):
            return StrV(z3.FreshConst(Str, hint))
        if isinstance(v, AliasV):
            return v
        if isinstance(v, bool):
            return Bool(z3.FreshConst(z3.BoolSort(), hint), False, True)
        if isinstance(v, int):
            i = z3.Int(f"{hint}!{s.fresh_n}i"); s.fresh_n += 1
            return Num(X(xr.F, xr.I0, z3.ToReal(i)), False, True, True)
        if isinstance(v, float):
            x, c = xr.sym(f"{hint}!{s.fresh_n}"); s.fresh_n += 1
            return Num(x, False, True, False)
        if v is None or isinstance(v, (str, tuple)):
            return ("havoc", hint)      # type changes across iterations are not supported: any later use fails as Unsupported
        raise Unsupported(f"havoc of {type(v).__name__}")

    def for_loop(s, p, n):
        lo = s.loop_index.get((n.lineno, n.col_offset))
        if lo is None:
            s.loop_ord += 1
            lo = s.loop_ord
        spec = s.loops.get(lo)
        if spec is None:
            raise Unsupported(f"loop {lo} at line {n.lineno} has no invariant in the sidecar")
        enum = False
        if isinstance(n.iter, ast.Call) and isinstance(n.iter.func, ast.Name) and n.iter.func.id == "enumerate":
            it = s.ev(p, n.iter.args[0]); enum = True
        else:
            it = s.ev(p, n.iter)
        custom = hasattr(it, "iter_length")          # iterable protocol of value extensions (e.g. np.nditer over a batch)
        if not isinstance(it, SeqV) and not custom:
            raise Unsupported(f"for over {type(it).__name__} at line {n.lineno}")
        if custom:
            seq, L = it, it.iter_length()
        else:
            seq, L = it.q, z3.Length(it.q)
        names = s.assigned_names(n.body) | s.assigned_names([ast.Expr(n.target)])
        now_entry = s.now(p)
        names.add("__now__")
        for x in ast.walk(n.target):
            if isinstance(x, ast.Name):
                names.add(x.id)
        fields = s.written_fields(n.body) | set(spec.havoc_heap or ())
        s.entry[lo] = p.fork()
        label = spec.name or f"loop{lo}"
        if spec.modifies is not None:
            user_inv, ent, framed = spec.inv, s.entry[lo], sorted(fields - set(spec.modifies))
            spec = LoopSpec(lambda ex, q, k_, sq: z3.And(user_inv(ex, q, k_, sq), *[q.heap[f] == ent.heap[f] for f in framed]),
                            facts=spec.facts, havoc_heap=spec.havoc_heap, name=spec.name, ghost=spec.ghost, inst=spec.inst, cases=spec.cases)
        k0 = z3.IntVal(0)
        s.oblige(f"{label}/inv.init", p, z3.And(*((spec.facts(s, p, k0, seq) if spec.facts else []) + [True])) if False else spec.inv(s, p, k0, seq),
                 {"facts": spec.facts(s, p, k0, seq) if spec.facts else []})
        # arbitrary iteration (one per case of the control variable, if the sidecar splits the loop head)
        k = z3.FreshInt(f"k{lo}")
        s.cur_k[lo] = k
        outs, breaks, after = [], [], []
        for case in (spec.cases or [None]):
            ctag = "" if case is None else "[" + ",".join(f"{a_}={b_}" for a_, b_ in case.items()) + "]"
            h = p.fork()
            s.havoc(h, [x for x in names if x in h.env], fields, f"L{lo}")
            if case:
                h.env.update(case)
            h.env["__now__"] = z3.FreshInt("now"); h.pc.append(h.env["__now__"] >= now_entry)       # allocation time only grows
            h.pc += [k >= 0, k < L, spec.inv(s, h, k, seq)] + (spec.facts(s, h, k, seq) if spec.facts else []) + (spec.inst(s, h, k, seq) if spec.inst else [])
            if custom:
                elem = it.iter_elem(s, h, k)
            else:
                idx = (L - 1 - k) if it.rev else k
                elem = s.wrap(it.kind, seq[idx])
            if enum:
                s.assign(h, n.target, (Num(X(xr.F, xr.I0, z3.ToReal(k)), False, True, True), elem))
            elif custom and isinstance(n.target, ast.Name):
                h.env[n.target.id] = elem            # a view object of the extension (kept as is)
            else:
                s.assign(h, n.target, elem)
            for q, sig in s.block([h], n.body):
                if sig is None or sig[0] == "continue":
                    if spec.ghost:
                        q.pc += spec.ghost(s, q, k, seq)
                    s.oblige(f"{label}/inv.preserved{ctag}", q, spec.inv(s, q, k + 1, seq), {"facts": spec.facts(s, q, k + 1, seq) if spec.facts else []})
                elif sig[0] == "break":
                    breaks.append((q, None))      # leaves the loop from iteration k: execution continues after the loop in this state
                else:
                    outs.append((q, sig))     # return / raise from inside the loop
            # after the loop
            a = p.fork()
            s.havoc(a, [x for x in names if x in a.env], fields, f"L{lo}x")
            if case:
                a.env.update(case)
            a.env["__now__"] = z3.FreshInt("now"); a.pc.append(a.env["__now__"] >= now_entry)
            a.pc += [spec.inv(s, a, L, seq)] + (spec.facts(s, a, L, seq) if spec.facts else []) + (spec.inst(s, a, L, seq) if spec.inst else [])
            after.append((a, None))
        if n.orelse:
            raise Unsupported("for-else")
        return after + breaks + outs

    def while_loop(s, p, n):
        """while cond: body - with an invariant from the sidecar (k = number of completed iterations, a ghost; seq = None):
        inv.init; for an arbitrary iteration: havoc, assume inv(k) and cond, run the body, assert inv(k+1); after the loop: inv and not cond
        (or the state at a `break`).  Termination is NOT proved (partial correctness), unless the sidecar gives `variant`."""
        lo = s.loop_index.get((n.lineno, n.col_offset))
        if lo is None:
            s.loop_ord += 1
            lo = s.loop_ord
        spec = s.loops.get(lo)
        if spec is None:
            raise Unsupported(f"while loop {lo} at line {n.lineno} has no invariant in the sidecar")
        names = s.assigned_names(n.body)
        now_entry = s.now(p)
        names.add("__now__")
        fields = s.written_fields(n.body) | set(spec.havoc_heap or ())
        s.entry[lo] = p.fork()
        label = spec.name or f"loop{lo}"
        if spec.modifies is not None:
            user_inv, ent, framed = spec.inv, s.entry[lo], sorted(fields - set(spec.modifies))
            spec = LoopSpec(lambda ex, q, k_, sq: z3.And(user_inv(ex, q, k_, sq), *[q.heap[f] == ent.heap[f] for f in framed]),
                            facts=spec.facts, havoc_heap=spec.havoc_heap, name=spec.name, ghost=spec.ghost, inst=spec.inst, cases=spec.cases)
        s.oblige(f"{label}/inv.init", p, spec.inv(s, p, z3.IntVal(0), None), {"facts": spec.facts(s, p, z3.IntVal(0), None) if spec.facts else []})
        k = z3.FreshInt(f"k{lo}")
        s.cur_k[lo] = k
        outs, breaks, after = [], [], []
        for case in (spec.cases or [None]):
            ctag = "" if case is None else "[" + ",".join(f"{a_}={b_}" for a_, b_ in case.items()) + "]"
            for phase in ("iter", "exit"):
                h = p.fork()
                s.havoc(h, [x for x in names if x in h.env], fields, f"W{lo}{phase[0]}")
                if case:
                    h.env.update(case)
                h.env["__now__"] = z3.FreshInt("now"); h.pc.append(h.env["__now__"] >= now_entry)
                h.pc += [k >= 0, spec.inv(s, h, k, None)] + (spec.facts(s, h, k, None) if spec.facts else []) + (spec.inst(s, h, k, None) if spec.inst else [])
                c = z3.simplify(s.truth(s.ev(h, n.test), n, h))
                if phase == "exit":
                    if not z3.is_true(c):
                        h.pc.append(z3.Not(c))
                        after.append((h, None))
                    continue
                if z3.is_false(c):
                    continue
                h.pc.append(c)
                for q, sig in s.block([h], n.body):
                    if sig is None or sig[0] == "continue":
                        if spec.ghost:
                            q.pc += spec.ghost(s, q, k, None)
                        s.oblige(f"{label}/inv.preserved{ctag}", q, spec.inv(s, q, k + 1, None), {"facts": spec.facts(s, q, k + 1, None) if spec.facts else []})
                    elif sig[0] == "break":
                        breaks.append((q, None))
                    else:
                        outs.append((q, sig))
        if n.orelse:
            raise Unsupported("while-else")
        return after + breaks + outs

    # ------------------------------------------------------------------ running a function
    def run_fn(s, fn, p):
        # an exception of the ANALYSIS while it executes the code under check (a construct the executor does not model, met in a form it did not expect) is
        # `outside the verified subset` (undecided, with the native fallback), not a fault of the checker
        try:
            return s._run_fn_impl(fn, p)
        except (AttributeError, TypeError, KeyError, IndexError, ValueError, AssertionError, z3.Z3Exception) as ex_:
            raise Unsupported(f"analysis error {type(ex_).__name__}: {str(ex_)[:200]}")

    def _run_fn_impl(s, fn, p):
        s.fn_line = fn.lineno
        # loop ordinal = syntactic position of the loop in the function (the same loop may be reached on several paths)
        loops = sorted([(n.lineno, n.col_offset) for n in ast.walk(fn) if isinstance(n, (ast.For, ast.While))])
        s.loop_index = {pos: i for i, pos in enumerate(loops)}
        chg = getattr(s.src, "loop_shape_changed", {}).get(id(fn))
        if chg and s.loops:
            raise Unsupported(f"the loops of this function ({chg[1]}) are not the loops its sidecar invariants were written for ({chg[0]})")
        outs = []
        for q, sig in s.block([p], fn.body):
            if sig is None:
                outs.append(("return", None, q))
            elif sig[0] in ("return", "raise"):
                outs.append((sig[0], sig[1], q))
            else:
                raise Unsupported(f"{sig[0]} outside a loop")
        for q, exc in s.raised:
            outs.append(("raise", exc, q))
        return outs

    fn_line = 0
