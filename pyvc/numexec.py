"""Symbolic executor for the numeric (element-wise) fragment of the Python subset (DESIGN 3, 4.1-4.5).

Runs the *real AST* of a function (membership, compute, hedge, tsukamoto, Op.* helpers) on extended reals.
Every value carries two flags:
  data  - derived from a data argument (x, a, b, y ...) which may be an ndarray at run time,
  py    - a plain Python float/int/bool (parameters, literals) as opposed to a NumPy scalar/array.
The `oblivious` obligation (DESIGN 4.5) is the absence of entries in `self.nonoblivious`: no Python-level control
decision, builtin min/max/bool/float, or raise condition may depend on a `data` value.  Python-float division by a
Python-float zero raises ZeroDivisionError, so each py/py division yields a safety obligation.
"""
import ast
import math
import z3
from . import xreal as xr
from .xreal import X


class Unsupported(Exception):
    """construct outside the verified subset -> obligation is 'undecided', never a violation"""


# what a driver catches around the analysis of one function: `Unsupported`, and the exceptions the executors themselves may raise when the code under check has a
# shape they did not expect (a value of another kind where a number was, a missing operand).  Either way: the function is outside the verified subset (undecided,
# native fallback) - not a verdict about the code and not a crash of the check.  KeyError is not in the list: NotFound (a function under contract is missing) is one.
ANALYSIS = (Unsupported, AttributeError, TypeError, IndexError, ValueError, AssertionError, z3.Z3Exception, RecursionError)


class Num:
    __slots__ = ("x", "data", "py", "isint", "alias")

    def __init__(s, x, data=False, py=False, isint=False, alias=False):
        s.x, s.data, s.py, s.isint = x, data, py, isint
        s.alias = alias      # may be the caller's own ndarray (function argument, or scalar(argument) which does not copy)


class Bool:
    __slots__ = ("b", "data", "py")

    def __init__(s, b, data=False, py=True):
        s.b, s.data, s.py = b, data, py


class Obj:
    """a locally constructed object (e.g. Gaussian(mean=..., ...)) or `self`"""

    def __init__(s, cls, fields):
        s.cls, s.fields = cls, fields


class Raised(Exception):
    def __init__(s, exc, pc):
        s.exc, s.pc = exc, pc


class Path:
    def __init__(s, env, pc):
        s.env, s.pc = dict(env), list(pc)

    def fork(s):
        return Path(s.env, s.pc)


def raised_name(n, env=None):
    """the exception class a `raise` statement names: `raise Cls(...)` / `raise Cls` with a class name, or a local that holds such an exception value; an exception
    that is COMPUTED (`raise self._error(...)`, `raise make()`) is not known from the statement: outside the verified subset"""
    import builtins
    if n.exc is None:
        raise Unsupported(f"bare raise at line {n.lineno}")
    exc = n.exc.func if isinstance(n.exc, ast.Call) else n.exc
    if isinstance(exc, ast.Name):
        v = (env or {}).get(exc.id)
        if v is not None and hasattr(v, "name") and type(v).__name__ == "Exc" and not isinstance(n.exc, ast.Call):
            return v.name
        if isinstance(getattr(builtins, exc.id, None), type) and issubclass(getattr(builtins, exc.id), BaseException):
            return exc.id
        if exc.id[:1].isupper() and v is None:
            return exc.id          # a class of the package (no such class is raised by the pinned tree; kept for completeness)
    raise Unsupported(f"raise of a computed exception `{ast.unparse(n.exc)[:60]}` at line {n.lineno}")


class NumExec:
    def __init__(s, src, module, ax, selfobj=None, call_hook=None, name_hook=None):
        s.src, s.module, s.ax = src, module, ax
        s.selfobj = selfobj
        s.call_hook = call_hook          # (exec, path, cls, kwargs, method, args) -> value | NotImplemented
        s.name_hook = name_hook
        s.cur_cls = [selfobj.cls] if selfobj is not None else []
        s.depth = 0
        s.inlined = set()
        s.nonoblivious = []              # [(lineno, what)]
        s.safety = []                    # [(name, pc, goal)]
        s.notes = []

    # ------------------------------------------------------------------ helpers
    def num(s, v, node=None):
        if isinstance(v, Num):
            return v
        if isinstance(v, Bool):
            return Num(xr.b2x(v.b), v.data, v.py)
        if isinstance(v, bool):
            return Num(xr.const(v), False, True)
        if isinstance(v, int):
            return Num(xr.const(v), False, True, True)
        if isinstance(v, float):
            return Num(xr.const(v), False, True)
        raise Unsupported(f"not numeric: {v!r} at line {getattr(node, 'lineno', '?')}")

    def boo(s, v, node=None):
        if isinstance(v, Bool):
            return v
        if isinstance(v, bool):
            return Bool(z3.BoolVal(v), False, True)
        raise Unsupported(f"not boolean: {v!r} at line {getattr(node, 'lineno', '?')}")

    def truth(s, v, node):
        """Python truthiness used in a control position"""
        if isinstance(v, Bool):
            if v.data:
                s.nonoblivious.append((node.lineno, "Python truth value of a data-dependent boolean"))
            return v.b
        if isinstance(v, bool):
            return z3.BoolVal(v)
        if isinstance(v, Num):
            if v.data:
                s.nonoblivious.append((node.lineno, "Python truth value of a data-dependent number"))
            return z3.Or(v.x.nan, v.x.inf != 0, v.x.v != 0)
        if v is None:
            return z3.BoolVal(False)
        if isinstance(v, (int, float, str, tuple, list)):
            return z3.BoolVal(bool(v))
        if isinstance(v, Obj):
            return z3.BoolVal(True)
        raise Unsupported(f"truthiness of {v!r} at line {node.lineno}")

    def bind(s, fn, pos, kw, p=None, static=False):
        """bind call arguments to the parameters of `fn` (defaults are evaluated from the AST); self is implicit"""
        a = fn.args
        names = [x.arg for x in a.posonlyargs + a.args][0 if static else 1:]
        env = {} if static else {"self": s.selfobj}
        defaults = dict(zip(names[len(names) - len(a.defaults):], a.defaults))
        for i, nm in enumerate(names):
            if i < len(pos):
                env[nm] = pos[i]
            elif nm in kw:
                env[nm] = kw[nm]
            elif nm in defaults:
                env[nm] = s.ev(p or Path({}, []), defaults[nm])
            else:
                raise Unsupported(f"missing argument {nm} for {fn.name}")
        for k, d in zip(a.kwonlyargs, a.kw_defaults):
            env[k.arg] = kw[k.arg] if k.arg in kw else s.ev(p or Path({}, []), d)
        return env

    # ------------------------------------------------------------------ running
    def run(s, fn, args, pc=()):
        # an exception of the ANALYSIS while it executes the code under check (a construct the executor does not model, met in a form it did not expect) is
        # `outside the verified subset` (undecided, with the native fallback), not a fault of the checker
        try:
            return s._run_impl(fn, args, pc)
        except (AttributeError, TypeError, KeyError, IndexError, ValueError, AssertionError, z3.Z3Exception) as ex_:
            raise Unsupported(f"analysis error {type(ex_).__name__}: {str(ex_)[:200]}")

    def _run_impl(s, fn, args, pc=()):
        """execute FunctionDef `fn` with argument values; returns [(kind, value, path)], kind in return/raise"""
        p = Path(args, pc)
        outs = []
        for path, sig in s.block([p], fn.body):
            if sig is None:
                outs.append(("return", None, path))
            else:
                outs.append((sig[0], sig[1], path))
        return outs

    def block(s, paths, body):
        """returns [(path, signal)] with signal None (fell through) or ('return'|'raise', value)"""
        done = []
        live = list(paths)
        for st in body:
            nxt = []
            for p in live:
                for q, sig in s.stmt(p, st):
                    (nxt if sig is None else done).append((q, sig))
            live = [q for q, _ in nxt]
        return [(p, None) for p in live] + done

    def stmt(s, p, n):
        if isinstance(n, ast.Expr):
            if isinstance(n.value, ast.Constant):
                return [(p, None)]
            s.ev(p, n.value)
            return [(p, None)]
        if isinstance(n, ast.Pass):
            return [(p, None)]
        if isinstance(n, ast.Assign):
            v = s.ev(p, n.value)
            for t in n.targets:
                s.assign(p, t, v)
            return [(p, None)]
        if isinstance(n, ast.AnnAssign):
            if n.value is not None:
                s.assign(p, n.target, s.ev(p, n.value))
            return [(p, None)]
        if isinstance(n, ast.AugAssign):
            cur = s.ev(p, n.target)
            if isinstance(cur, Num) and cur.data and cur.alias:
                s.nonoblivious.append((n.lineno, f"in-place `{ast.unparse(n)}` on an array that may be the caller's own (scalar() does not copy)"))
            v = s.binop(n.op, cur, s.ev(p, n.value), n, p)
            s.assign(p, n.target, v)
            return [(p, None)]
        if isinstance(n, ast.Return):
            return [(p, ("return", s.ev(p, n.value) if n.value is not None else None))]
        if isinstance(n, ast.Raise):
            return [(p, ("raise", raised_name(n, p.env)))]
        if isinstance(n, ast.If):
            c = s.truth(s.ev(p, n.test), n)
            c = z3.simplify(c)
            out = []
            if not z3.is_false(c):
                a = p.fork(); a.pc.append(c)
                out += s.block([a], n.body)
            if not z3.is_true(c):
                b = p.fork(); b.pc.append(z3.Not(c))
                out += s.block([b], n.orelse) if n.orelse else [(b, None)]
            return out
        if isinstance(n, (ast.Import, ast.ImportFrom)):
            return [(p, None)]
        raise Unsupported(f"statement {type(n).__name__} at line {n.lineno}")

    def assign(s, p, t, v):
        if isinstance(t, ast.Name):
            p.env[t.id] = v
        elif isinstance(t, ast.Attribute) and isinstance(t.value, ast.Name) and t.value.id == "self" and s.selfobj is not None:
            # field write on self: functional update of the path-local copy
            flds = dict(p.env.get("__self_fields__", s.selfobj.fields))
            flds[t.attr] = v
            p.env["__self_fields__"] = flds
        elif isinstance(t, ast.Tuple):
            if not isinstance(v, (tuple, list)) or len(v) != len(t.elts):
                raise Unsupported(f"tuple assignment at line {t.lineno}")
            for ti, vi in zip(t.elts, v):
                s.assign(p, ti, vi)
        else:
            raise Unsupported(f"assignment target {ast.unparse(t)} at line {t.lineno}")

    # ------------------------------------------------------------------ expressions
    def ev(s, p, e):
        m = getattr(s, "ev_" + type(e).__name__, None)
        if m is None:
            raise Unsupported(f"expression {type(e).__name__} at line {e.lineno}: {ast.unparse(e)}")
        return m(p, e)

    def ev_Constant(s, p, e):
        return e.value

    def ev_Name(s, p, e):
        if e.id in p.env:
            return p.env[e.id]
        if e.id == "inf":
            return math.inf
        if e.id == "nan":
            return math.nan
        if e.id == "self" and s.selfobj is not None:
            return s.selfobj
        if s.name_hook:
            r = s.name_hook(e.id)
            if r is not NotImplemented:
                return r
        raise Unsupported(f"name {e.id} at line {e.lineno}")

    def ev_Attribute(s, p, e):
        if isinstance(e.value, ast.Name) and e.value.id == "np":
            if e.attr == "nan":
                return math.nan
            if e.attr == "inf":
                return math.inf
            if e.attr == "pi":
                return Num(X(xr.F, xr.I0, xr.PI), False, True)
            raise Unsupported(f"np.{e.attr} at line {e.lineno}")
        if isinstance(e.value, ast.Name) and e.value.id == "settings" and e.value.id not in p.env:
            return s.setting(e.attr, e)
        base = s.ev(p, e.value)
        if isinstance(base, Obj):
            flds = p.env.get("__self_fields__", base.fields) if base is s.selfobj else base.fields
            if e.attr in flds:
                return flds[e.attr]
            raise Unsupported(f"field {base.cls}.{e.attr} at line {e.lineno}")
        raise Unsupported(f"attribute {ast.unparse(e)} at line {e.lineno}")

    def ev_UnaryOp(s, p, e):
        v = s.ev(p, e.operand)
        if isinstance(e.op, ast.USub):
            if isinstance(v, (int, float)) and not isinstance(v, bool):
                return -v
            n = s.num(v, e)
            return Num(xr.neg(n.x), n.data, n.py, n.isint)
        if isinstance(e.op, ast.UAdd):
            return s.num(v, e)
        if isinstance(e.op, ast.Not):
            return Bool(z3.Not(s.truth(v, e)), False, True)
        if isinstance(e.op, ast.Invert):
            b = s.boo(v, e)
            if b.py:
                raise Unsupported(f"~ on a Python bool at line {e.lineno}")
            return Bool(z3.Not(b.b), b.data, False)
        raise Unsupported(f"unary {type(e.op).__name__} at line {e.lineno}")

    def ev_BoolOp(s, p, e):
        vals = [s.ev(p, v) for v in e.values]
        # Python and/or on (parameter-only) booleans; data-dependence is reported by truth()
        if all(isinstance(v, (Bool, bool)) for v in vals):
            bs = [s.truth(v, e) for v in vals[:-1]] + [s.boo(vals[-1], e).b]
            r = z3.And(*bs) if isinstance(e.op, ast.And) else z3.Or(*bs)
            return Bool(r, any(isinstance(v, Bool) and v.data for v in vals), True)
        raise Unsupported(f"and/or on non-booleans at line {e.lineno}")

    def ev_IfExp(s, p, e):
        c = s.truth(s.ev(p, e.test), e)
        a, b = s.ev(p, e.body), s.ev(p, e.orelse)
        if isinstance(a, (Bool, bool)) and isinstance(b, (Bool, bool)):
            a, b = s.boo(a, e), s.boo(b, e)
            return Bool(z3.If(c, a.b, b.b), a.data or b.data, a.py and b.py)
        a, b = s.num(a, e), s.num(b, e)
        return Num(xr.ite(c, a.x, b.x), a.data or b.data, a.py and b.py, a.isint and b.isint)

    def ev_Tuple(s, p, e):
        return tuple(s.ev(p, x) for x in e.elts)

    def ev_JoinedStr(s, p, e):
        return "<message>"

    def ev_BinOp(s, p, e):
        return s.binop(e.op, s.ev(p, e.left), s.ev(p, e.right), e, p)

    def binop(s, op, l, r, e, p):
        if isinstance(op, (ast.BitAnd, ast.BitOr, ast.BitXor)) and all(isinstance(v, int) and not isinstance(v, bool) for v in (l, r)):
            return {ast.BitAnd: l & r, ast.BitOr: l | r, ast.BitXor: l ^ r}[type(op)]       # bit masks of state machines: concrete ints
        if isinstance(op, (ast.BitAnd, ast.BitOr, ast.BitXor)):
            a, b = s.boo(l, e), s.boo(r, e)
            f = {ast.BitAnd: z3.And, ast.BitOr: z3.Or, ast.BitXor: z3.Xor}[type(op)]
            return Bool(f(a.b, b.b), a.data or b.data, a.py and b.py)
        # constant folding keeps Python ints/floats concrete (exact Python semantics)
        if all(isinstance(v, (int, float)) and not isinstance(v, bool) for v in (l, r)):
            try:
                if isinstance(op, ast.Add): return l + r
                if isinstance(op, ast.Sub): return l - r
                if isinstance(op, ast.Mult): return l * r
                if isinstance(op, ast.Div): return l / r
                if isinstance(op, ast.Pow): return l ** r
            except (ZeroDivisionError, OverflowError):
                raise Unsupported(f"constant arithmetic raises at line {e.lineno}")
        a, b = s.num(l, e), s.num(r, e)
        data, py = a.data or b.data, a.py and b.py
        if isinstance(op, ast.Add):
            return Num(xr.add(a.x, b.x), data, py, a.isint and b.isint)
        if isinstance(op, ast.Sub):
            return Num(xr.sub(a.x, b.x), data, py, a.isint and b.isint)
        if isinstance(op, ast.Mult):
            return Num(xr.mul(a.x, b.x), data, py, a.isint and b.isint)
        if isinstance(op, ast.Div):
            if py:
                s.safety.append((f"line{e.lineno}/no ZeroDivisionError in Python-float division `{ast.unparse(e)}`", list(p.pc),
                                 z3.Not(z3.And(z3.Not(b.x.nan), b.x.inf == 0, b.x.v == 0))))
            return Num(xr.div(a.x, b.x), data, py)
        if isinstance(op, ast.Pow):
            if isinstance(r, int) and not isinstance(r, bool) and r == 2:
                return Num(s.ax.xsquare(a.x), data, py, a.isint)
            if py:
                raise Unsupported(f"Python-float ** at line {e.lineno}")
            return Num(s.ax.xpow(a.x, b.x), data, False)
        raise Unsupported(f"binary {type(op).__name__} at line {e.lineno}")

    def ev_Compare(s, p, e):
        vals = [s.ev(p, e.left)] + [s.ev(p, c) for c in e.comparators]
        res = None
        for op, l, r in zip(e.ops, vals, vals[1:]):
            if isinstance(l, (Bool, bool)) and isinstance(r, (Bool, bool)) and isinstance(op, (ast.Eq, ast.NotEq)):
                a, b = s.boo(l, e), s.boo(r, e)
                c = Bool(a.b == b.b if isinstance(op, ast.Eq) else a.b != b.b, a.data or b.data, a.py and b.py)
            else:
                a, b = s.num(l, e), s.num(r, e)
                f = {ast.Lt: xr.lt, ast.LtE: xr.le, ast.Gt: xr.gt, ast.GtE: xr.ge, ast.Eq: xr.eq, ast.NotEq: xr.ne}.get(type(op))
                if f is None:
                    raise Unsupported(f"comparison {type(op).__name__} at line {e.lineno}")
                c = Bool(f(a.x, b.x), a.data or b.data, a.py and b.py)
            if res is None:
                res = c
            else:   # chained comparison = Python `and`
                if res.data:
                    s.nonoblivious.append((e.lineno, "chained comparison on data (implicit Python `and`)"))
                res = Bool(z3.And(res.b, c.b), res.data or c.data, res.py and c.py)
        return res

    def setting(s, name, e):
        """library settings: the default value read from the signature of library.Settings.__init__ (assumption A-SET:
        numeric obligations are stated for the library's default settings)"""
        fn = s.src.func("library", "Settings.__init__")
        a = fn.args
        names = [x.arg for x in a.args]
        defaults = dict(zip(names[len(names) - len(a.defaults):], a.defaults))
        if name in defaults and isinstance(defaults[name], ast.Constant) and isinstance(defaults[name].value, (int, float)):
            s.notes.append(f"settings.{name} = {defaults[name].value} (library default)")
            return defaults[name].value
        raise Unsupported(f"settings.{name} at line {e.lineno}")

    # ------------------------------------------------------------------ calls
    def ev_Call(s, p, e):
        f = e.func
        # np.<fn>(...)
        if isinstance(f, ast.Attribute) and isinstance(f.value, ast.Name) and f.value.id == "np":
            return s.np_call(p, f.attr, e)
        if isinstance(f, ast.Name):
            name = f.id
            if name in ("scalar",):
                v = s.num(s.ev(p, e.args[0]), e)
                return Num(v.x, v.data, False, False, alias=v.alias)
            if name in ("float",):
                v = s.num(s.ev(p, e.args[0]), e)
                if v.data:
                    s.nonoblivious.append((e.lineno, "float() of a data value"))
                return Num(v.x, v.data, True)
            if name in ("min", "max") and len(e.args) == 2 and not e.keywords:
                a, b = (s.num(s.ev(p, x), e) for x in e.args)
                if a.data or b.data:
                    s.nonoblivious.append((e.lineno, f"builtin {name}() applied to a data value (raises on arrays of size > 1)"))
                r = xr.py_min(a.x, b.x) if name == "min" else xr.py_max(a.x, b.x)
                return Num(r, a.data or b.data, a.py and b.py, a.isint and b.isint)
            if name == "abs":
                a = s.num(s.ev(p, e.args[0]), e)
                return Num(xr.xabs(a.x), a.data, a.py, a.isint)
            if name == "bool":
                v = s.ev(p, e.args[0])
                return Bool(s.truth(v, e), False, True)
        # Op.<helper>(...): static helpers of fuzzylite.operation are executed in place (counted as verified code)
        if isinstance(f, ast.Attribute) and isinstance(f.value, ast.Name) and f.value.id == "Op" and s.src.has_func("operation", f"Operation.{f.attr}"):
            fn = s.src.func("operation", f"Operation.{f.attr}")
            if s.depth > 4:
                raise Unsupported(f"inlining depth at line {e.lineno}")
            env = s.bind(fn, [s.ev(p, a) for a in e.args], {k.arg: s.ev(p, k.value) for k in e.keywords}, p, static=True)
            s.depth += 1
            outs = s.run(fn, env, pc=p.pc)
            s.depth -= 1
            if len(outs) != 1 or outs[0][0] != "return":
                raise Unsupported(f"Op.{f.attr} with several outcomes at line {e.lineno}")
            s.inlined.add(f"operation.Operation.{f.attr}")
            return outs[0][1]
        # super().__init__(...): executed in place (tiny constructors), resolved through the MRO read from the source
        if (isinstance(f, ast.Attribute) and f.attr == "__init__" and isinstance(f.value, ast.Call)
                and isinstance(f.value.func, ast.Name) and f.value.func.id == "super" and s.cur_cls):
            mro = s.src.mro(s.selfobj.cls)
            rest = mro[mro.index(s.cur_cls[-1]) + 1:]
            for c in rest:
                m = s.src.module_of_class(c)
                if m and s.src.has_func(m, f"{c}.__init__"):
                    fn = s.src.func(m, f"{c}.__init__")
                    env = s.bind(fn, [s.ev(p, a) for a in e.args], {k.arg: s.ev(p, k.value) for k in e.keywords}, p)
                    env["__self_fields__"] = p.env.get("__self_fields__", s.selfobj.fields)
                    s.cur_cls.append(c)
                    outs = s.run(fn, env, pc=p.pc)
                    s.cur_cls.pop()
                    if len(outs) != 1 or outs[0][0] != "return":
                        raise Unsupported(f"super().__init__ with several outcomes at line {e.lineno}")
                    p.env["__self_fields__"] = outs[0][2].env.get("__self_fields__")
                    return None
            return None
        # a helper of the package itself - self.<method>(...) / <Class>.<method>(...) of the object's own class hierarchy, or a module-level function of the module under
        # analysis - is executed in place from the real source (counted as verified code); anything it does outside the subset makes the caller undecided as before
        callee = None
        if isinstance(f, ast.Attribute) and isinstance(f.value, ast.Name) and s.selfobj is not None and (f.value.id == "self" or f.value.id in s.src.mro(s.selfobj.cls)):
            for c in (s.src.mro(s.selfobj.cls) if f.value.id == "self" else s.src.mro(f.value.id)):
                m = s.src.module_of_class(c)
                if m and s.src.has_func(m, f"{c}.{f.attr}"):
                    callee = (m, f"{c}.{f.attr}", s.src.func(m, f"{c}.{f.attr}")); break
        elif isinstance(f, ast.Name) and s.src.has_func(s.module, f.id):
            callee = (s.module, f.id, s.src.func(s.module, f.id))
        if callee is not None:
            m, q, fn = callee
            decs = {ast.unparse(d) for d in fn.decorator_list}
            if decs - {"staticmethod"}:
                raise Unsupported(f"call of the decorated helper {q} ({sorted(decs)}) at line {e.lineno}")
            static = "staticmethod" in decs or isinstance(f, ast.Name)
            if not static and f.value.id != "self":
                raise Unsupported(f"unbound call {ast.unparse(f)} at line {e.lineno}")
            if s.depth > 4:
                raise Unsupported(f"inlining depth at line {e.lineno}")
            env = s.bind(fn, [s.ev(p, a) for a in e.args], {k.arg: s.ev(p, k.value) for k in e.keywords}, p, static=static)
            if not static:
                env["__self_fields__"] = p.env.get("__self_fields__", s.selfobj.fields)
            s.depth += 1
            try:
                outs = s._run_impl(fn, env, pc=p.pc)
            finally:
                s.depth -= 1
            if len(outs) != 1 or outs[0][0] != "return":
                raise Unsupported(f"helper {q} with several outcomes at line {e.lineno}")
            if not static and outs[0][2].env.get("__self_fields__") is not None:
                p.env["__self_fields__"] = outs[0][2].env.get("__self_fields__")
            s.inlined.add(f"{m}.{q}")
            return outs[0][1]
        # Cls(kw...).method(args)  and  obj.method(args): modular call through the hook
        if isinstance(f, ast.Attribute):
            if isinstance(f.value, ast.Call) and isinstance(f.value.func, ast.Name) and s.call_hook:
                cls = f.value.func.id
                kwargs = {k.arg: s.ev(p, k.value) for k in f.value.keywords}
                pos = [s.ev(p, a) for a in f.value.args]
                args = [s.ev(p, a) for a in e.args]
                r = s.call_hook(s, p, cls, pos, kwargs, f.attr, args, e)
                if r is not NotImplemented:
                    return r
        raise Unsupported(f"call {ast.unparse(e.func)} at line {e.lineno}")

    def np_call(s, p, name, e):
        if name in ("asarray", "array") and len(e.args) == 1 and (not e.keywords or (len(e.keywords) == 1 and e.keywords[0].arg == "dtype" and ast.unparse(e.keywords[0].value) == "settings.float_type")):
            # the body of library.scalar(): conversion to the library float type (np.array copies, np.asarray does not)
            v = s.num(s.ev(p, e.args[0]), e)
            if not e.keywords and v.isint:
                raise Unsupported(f"np.{name} of an integer without dtype at line {e.lineno}")
            return Num(v.x, v.data, False, False, alias=v.alias and name == "asarray")
        a = [s.ev(p, x) for x in e.args]
        kw = {k.arg: s.ev(p, k.value) for k in e.keywords}
        if name in ("ones_like", "zeros_like") and len(a) == 1 and not kw:
            like = s.num(a[0], e)
            if like.isint or like.py:
                raise Unsupported(f"np.{name} of a value that is not a float array at line {e.lineno}")
            return Num(xr.const(1.0 if name == "ones_like" else 0.0), like.data, False)
        allowed = {"where": set(), "full_like": {"fill_value"}, "nan_to_num": {"nan", "neginf", "posinf"}, "isclose": {"rtol", "atol", "equal_nan"}}
        if set(kw) - allowed.get(name, set()):
            raise Unsupported(f"np.{name} with keyword arguments {sorted(kw)} (e.g. out= writes into an existing array) at line {e.lineno}")
        N = lambda v: s.num(v, e)
        un = lambda fn, keepint=False: (lambda v: Num(fn(v.x), v.data, False, keepint and v.isint))(N(a[0]))
        if name == "where" and len(a) == 3:
            c = s.boo(a[0], e)
            # branch values: booleans are promoted to numbers only if the other branch is a number
            if isinstance(a[1], (Bool, bool)) and isinstance(a[2], (Bool, bool)):
                t, f_ = s.boo(a[1], e), s.boo(a[2], e)
                return Bool(z3.If(c.b, t.b, f_.b), c.data or t.data or f_.data, False)
            t, f_ = N(a[1]), N(a[2])
            return Num(xr.ite(c.b, t.x, f_.x), c.data or t.data or f_.data, False)
        if name == "isnan":
            v = N(a[0]); return Bool(v.x.nan, v.data, False)
        if name == "isfinite":
            v = N(a[0]); return Bool(xr.fin(v.x), v.data, False)
        if name == "isinf":
            v = N(a[0]); return Bool(xr.isinf(v.x), v.data, False)
        if name == "square":
            return un(s.ax.xsquare, True)
        if name in ("abs", "absolute", "fabs"):
            return un(xr.xabs, True)
        if name == "negative":
            return un(xr.neg, True)
        if name == "sqrt":
            return un(s.ax.xsqrt)
        if name == "exp":
            return un(s.ax.xexp)
        if name == "log":
            return un(s.ax.xlog)
        if name == "cos":
            return un(s.ax.xcos)
        if name in ("power", "float_power") and len(a) == 2:
            b, x_ = N(a[0]), N(a[1])
            return Num(s.ax.xpow(b.x, x_.x), b.data or x_.data, False)
        if name in ("minimum", "maximum") and len(a) == 2:
            u, v = N(a[0]), N(a[1])
            r = xr.np_minimum(u.x, v.x) if name == "minimum" else xr.np_maximum(u.x, v.x)
            return Num(r, u.data or v.data, False)
        if name == "full_like":
            like = N(a[0])
            fill = N(a[1] if len(a) > 1 else kw["fill_value"])
            # np.full_like(x, v): same shape (and dtype!) as x, every element v.  scalar() made x float64.
            return Num(fill.x, like.data, False)
        if name == "clip" and len(a) == 3:
            x_, lo, hi = N(a[0]), N(a[1]), N(a[2])
            return Num(xr.clip(x_.x, lo.x, hi.x), x_.data or lo.data or hi.data, False)
        if name == "nan_to_num":
            if set(kw) - {"nan", "neginf", "posinf"} or len(a) != 1:
                raise Unsupported(f"np.nan_to_num with arguments {sorted(kw)} (copy=False would alias the caller's array) at line {e.lineno}")
            x_ = N(a[0])
            g = lambda k, d: N(kw.get(k, d)).x
            return Num(xr.nan_to_num(x_.x, g("nan", 0.0), g("neginf", -1.7976931348623157e308), g("posinf", 1.7976931348623157e308)), x_.data, False)
        if name in ("logical_and", "logical_or") and len(a) == 2:
            u, v = s.npbool(a[0], e), s.npbool(a[1], e)
            return Bool((z3.And if name == "logical_and" else z3.Or)(u.b, v.b), u.data or v.data, False)
        if name == "logical_not":
            u = s.npbool(a[0], e)
            return Bool(z3.Not(u.b), u.data, False)
        if name in ("add", "subtract", "multiply", "true_divide", "divide") and len(a) == 2:
            u, v = N(a[0]), N(a[1])
            f = {"add": xr.add, "subtract": xr.sub, "multiply": xr.mul, "true_divide": xr.div, "divide": xr.div}[name]
            return Num(f(u.x, v.x), u.data or v.data, False)
        if name == "positive":
            return un(lambda x_: x_, True)
        if name == "isclose" and len(a) == 2:
            u, v = N(a[0]), N(a[1])
            rtol, atol = N(kw.get("rtol", 1e-05)), N(kw.get("atol", 1e-08))
            equal_nan = kw.get("equal_nan", False)
            # numpy: |a-b| <= atol + rtol*|b| for finite; infinities equal iff same; nan per equal_nan
            close_fin = xr.le(xr.xabs(xr.sub(u.x, v.x)), xr.add(atol.x, xr.mul(rtol.x, xr.xabs(v.x))))
            bothfin = z3.And(xr.fin(u.x), xr.fin(v.x))
            r = z3.If(bothfin, close_fin,
                      z3.If(z3.Or(u.x.nan, v.x.nan), z3.And(z3.BoolVal(bool(equal_nan)), u.x.nan, v.x.nan), xr.eq(u.x, v.x)))
            return Bool(r, u.data or v.data, False)
        raise Unsupported(f"np.{name} at line {e.lineno}")

    def npbool(s, v, e):
        if isinstance(v, (Bool, bool)):
            return s.boo(v, e)
        n = s.num(v, e)
        return Bool(z3.Or(n.x.nan, n.x.inf != 0, n.x.v != 0), n.data, False)
