"""Obligations and their discharge (DESIGN 3.5, 7).

An obligation is `hyps |- goal`. It is serialised to SMT-LIB and decided in a worker process by z3 (python API,
z3-solver 5.1) and, if z3 answers unknown/timeout, by cvc5 (python API 1.4, or /usr/bin/cvc5).
Verdicts: proved (unsat of hyps & not goal), refuted (sat, with model), undecided.  `expect='sat'` obligations are
vacuity guards: they must be satisfiable (reachability of a precondition / canary), otherwise the checker is at fault.
Static obligations (read off the AST, no solver) are created already decided.
"""
import json
import os
import re
import subprocess
import time
import z3
from concurrent.futures import ProcessPoolExecutor
import multiprocessing as mp


_LET = re.compile(r"[$?]x\d+")


def canon_lets(txt):
    """z3 names the let-bound sub-terms of its SMT-LIB output after internal AST ids, which depend on everything built before in the same process:
    renamed positionally, so that the text of an obligation (and with a fresh solver context per query, the solver's run) is the same on every run"""
    names = {}
    return _LET.sub(lambda m: names.setdefault(m.group(0), f"{m.group(0)[0]}x{len(names)}"), txt)


class Obl:
    def __init__(s, name, hyps=(), goal=None, *, level="P", expect="unsat", kind="smt", fn=None, meta=None,
                 verdict=None, detail=None, show=None, qf=True):
        s.name, s.level, s.expect, s.kind, s.fn = name, level, expect, kind, fn
        s.meta = meta or {}
        s.verdict, s.detail = verdict, detail     # preset for static obligations
        s.backend = "static" if verdict is not None else None
        s.seconds = 0.0
        s.model = None
        s.show = show or []          # [(label, z3 expr)] evaluated under the model for the counterexample
        s.smt2 = None
        s.solver_output = None
        if verdict is None:
            so = z3.Solver()
            for h in hyps:
                so.add(h)
            if goal is not None:
                so.add(z3.Not(goal))
            s.smt2 = canon_lets(so.to_smt2())
            s._show_smt = [(lab, ex.sexpr()) for lab, ex in s.show]

    def as_dict(s):
        d = {"name": s.name, "level": s.level, "backend": s.backend, "verdict": s.verdict, "seconds": round(s.seconds, 3)}
        if s.fn:
            d["function"] = s.fn
        if s.detail:
            d["detail"] = s.detail
        return d


def static(name, ok, detail="", fn=None, level="P", meta=None):
    return Obl(name, verdict="proved" if ok else "refuted", detail=detail, fn=fn, level=level, kind="static", meta=meta)


def undecided(name, why, fn=None, level="P", meta=None):
    return Obl(name, verdict="undecided", detail=why, fn=fn, level=level, kind="static", meta=meta)


def _val(v):
    if z3.is_rational_value(v):
        n, d = v.numerator_as_long(), v.denominator_as_long()
        return {"num": str(n), "den": str(d), "float": n / d}
    if z3.is_algebraic_value(v):
        return {"float": float(v.approx(30).as_decimal(30).rstrip("?")), "algebraic": str(v)}
    if z3.is_fp_value(v):
        if v.isNaN():
            return {"float": float("nan")}
        if v.isInf():
            return {"float": float("-inf") if v.isNegative() else float("inf")}
        txt = str(v)                   # mantissa*(2**exponent) or a plain decimal
        try:
            if "*(2**" in txt:
                m_, e_ = txt.split("*(2**")
                return {"float": float(m_) * 2.0 ** int(e_.rstrip(")"))}
            return {"float": float(txt)}
        except Exception:  # noqa
            return str(v)
    if z3.is_int_value(v):
        return v.as_long()
    if z3.is_true(v):
        return True
    if z3.is_false(v):
        return False
    return str(v)


def _cvc5(smt2, timeout_ms):
    """second solver on the same SMT-LIB text; z3's internal `seq.nth_u` (the unspecified value of an out-of-range nth) is spelled seq.nth"""
    txt = "(set-logic ALL)\n" + smt2.replace("seq.nth_u", "seq.nth")
    try:
        cp = subprocess.run(["/usr/bin/cvc5", "--lang=smt2", f"--tlimit={int(timeout_ms)}", "--strings-exp", "--nl-ext-tplanes", "--produce-models", "-"],
                            input=txt, capture_output=True, text=True, timeout=timeout_ms / 1000 + 5)
        out = cp.stdout.strip().splitlines()
        return out[0].strip() if out else "unknown"
    except Exception:  # noqa
        return "unknown"


def _cross(job):
    smt2, timeout_ms = job
    t = time.time()
    return _cvc5(smt2, timeout_ms), time.time() - t


def cross_check(obls, timeout_s=10):
    """thorough tier: every obligation proved by z3 is decided again by cvc5; returns {agree, inconclusive, disagree: [names]}"""
    todo = [o for o in obls if o.verdict == "proved" and o.backend == "z3" and o.smt2 and o.expect == "unsat"]
    res = list(pool().map(_cross, [(o.smt2, timeout_s * 1000) for o in todo], chunksize=2)) if todo else []
    out = {"checked": len(todo), "agree": 0, "inconclusive": 0, "disagree": [], "seconds": round(sum(dt for _, dt in res), 1)}
    for o, (ans, dt) in zip(todo, res):
        if ans == "unsat":
            out["agree"] += 1; o.second = "cvc5: unsat"
        elif ans == "sat":
            out["disagree"].append(o.name); o.second = "cvc5: SAT"
        else:
            out["inconclusive"] += 1; o.second = "cvc5: " + ans[:40]
    return out


def _work(job):
    """worker: (smt2 text, timeout ms, show exprs, want sat?) -> (result, seconds, model dict, backend, raw)"""
    smt2, timeout_ms, show = job[:3]
    retries = job[3] if len(job) > 3 else 0
    import z3 as z
    t = time.time()
    for attempt in range(1 + retries):
        so = z.Solver(ctx=z.Context())          # a fresh context per query: nothing of the queries decided earlier by this worker influences the search
        so.set("timeout", int(timeout_ms))
        if attempt:
            so.set("random_seed", 7 * attempt); so.set("seed", 7 * attempt) if False else None
        try:
            so.from_string(smt2)
            r = so.check()
        except z.Z3Exception as ex:
            return ("unknown", time.time() - t, None, "z3", f"z3 exception: {ex}")
        if r != z.unknown:
            break
    dt = time.time() - t
    if r == z.unsat:
        return ("unsat", dt, None, "z3", "unsat")
    if r == z.sat:
        m = so.model()
        md = {}
        for d in m.decls():
            if d.arity() == 0:
                md[d.name()] = _val(m[d])
        return ("sat", dt, md, "z3", "sat")
    reason = so.reason_unknown()
    # second solver: cvc5 binary on the same SMT-LIB text
    t2 = time.time()
    ans = _cvc5(smt2, timeout_ms)
    dt2 = time.time() - t2
    if ans == "unsat":
        return ("unsat", dt + dt2, None, "cvc5", f"z3: unknown ({reason}); cvc5: unsat")
    return ("unknown", dt + dt2, None, "z3+cvc5", f"z3: unknown ({reason}); cvc5: {ans}")


_POOL = None


def pool():
    global _POOL
    if _POOL is None:
        n = int(os.environ.get("PYVC_JOBS", "0")) or min(16, os.cpu_count() or 4)
        _POOL = ProcessPoolExecutor(max_workers=n, mp_context=mp.get_context("spawn"))
    return _POOL


def discharge(obls, timeout_s=20):
    """decide every undecided obligation in place"""
    todo = [o for o in obls if o.verdict is None]
    # an obligation may ask for LESS time (best-effort explorations) and for further attempts under other solver seeds (quantified invariants: the search
    # order decides whether the needed instances are found in time; a second seed turns a rare slow run into a fast one)
    jobs = [(o.smt2, min(timeout_s, getattr(o, "timeout_s", timeout_s)) * 1000, getattr(o, "_show_smt", []), getattr(o, "retries", 0)) for o in todo]
    if not jobs:
        return obls
    if len(jobs) <= 2 or os.environ.get("PYVC_SERIAL"):
        results = [_work(j) for j in jobs]
    else:
        results = list(pool().map(_work, jobs, chunksize=1))
    for o, (res, dt, model, backend, raw) in zip(todo, results):
        o.seconds, o.backend, o.solver_output = dt, backend, raw
        if o.expect == "unsat":
            o.verdict = {"unsat": "proved", "sat": "refuted"}.get(res, "undecided")
            o.model = model
        else:   # vacuity guard: must be satisfiable
            o.verdict = {"sat": "proved", "unsat": "vacuous"}.get(res, "undecided")
            o.model = None
        if o.verdict == "undecided":
            o.detail = (o.detail + "; " if o.detail else "") + str(raw)
    return obls


def shutdown():
    global _POOL
    if _POOL is not None:
        # wait=True: a worker that is still being spawned when the parent exits dies with a traceback on stderr (harmless but noisy under load)
        _POOL.shutdown(wait=True, cancel_futures=True)
        _POOL = None
