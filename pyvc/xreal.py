"""Extended reals for z3 (DESIGN 4.1/4.2): the value of a float is (nan: Bool, inf: Int in {-1,0,1}, v: Real).

* IEEE special-value rules are exact (inf-inf, 0*inf, x/0, NaN comparisons, ...).
* Finite arithmetic is exact real arithmetic (assumption A-REAL); zeros are unsigned.
* Transcendental functions are uninterpreted functions on the real component with their special-value tables and
  *ground* axiom instances collected in an `Ax` object (assumption A-TF); sqrt is definitional.
"""
import math
import z3

RealS, IntS, BoolS = z3.RealSort(), z3.IntSort(), z3.BoolSort()
T, F = z3.BoolVal(True), z3.BoolVal(False)
I0, I1, IM1 = z3.IntVal(0), z3.IntVal(1), z3.IntVal(-1)
R0, R1 = z3.RealVal(0), z3.RealVal(1)

EXP = z3.Function("EXP", RealS, RealS)
LOG = z3.Function("LOG", RealS, RealS)
COS = z3.Function("COS", RealS, RealS)
SQRT = z3.Function("SQRT", RealS, RealS)
POW = z3.Function("POW", RealS, RealS, RealS)
PI = z3.Real("PI")


class X:
    """One extended real. `v` is meaningful only when finite (nan false, inf == 0)."""
    __slots__ = ("nan", "inf", "v")

    def __init__(s, nan, inf, v):
        s.nan, s.inf, s.v = nan, inf, v

    def __repr__(s):
        return f"X({z3.simplify(s.nan)}, {z3.simplify(s.inf)}, {z3.simplify(s.v)})"


def simp(x):
    return X(z3.simplify(x.nan), z3.simplify(x.inf), z3.simplify(x.v))


def const(c):
    if isinstance(c, X):
        return c
    if isinstance(c, bool):
        c = 1.0 if c else 0.0
    if isinstance(c, int):
        return X(F, I0, z3.RealVal(c))
    if isinstance(c, float):
        if c != c:
            return X(T, I0, R0)
        if c == math.inf:
            return X(F, I1, R0)
        if c == -math.inf:
            return X(F, IM1, R0)
        # exact value of the double
        num, den = c.as_integer_ratio()
        return X(F, I0, z3.Q(num, den))
    raise TypeError(f"const({c!r})")


def sym(name):
    """Fresh symbolic extended real and its well-formedness constraint."""
    x = X(z3.Bool(name + ".nan"), z3.Int(name + ".inf"), z3.Real(name + ".v"))
    return x, wf(x)


def finsym(name):
    """symbolic *finite* extended real (for operands whose precondition implies finiteness)"""
    return X(F, I0, z3.Real(name + ".v"))


def finite_part(x):
    """the value of x given that x is known finite (used only where a proved contract says so)"""
    return X(F, I0, z3.simplify(x.v))


def wf(x):
    return z3.And(x.inf >= -1, x.inf <= 1)


def fin(x):
    return z3.And(z3.Not(x.nan), x.inf == 0)


def sgn(x):
    """sign in {-1,0,1} of a non-NaN value"""
    return z3.If(x.inf != 0, x.inf, z3.If(x.v > 0, 1, z3.If(x.v < 0, -1, 0)))


def ite(c, a, b):
    return X(z3.If(c, a.nan, b.nan), z3.If(c, a.inf, b.inf), z3.If(c, a.v, b.v))


def norm(nan, inf, v):
    """normalise: inf is 0 when nan (v stays unconstrained when the value is not finite)"""
    return X(nan, z3.If(nan, 0, inf), v)


def neg(a):
    return X(a.nan, -a.inf, -a.v)


def add(a, b):
    nan = z3.Or(a.nan, b.nan, z3.And(a.inf != 0, b.inf != 0, a.inf != b.inf))
    inf = z3.If(a.inf != 0, a.inf, b.inf)
    return norm(nan, inf, a.v + b.v)


def sub(a, b):
    return add(a, neg(b))


def mul(a, b):
    anyinf = z3.Or(a.inf != 0, b.inf != 0)
    sa, sb = sgn(a), sgn(b)
    nan = z3.Or(a.nan, b.nan, z3.And(anyinf, z3.Or(sa == 0, sb == 0)))
    inf = z3.If(anyinf, sa * sb, 0)
    return norm(nan, inf, a.v * b.v)


def div(a, b):
    # numpy float64 semantics: x/0 = +-inf by sign(x) (0/0 nan; zeros unsigned = +0), inf/inf nan, fin/inf = 0
    sa, sb = sgn(a), sgn(b)
    bzero = z3.And(b.inf == 0, b.v == 0)
    nan = z3.Or(a.nan, b.nan, z3.And(a.inf != 0, b.inf != 0), z3.And(bzero, sa == 0))
    inf = z3.If(a.inf != 0, a.inf * z3.If(sb == 0, 1, sb), z3.If(bzero, sa, 0))
    v = z3.If(b.inf != 0, R0, z3.If(bzero, R0, a.v / b.v))
    return norm(nan, inf, v)


def _notnan(a, b):
    return z3.And(z3.Not(a.nan), z3.Not(b.nan))


def lt(a, b):
    return z3.And(_notnan(a, b), z3.If(z3.And(a.inf == 0, b.inf == 0), a.v < b.v, a.inf < b.inf))


def le(a, b):
    return z3.And(_notnan(a, b),
                  z3.If(z3.And(a.inf == 0, b.inf == 0), a.v <= b.v,
                        z3.If(z3.And(a.inf != 0, b.inf != 0), a.inf <= b.inf, a.inf < b.inf)))


def gt(a, b):
    return lt(b, a)


def ge(a, b):
    return le(b, a)


def eq(a, b):
    return z3.And(_notnan(a, b), a.inf == b.inf, z3.Or(a.inf != 0, a.v == b.v))


def ne(a, b):
    return z3.Not(eq(a, b))


def same(a, b):
    """specification-level identity (NaN is the same as NaN)"""
    return z3.Or(z3.And(a.nan, b.nan), eq(a, b))


def b2x(c):
    return X(F, I0, z3.If(c, R1, R0))


def isnan(a):
    return a.nan


def isfinite(a):
    return fin(a)


def isinf(a):
    return z3.And(z3.Not(a.nan), a.inf != 0)


def square(a):
    return mul(a, a)


def xabs(a):
    return X(a.nan, z3.If(a.inf != 0, 1, 0), z3.If(a.v >= 0, a.v, -a.v))


def np_minimum(a, b):
    """numpy.minimum / maximum propagate NaN"""
    r = ite(lt(b, a), b, a)
    return ite(z3.Or(a.nan, b.nan), const(math.nan), r)


def np_maximum(a, b):
    r = ite(gt(b, a), b, a)
    return ite(z3.Or(a.nan, b.nan), const(math.nan), r)


def py_min(a, b):
    """builtin min(a, b) == b if b < a else a   (NaN-asymmetric)"""
    return ite(lt(b, a), b, a)


def py_max(a, b):
    return ite(gt(b, a), b, a)


def clip(x, lo, hi):
    """numpy.clip(x, lo, hi) == minimum(maximum(x, lo), hi)"""
    return np_minimum(np_maximum(x, lo), hi)


def nan_to_num(x, nan, neginf, posinf):
    return ite(x.nan, nan, ite(x.inf == 1, posinf, ite(x.inf == -1, neginf, x)))


class Ax:
    """Collects the applications of the uninterpreted transcendental functions occurring in one obligation and emits
    the ground axiom instances of DESIGN 4.2 for them (no quantifier ever reaches the solver)."""

    def __init__(s):
        s.exp, s.log, s.cos, s.sqrt, s.pow = [], [], [], [], []
        s.sq = []        # arguments of squares: valid NRA lemmas |a| <= |b| => a*a <= b*b are supplied as solver hints (not assumptions)
        s.used = set()

    # ---- lifted functions
    def xexp(s, a):
        s.exp.append(a.v); s.used.add("exp")
        nan = a.nan
        inf = z3.If(a.inf == 1, 1, 0)
        return norm(nan, inf, z3.If(a.inf == -1, R0, EXP(a.v)))

    def xlog(s, a):
        s.log.append(a.v); s.used.add("log")
        neg_ = z3.Or(a.inf == -1, z3.And(a.inf == 0, a.v < 0))
        zero = z3.And(a.inf == 0, a.v == 0)
        nan = z3.Or(a.nan, neg_)
        inf = z3.If(a.inf == 1, 1, z3.If(zero, -1, 0))
        return norm(nan, inf, LOG(a.v))

    def xsqrt(s, a):
        s.sqrt.append(a.v); s.used.add("sqrt")
        neg_ = z3.Or(a.inf == -1, z3.And(a.inf == 0, a.v < 0))
        nan = z3.Or(a.nan, neg_)
        inf = z3.If(a.inf == 1, 1, 0)
        return norm(nan, inf, SQRT(a.v))

    def xcos(s, a):
        s.cos.append(a.v); s.used.add("cos")
        return norm(z3.Or(a.nan, a.inf != 0), I0, COS(a.v))

    def xpow(s, b, e):
        """numpy.power / float_power on doubles. Negative bases with a non-zero exponent are not modelled: the result
        is an unconstrained fresh value (sound over-approximation; nothing can be proved from it)."""
        s.pow.append((b.v, e.v)); s.used.add("pow")
        ezero = z3.And(z3.Not(e.nan), e.inf == 0, e.v == 0)
        bone = z3.And(z3.Not(b.nan), b.inf == 0, b.v == 1)
        anynan = z3.Or(b.nan, e.nan)
        bneg = z3.And(z3.Not(b.nan), z3.Or(b.inf == -1, z3.And(b.inf == 0, b.v < 0)))
        bzero = z3.And(b.inf == 0, b.v == 0)
        epos = z3.Or(e.inf == 1, z3.And(e.inf == 0, e.v > 0))
        blt1 = z3.And(b.inf == 0, b.v < 1)       # 0 <= b < 1 (given not negative)
        k = len(s.pow)
        unk, _ = sym(f"pow.unmodelled{k}.{id(s) % 9973}")
        # finite positive base, finite exponent -> POW; base 0 -> 0 / inf; base inf -> inf / 0; exponent +-inf
        inf = z3.If(e.inf != 0,
                    z3.If(z3.Or(z3.And(epos, z3.Not(blt1)), z3.And(z3.Not(epos), blt1)), 1, 0),
                    z3.If(b.inf == 1, z3.If(epos, 1, 0),
                          z3.If(bzero, z3.If(epos, 0, 1), 0)))
        v = z3.If(z3.Or(e.inf != 0, b.inf != 0, bzero), R0, POW(b.v, e.v))
        gen = norm(F, inf, v)
        r = ite(ezero, const(1.0), ite(bone, const(1.0), ite(anynan, const(math.nan), ite(bneg, unk, gen))))
        return r

    def xsquare(s, a):
        s.sq.append(a.v)
        return mul(a, a)

    def square_hints(s):
        """valid lemmas of real arithmetic for pairs of squared terms (they only help the nonlinear solver; nothing is assumed)"""
        out = []
        sq = _dedup(s.sq)
        for i, a in enumerate(sq):
            out.append(a * a >= 0)
            for b in sq[i + 1:]:
                for u, v in ((a, b), (b, a)):
                    out += [z3.Implies(z3.And(-v <= u, u <= v), u * u <= v * v), z3.Implies(z3.And(v <= u, u <= -v), u * u <= v * v)]
        return out

    # ---- ground axioms
    def axioms(s):
        ax = []
        if "cos" in s.used or True:
            ax += [PI > z3.RealVal("3.14159"), PI < z3.RealVal("3.1416")]
        exp_occ = list(s.exp)
        log_occ = list(s.log)
        # exp(log t) = t, log(exp t) = t   (one round)
        for t in s.log:
            ax.append(z3.Implies(t > 0, EXP(LOG(t)) == t))
            exp_occ.append(LOG(t))
        for t in s.exp:
            ax.append(LOG(EXP(t)) == t)
        exp_occ = _dedup(exp_occ)
        log_occ = _dedup(log_occ)
        for t in exp_occ:
            ax += [EXP(t) > 0, z3.Implies(t <= 0, EXP(t) <= 1), z3.Implies(t >= 0, EXP(t) >= 1)]
        for i, t in enumerate(exp_occ):
            for u in exp_occ[i + 1:]:
                ax += [z3.Implies(t < u, EXP(t) < EXP(u)), z3.Implies(u < t, EXP(u) < EXP(t))]
        for t in log_occ:
            ax += [z3.Implies(t == 1, LOG(t) == 0)]
        for i, t in enumerate(log_occ):
            for u in log_occ[i + 1:]:
                ax += [z3.Implies(z3.And(t > 0, t < u), LOG(t) < LOG(u)), z3.Implies(z3.And(u > 0, u < t), LOG(u) < LOG(t))]
        sq = _dedup(s.sqrt)
        for t in sq:   # definitional
            ax += [z3.Implies(t >= 0, z3.And(SQRT(t) >= 0, SQRT(t) * SQRT(t) == t))]
        for i, t in enumerate(sq):
            for u in sq[i + 1:]:
                ax += [z3.Implies(z3.And(t >= 0, t <= u), SQRT(t) <= SQRT(u)), z3.Implies(z3.And(u >= 0, u <= t), SQRT(u) <= SQRT(t))]
        for t in _dedup(s.cos):
            ax += [COS(t) >= -1, COS(t) <= 1, z3.Implies(t == 0, COS(t) == 1),
                   z3.Implies(t == PI, COS(t) == -1), z3.Implies(t == -PI, COS(t) == -1)]
        pw = _dedup_pairs(s.pow)
        for b, e in pw:
            ax += [z3.Implies(b > 0, POW(b, e) > 0), z3.Implies(e == 0, POW(b, e) == 1),
                   z3.Implies(b == 1, POW(b, e) == 1), z3.Implies(e == 1, POW(b, e) == b),
                   z3.Implies(e == 2, POW(b, e) == b * b),
                   z3.Implies(z3.And(b > 1, e > 0), POW(b, e) > 1), z3.Implies(z3.And(b > 0, b < 1, e > 0), POW(b, e) < 1),
                   z3.Implies(z3.And(b > 1, e < 0), POW(b, e) < 1), z3.Implies(z3.And(b > 0, b < 1, e < 0), POW(b, e) > 1)]
        for i, (b, e) in enumerate(pw):
            for (b2, e2) in pw[i + 1:]:
                ax += [z3.Implies(z3.And(e == e2, e > 0, b > 0, b < b2), POW(b, e) < POW(b2, e2)),
                       z3.Implies(z3.And(e == e2, e > 0, b2 > 0, b2 < b), POW(b2, e2) < POW(b, e))]
        return ax


def _dedup(ts):
    seen, out = set(), []
    for t in ts:
        k = t.get_id()
        if k not in seen:
            seen.add(k); out.append(t)
    return out


def _dedup_pairs(ps):
    seen, out = set(), []
    for b, e in ps:
        k = (b.get_id(), e.get_id())
        if k not in seen:
            seen.add(k); out.append((b, e))
    return out


class SymAlg:
    """Symbolic interpretation of the ghost-spec algebra (see pyvc.falg.FloatAlg for the concrete one)."""
    name = "xreal"

    def __init__(s, ax=None):
        s.ax = ax or Ax()
        s.PI = X(F, I0, PI)
        s.NAN = const(math.nan); s.INF = const(math.inf); s.NINF = const(-math.inf)
        s.ZERO = const(0.0); s.ONE = const(1.0)

    def c(s, v): return const(float(v)) if not isinstance(v, X) else v
    def neg(s, a): return neg(a)
    def add(s, a, b): return add(a, b)
    def sub(s, a, b): return sub(a, b)
    def mul(s, a, b): return mul(a, b)
    def div(s, a, b): return div(a, b)
    def abs(s, a): return xabs(a)
    def square(s, a): return s.ax.xsquare(a)
    def sqrt(s, a): return s.ax.xsqrt(a)
    def exp(s, a): return s.ax.xexp(a)
    def log(s, a): return s.ax.xlog(a)
    def cos(s, a): return s.ax.xcos(a)
    def pow(s, a, b): return s.ax.xpow(a, b)
    def minimum(s, a, b): return np_minimum(a, b)
    def maximum(s, a, b): return np_maximum(a, b)
    def pymin(s, a, b): return py_min(a, b)
    def pymax(s, a, b): return py_max(a, b)
    def lt(s, a, b): return lt(a, b)
    def le(s, a, b): return le(a, b)
    def gt(s, a, b): return gt(a, b)
    def ge(s, a, b): return ge(a, b)
    def eq(s, a, b): return eq(a, b)
    def ne(s, a, b): return ne(a, b)
    def isnan(s, a): return a.nan
    def isposinf(s, a): return z3.And(z3.Not(a.nan), a.inf == 1)
    def isneginf(s, a): return z3.And(z3.Not(a.nan), a.inf == -1)
    def fin(s, a): return fin(a)
    def and_(s, *bs): return z3.And(*bs) if bs else T
    def or_(s, *bs): return z3.Or(*bs) if bs else F
    def not_(s, b): return z3.Not(b)
    def implies(s, a, b): return z3.Implies(a, b)
    def ite(s, c, a, b): return ite(c, a, b)
    def bite(s, c, a, b): return z3.If(c, a, b)
    def b2x(s, c): return b2x(c)
    def same(s, a, b): return same(a, b)


def model_value(m, x):
    """concretise an X under a z3 model -> python float (nan/inf/finite)"""
    nan = m.eval(x.nan, model_completion=True)
    if z3.is_true(nan):
        return math.nan
    inf = m.eval(x.inf, model_completion=True).as_long()
    if inf:
        return math.inf * inf
    v = m.eval(x.v, model_completion=True)
    return ratval(v)


def ratval(v):
    if z3.is_rational_value(v):
        return v.numerator_as_long() / v.denominator_as_long()
    if z3.is_algebraic_value(v):
        return float(v.approx(30).as_decimal(30).rstrip("?"))
    try:
        return float(str(v))
    except Exception:
        return float("nan")
