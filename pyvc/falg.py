"""Concrete interpretation of the ghost-specification algebra (IEEE doubles through numpy.float64).

The ghost spec functions in /verif/contracts are written once against an algebra object `A`.
`pyvc.xreal.SymAlg` interprets them symbolically (extended reals in z3); this module interprets the *same text*
concretely, so that the oracle used to judge a native replay is literally the postcondition that failed.
This module must stay importable without z3 (it runs under /venv/bin/python next to the real package).
"""
import math
import numpy as np

np.seterr(all="ignore")


class FloatAlg:
    name = "float64"
    PI = np.float64(math.pi)
    NAN = np.float64("nan")
    INF = np.float64("inf")
    NINF = np.float64("-inf")
    ZERO = np.float64(0.0)
    ONE = np.float64(1.0)

    def c(self, v):
        return np.float64(v)

    def neg(self, a): return -np.float64(a)
    def add(self, a, b): return np.float64(a) + np.float64(b)
    def sub(self, a, b): return np.float64(a) - np.float64(b)
    def mul(self, a, b): return np.float64(a) * np.float64(b)
    def div(self, a, b): return np.float64(a) / np.float64(b)
    def abs(self, a): return np.abs(np.float64(a))
    def square(self, a): return np.float64(a) * np.float64(a)
    def sqrt(self, a): return np.sqrt(np.float64(a))
    def exp(self, a): return np.exp(np.float64(a))
    def log(self, a): return np.log(np.float64(a))
    def cos(self, a): return np.cos(np.float64(a))
    def pow(self, a, b): return np.power(np.float64(a), np.float64(b))
    def minimum(self, a, b): return np.minimum(np.float64(a), np.float64(b))
    def maximum(self, a, b): return np.maximum(np.float64(a), np.float64(b))
    def pymin(self, a, b): return b if b < a else a
    def pymax(self, a, b): return b if b > a else a
    def lt(self, a, b): return bool(a < b)
    def le(self, a, b): return bool(a <= b)
    def gt(self, a, b): return bool(a > b)
    def ge(self, a, b): return bool(a >= b)
    def eq(self, a, b): return bool(a == b)
    def ne(self, a, b): return bool(a != b)
    def isnan(self, a): return bool(np.isnan(a))
    def isposinf(self, a): return bool(a == np.inf)
    def isneginf(self, a): return bool(a == -np.inf)
    def fin(self, a): return bool(np.isfinite(a))
    def and_(self, *bs): return all(bs)
    def or_(self, *bs): return any(bs)
    def not_(self, b): return not b
    def implies(self, a, b): return (not a) or b
    def ite(self, c, a, b): return a if c else b
    def bite(self, c, a, b): return a if c else b
    def b2x(self, c): return np.float64(1.0 if c else 0.0)
    def same(self, a, b, rel=1e-9, abs_=1e-12):
        a = np.float64(a); b = np.float64(b)
        if np.isnan(a) or np.isnan(b):
            return bool(np.isnan(a) and np.isnan(b))
        if np.isinf(a) or np.isinf(b):
            return bool(a == b)
        return bool(abs(a - b) <= max(abs_, rel * max(abs(a), abs(b))))


FA = FloatAlg()


class FracAlg:
    """EXACT interpretation of the rational part of the spec algebra (+ - * / min max comparisons) on fractions.Fraction: the value of a closed form
    as a real number at the given doubles, free of the rounding of a floating-point evaluation of the oracle itself.  None = undefined (x/0)."""
    name = "exact rational"

    def c(self, v):
        from fractions import Fraction
        return None if v is None or v != v else Fraction(float(v))

    def _2(self, a, b, f):
        return None if a is None or b is None else f(a, b)

    def add(self, a, b): return self._2(a, b, lambda x, y: x + y)
    def sub(self, a, b): return self._2(a, b, lambda x, y: x - y)
    def mul(self, a, b): return self._2(a, b, lambda x, y: x * y)
    def div(self, a, b): return self._2(a, b, lambda x, y: None if y == 0 else x / y)
    def neg(self, a): return None if a is None else -a
    def square(self, a): return None if a is None else a * a
    def minimum(self, a, b): return self._2(a, b, min)
    def maximum(self, a, b): return self._2(a, b, max)
    def lt(self, a, b): return bool(a < b)
    def le(self, a, b): return bool(a <= b)
    def gt(self, a, b): return bool(a > b)
    def ge(self, a, b): return bool(a >= b)
    def eq(self, a, b): return bool(a == b)
    def ne(self, a, b): return bool(a != b)
    def and_(self, *bs): return all(bs)
    def or_(self, *bs): return any(bs)
    def not_(self, b): return not b
    def ite(self, c, a, b): return a if c else b


QA = FracAlg()
