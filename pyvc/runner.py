"""Per-property run: collect obligations, discharge, replay refutations natively, apply known findings, write evidence,
print VIOLATION / KNOWN-FINDING / UNDECIDED lines and pick the exit code (DESIGN 7, 13).

Exit codes: 0 held (or only listed known findings) | 1 violation | 2 undecided | 3 checker fault.
"""
import ast
import itertools
import json
import math
import os
import re
import subprocess
import sys
import time
import traceback

from . import solve
from .source import Source, REPO

VERIF = os.path.dirname(os.path.dirname(os.path.abspath(__file__)))
NATIVE_PY = os.environ.get("PYVC_NATIVE_PY", "/venv/bin/python")
OUT = os.environ.get("PYVC_OUT", VERIF)      # self-test runs on scratch trees write their evidence/replays elsewhere

ASSUMPTIONS = {
    "A-REAL": "finite float arithmetic is treated as exact real arithmetic; zeros unsigned; no overflow/underflow (special values NaN/+-inf are exact)",
    "A-TF": "ground axioms of exp/log/cos/pow (positivity, monotonicity, exp-log inverse, cos bounds and values at 0,+-pi) hold of NumPy's functions; sqrt is definitional",
    "A-NP": "value/kind models of the NumPy primitives used on verified paths (where, isnan, minimum, maximum, clip, nan_to_num, full_like, abs, square, ...) - conformance-checked against the installed NumPy on every run",
    "A-NP/interp": "assumed contract of numpy.interp: piecewise-linear interpolation of the table, end values outside it, NaN iff x is NaN (cross-checked by a bounded run-time stand-in)",
    "A-SET": "numeric obligations that read library settings (atol, rtol) are stated for the library's default settings, read from the signature of library.Settings.__init__",
    "A-LISTVAL": "list-valued fields are values: no list object is shared between two fields (constructors copy with list(...))",
    "A-ACTVAL": "Activated terms stored in a fuzzy output are immutable values (term, cleaned degree, implication); the real constructor and degree setter are verified against this model in C07",
    "A-WF": "well-formedness of loaded rules and engines (conclusions have a variable with terms and a term; expression trees are finite and well-formed; a rule occurs once in its block; an output variable owns its fuzzy output) is a heap invariant established by the loaders and constructors",
    "A-KIND": "Defuzzifier.defuzzify returns an ndarray (np.nditer / item assignment need one); checked per concrete defuzzifier elsewhere",
    "H-WS": "hypothesis of property C19 itself: rules are written with whitespace-separated tokens, so the loaded expression tree has an `and`/`or` node iff ' and '/' or ' occurs in the antecedent text",
    "A-DEEPCOPY": "copy.deepcopy returns a fresh object graph isomorphic to the original with internal references redirected (no class of the package overrides the copy protocol: checked statically)",
    "A-LOADERS": "Antecedent.load / Consequent.load used through contracts: unload first; then either raise leaving the part unloaded, or store the structure parsed from the CURRENT text for the GIVEN engine (their bodies are the subject of C16)",
    "A-GROUPED": "Aggregated.grouped_terms is used through the ghost sequence grouped(terms, aggregation) (one activation per term name, first-occurrence order, degrees folded with the aggregation operator); its body is exercised by a bounded stand-in only",
    "A-CTX": "contextlib.contextmanager / generator semantics: the code after `yield` runs exactly once on a normal exit; an exception of the with-body is raised at the `yield`, so only finally blocks and matching except handlers run; locals() at the first statement is self + the keyword parameters",
    "A-SHAPE": "the membership of a batch of N aggregated sets evaluated at the (1, r) array of sample points is an (N, r) array whose row i belongs to set i (the shape behaviour of Activated/Aggregated.membership is the subject of C02)",
    "A-FMT": "number formatting/parsing as uninterpreted functions: to_float(Op.str(x)) == rnd(x) with |rnd(x) - x| <= 10**-decimals / 2, rnd idempotent, Op.str(rnd(x)) == Op.str(x), NaN and +-inf survive, values with at most one decimal are representable at every decimals setting (1..9); int(str(i)) == i",
    "A-REFLECT": "inspect.signature(Class.__init__) reports the parameters and defaults written in the source; vars(obj) is the map of the instance fields assigned by the constructors; eval of a printed constructor call binds positional arguments in order and keywords by name; float(repr(x)) == x (CPython)",
    "A-BCAST": "NumPy broadcasting of shapes is associative, commutative and idempotent, so the shape of an aggregation fold over any number of activated terms is the broadcast of the kinds (scalar / batch) that occur - the shape cases are analysed for up to two terms",
    "A-POW": "floating-point pow(values, 1.0/n) returns the true n-th root up to a relative error of 2**-50 (IEEE pow is accurate to < 1 ulp); int() truncates, round() returns a nearest integer; decided for n = 1..4 input variables (the property's domain) and 1 <= values <= 1e9",
    "A-POSTFIX": "the order theorem for infix_to_postfix is positional (each operator is emitted at its first closer, the queue is ordered by step then position descending); that a postfix text with this property, read by the standard stack machine (Antecedent.load / Function.parse: an operator takes the two latest trees, right = latest), is the tree of the precedence grammar is the textbook equivalence, not mechanised here; the provenance ghost (each moved string carried with the position it was read at) is a lockstep instrumentation of the executor; prefix operators, function calls and commas are outside the theorem's precondition (bounded stand-in only)",
    "A-STR": "strings are values of an uninterpreted sort; str.split / ' '.join / find('#') / slicing / float(text) are uninterpreted functions of the text (split_fn, join_fn, ...): the obligations speak about TOKENS; ' '.join(tokens).split() == tokens for tokens without white space; character-level formatting (Function.format_infix) is outside",
    "A-FRESH": "an object created by a constructor call is distinct from None and from every object that existed before (ghost allocation clock)",
    "A-HEAPQ": "heapq.heappush/heappop implement a min-priority queue on tuples",
    "A-PY": "attribute lookup follows the MRO read from the source; no monkey-patching/metaclasses/__getattr__ on verified classes",
    "A-MSG": "building an exception message neither raises nor has effects (message text is not evaluated)",
    "A-LOG": "logging calls neither raise nor mutate library state (dropped by extraction)",
    "A-LIFT": "an element-wise NumPy expression evaluated on an array equals its evaluation on each element (broadcasting of the primitives in A-NP); premise `oblivious` is machine-checked",
    "solvers": "z3 5.1.0 / cvc5 are sound; the symbolic executor implements DESIGN 3-5 faithfully (guarded by the mutant self-test and the NumPy conformance pass)",
}


def nextafter(x, d):
    return math.nextafter(x, d)


# static obligations whose failure is a RESULT of analysing the code (not a comparison of its text with an expected spelling): refuted = violation even without a failing input
_DECISIVE = ("modifies", "oblivious", "raises.", "returns", "writes_nothing", "result.shape", "x.shape", "rowwise", "reductions", "two_row_sums", "batch_of_N_rows_gives_N_values",
             "classes", "declared", "registration", "dual.pairs", "tsukamoto.refuses_iff_not_monotonic", "lemma.", "split", "np.nditer", "masked item assignment", "exists",
             "elementwise_meaning", "meaning[", "arity[", "arities_are", "exactly_the_", "strictly_decreasing", "table[", "and_or_table", "default_associativity_left",
             "no_global_state_written", "no_custom_copy_hooks", "leaf_methods_store_nothing", "is_contextmanager", "decorators_modelled", "ieee.", "calls.modify")


def _decisive(name):
    tail = name.split("/", 2)[-1] if name.count("/") >= 2 else name.split("/")[-1]
    return any(k in tail for k in _DECISIVE)


class Run:
    def __init__(s, pid, title="", argv=None):
        argv = sys.argv[1:] if argv is None else argv
        s.pid, s.title = pid, title
        s.tier = os.environ.get("VERIF_TIER", "quick")
        if "--tier" in argv:
            s.tier = argv[argv.index("--tier") + 1]
        if s.tier not in ("quick", "thorough"):
            s.tier = "quick"
        s.seed = int(os.environ.get("VERIF_SEED", "0") or 0)
        if "--seed" in argv:
            s.seed = int(argv[argv.index("--seed") + 1])
        s.repo = os.environ.get("PYVC_REPO", REPO)
        if "--repo" in argv:
            s.repo = argv[argv.index("--repo") + 1]
        s.src = Source(s.repo)
        s.obls, s.functions, s.assumed, s.bounded_log, s.notes = [], {}, set(), [], []
        s.wrapped = {}
        s._safety_seen = {}
        s.known_classes = []      # failure classes of the native harnesses that belong to listed known findings
        s.t0 = time.time()
        s.timeout = 40 if s.tier == "quick" else 300
        s.level = "proof"
        s.extra_cov = {}
        s.bounded_failures = []       # [(name, replay dict)]
        s.kf_bounded = []             # [(finding, record)] known findings witnessed by a bounded stand-in

    # ------------------------------------------------------------ building
    def add(s, *obls):
        for o in obls:
            if isinstance(o, (list, tuple)):
                s.add(*o)
            else:
                o.name = o.name if o.name.startswith(s.pid + "/") else f"{s.pid}/{o.name}"
                if "/safety/" in o.name:          # the same site reached again (an inlined callee called twice, another path): numbered, not a duplicate
                    k = s._safety_seen[o.name] = s._safety_seen.get(o.name, 0) + 1
                    if k > 1:
                        o.name = f"{o.name}#{k}"
                s.obls.append(o)

    MODELLED_DECORATORS = re.compile(r"^(staticmethod|classmethod|property|[\w.]+\.(setter|getter|deleter)|(contextlib\.)?contextmanager|(typing\.)?(overload|final|override|no_type_check)|"
                                     r"(abc\.)?abstractmethod)$")

    def under_contract(s, module, qual, node):
        s.functions[f"fuzzylite.{module}.{qual}"] = {"where": s.src.where(module, node), "hash": s.src.fhash(module, node)}
        # the obligations speak about the function BODY; a decorator that wraps the function (a cache, a retry, ...) makes the code that runs
        # something else, so the proof does not transfer: recorded as an undecided obligation (a violation if the native replay reproduces a failure)
        extra = [ast.unparse(d) for d in getattr(node, "decorator_list", []) if not s.MODELLED_DECORATORS.match(ast.unparse(d))]
        if extra:
            s.wrapped[f"{module}.{qual.replace('[setter]', '')}"] = extra

    def assume(s, *ids):
        s.assumed.update(ids)
        if "A-NP" in ids and not getattr(s, "_conformance_done", False):
            # model-conformance pass (DESIGN 4.3): the NumPy models are compared with the installed NumPy on every run; a disagreement is a
            # checker fault (exit 3), never a violation
            s._conformance_done = True
            from . import conformance
            t = time.time()
            try:
                ok, n, detail = conformance.check(NATIVE_PY)
            except Exception as ex:  # noqa
                ok, n, detail = False, 0, f"conformance pass crashed: {type(ex).__name__}: {ex}"
            s.extra_cov["numpy_model_conformance"] = {"cases": n, "agree": ok, "detail": detail, "seconds": round(time.time() - t, 2)}
            if not ok:
                s.conformance_fault = detail

    # ------------------------------------------------------------ bounded stand-ins (level B, never counted as proved)
    def bounded(s, name, module, func, calls, bound, first_failure=True):
        """run a bounded stand-in natively; each call returns {"failed": bool, ...}"""
        name = name if name.startswith(s.pid + "/") else f"{s.pid}/{name}"
        t = time.time()
        res = s.native(module, func, calls, first_failure=first_failure)
        crashed = [r for r in res if r.get("crash")]
        if crashed:
            raise RuntimeError(f"bounded stand-in {name} crashed: {crashed[0]['crash']} {crashed[0].get('trace', '')}")
        fails = [r for r in res if r.get("failed")]
        cases = sum(int(r.get("cases", 1)) for r in res)
        distinct = sum(int(r.get("distinct", r.get("cases", 1))) for r in res)
        s.bounded_log.append({"name": name, "level": "B", "bound": bound, "cases": cases, "distinct_nontrivial": distinct, "failures": len(fails),
                          "seconds": round(time.time() - t, 2), "sample": {k: v for k, v in (res[0] if res else {}).items() if k in ("sample", "call", "observed")}})
        for r in fails:
            s.bounded_failures.append((name, r))
        return res

    def bounded_known(s, name, module, func, call, finding_id):
        """witness run for a failure class that a bounded stand-in skips because it is a recorded known finding: if the class still fails it is
        reported as KNOWN-FINDING (when the finding is listed as `known`) or as a violation (when it is not listed); if it no longer fails,
        nothing is printed (a stale finding suppresses nothing)"""
        name = name if name.startswith(s.pid + "/") else f"{s.pid}/{name}"
        res = s.native(module, func, [call], first_failure=True)
        crashed = [r for r in res if r.get("crash")]
        if crashed:
            raise RuntimeError(f"witness run {name} crashed: {crashed[0]['crash']} {crashed[0].get('trace', '')}")
        fails = [r for r in res if r.get("failed")]
        s.bounded_log.append({"name": name, "level": "B", "bound": f"witness of known finding {finding_id}: {call}", "cases": sum(int(r.get("cases", 1)) for r in res), "failures": len(fails)})
        if not fails:
            return
        listed = [f for f in s.known_findings() if f.get("id") == finding_id and f.get("status") == "known"]
        if listed:
            s.known_classes.append(str(call.get("only_class") or fails[0].get("class") or ""))
            s.kf_bounded.append((listed[0], fails[0]))
        else:
            s.bounded_failures.append((name, fails[0]))

    # ------------------------------------------------------------ native replay
    def native(s, module, func, calls, first_failure=True, timeout=600):
        job = {"repo": s.repo, "module": module, "func": func, "calls": calls, "first_failure": first_failure}
        cp = subprocess.run([NATIVE_PY, os.path.join(VERIF, "pyvc", "native.py")], input=json.dumps(job), capture_output=True,
                            text=True, timeout=timeout, cwd=VERIF)
        try:
            out = json.loads(cp.stdout)
        except Exception:
            raise RuntimeError(f"native replay crashed: {cp.stdout[-500:]} {cp.stderr[-1500:]}")
        if out.get("error"):
            raise RuntimeError("native replay error: " + out["error"])
        return out["results"]

    @staticmethod
    def model_float(model, prefix):
        if model is None:
            return None
        nan = model.get(prefix + ".nan", False)
        if nan is True:
            return math.nan
        inf = model.get(prefix + ".inf", 0)
        if isinstance(inf, int) and inf != 0:
            return math.inf * inf
        v = model.get(prefix + ".v", 0)
        if isinstance(v, dict):
            return float(v["float"])
        if isinstance(v, (int, float)):
            return float(v)
        return 0.0

    def candidates(s, base):
        """base assignment, then +-1ulp neighbours (a model may sit exactly on a real-arithmetic boundary)"""
        names = list(base)
        yield dict(base)
        alts = {}
        for n in names:
            v = base[n]
            if isinstance(v, float) and math.isfinite(v):
                alts[n] = [v, nextafter(v, math.inf), nextafter(v, -math.inf)]
            else:
                alts[n] = [v]
        if len(names) <= 4:
            for combo in itertools.product(*[alts[n] for n in names]):
                d = dict(zip(names, combo))
                if d != base:
                    yield d
        else:
            for n in names:
                for a in alts[n][1:]:
                    d = dict(base); d[n] = a
                    yield d

    def replay(s, o):
        """returns (status, record): status in reproduced | not-reproduced | no-replay"""
        rp = o.meta.get("replay")
        if not rp:
            return "no-replay", None
        if o.model is None:     # static obligation (e.g. `oblivious`): replay with the contract's default witness values
            dflt = rp.get("default", {})
            base = {k: dflt.get(k, [0.5, 0.25, 0.75, 0.125][i % 4]) for i, k in enumerate(rp.get("vars", {}))}
        else:
            base = {k: s.model_float(o.model, pref) for k, pref in rp.get("vars", {}).items()}
        for k, name in rp.get("ints", {}).items():
            base[k] = (o.model or {}).get(name, 0)
        for k, name in rp.get("fp", {}).items():          # IEEE obligations: the model's doubles are the witness as they are
            v = (o.model or {}).get(name)
            if isinstance(v, dict) and "float" in v:
                base[k] = v["float"]
        calls = []
        for vals in itertools.islice(s.candidates(base), 800):
            kw = dict(rp.get("kwargs", {})); kw["vals"] = vals
            calls.append(kw)
        try:
            res = s.native(rp["module"], rp["func"], calls)
        except Exception as ex:  # noqa
            return "no-replay", {"error": str(ex)}
        crashes = [r for r in res if r.get("crash")]
        for r in res:
            if r.get("failed"):
                return "reproduced", r
        # directed search around the model, if the contract module offers one
        if rp.get("search"):
            try:
                res2 = s.native(rp["module"], rp["search"], [dict(rp.get("kwargs", {}), vals=base, seed=s.seed)])
                for r in res2:
                    if r.get("failed"):
                        return "reproduced", r
            except Exception as ex:  # noqa
                crashes.append({"crash": str(ex)})
        return "not-reproduced", {"tried": len(res), "model": base, "crashes": crashes[:2]}

    # ------------------------------------------------------------ known findings
    def known_findings(s):
        p = os.path.join(VERIF, "known_findings.json")
        if not os.path.exists(p):
            return []
        return [f for f in json.load(open(p)).get("findings", []) if f.get("property") == s.pid]

    # ------------------------------------------------------------ finish
    def finish(s):
        try:
            return s._finish()
        finally:
            solve.shutdown()

    def _finish(s):
        if getattr(s, "conformance_fault", None):
            print(f"CHECKER-FAULT property={s.pid} NumPy model conformance failed (assumption A-NP does not hold of the installed NumPy): {s.conformance_fault[:600]}")
            return 3
        if not s.obls:
            print(f"CHECKER-FAULT property={s.pid} zero obligations generated")
            return 3
        names = [o.name for o in s.obls]
        dups = {n for n in names if names.count(n) > 1}
        if dups:
            print(f"CHECKER-FAULT property={s.pid} duplicate obligation names: {sorted(dups)[:5]}")
            return 3
        for fq, decs in sorted(s.wrapped.items()):
            rp = next((o.meta.get("replay") for o in s.obls if o.fn == fq and o.meta.get("replay")), None) or next((o.meta.get("replay") for o in s.obls if o.fn and o.fn.startswith(fq.rsplit(".", 1)[0]) and o.meta.get("replay")), None)
            s.obls.append(solve.undecided(f"{s.pid}/{fq}/decorators_modelled", f"the function under contract is wrapped by @{', @'.join(decs)}: the code that runs is the wrapper, "
                                          "which the extraction does not model (a memoised result may outlive the state it was computed from)", fn=fq, meta={"replay": rp} if rp else None))
        solve.discharge(s.obls, s.timeout)
        if s.tier == "thorough":
            # second solver: every obligation z3 proved is decided again by cvc5; a `sat` there is a checker fault (the trusted base disagrees)
            s.extra_cov["second_solver_cvc5"] = cc = solve.cross_check(s.obls)
            if cc["disagree"]:
                print(f"CHECKER-FAULT property={s.pid} z3 and cvc5 disagree on {len(cc['disagree'])} obligation(s): {cc['disagree'][:3]}")
                s._write_evidence([], [], [], [])
                return 3
        kf = s.known_findings()
        kf_open = [f for f in kf if f.get("status") == "known"]
        violations, undecided, faults, kf_hit = [], [], [], []
        os.makedirs(os.path.join(OUT, "replays"), exist_ok=True)
        for o in s.obls:
            if o.verdict in ("proved",):
                continue
            if o.verdict == "vacuous":
                faults.append(o)
                continue
            if o.verdict == "undecided" and o.meta.get("best_effort"):
                # an expensive extra exploration (IEEE obligations with multiplications): a solver timeout is recorded, it is neither a violation nor a failure of the check
                s.extra_cov.setdefault("best_effort_not_decided", []).append(o.name)
                continue
            if o.verdict == "undecided":
                # DESIGN 7 step 6: the directed native search is run for undecided obligations as well; a concrete failure
                # found that way IS a violation (it is a replayed input) - otherwise the obligation stays undecided
                if o.meta.get("replay"):
                    status, rec = s.replay(o)
                    if status == "reproduced" and (s._is_known_class(rec, kf_open) or s._is_not_demanded(rec)):
                        status = "not-reproduced"       # the fallback search ran into the failing region of a LISTED finding: nothing new about this obligation
                    if status == "reproduced":
                        match = [f for f in kf_open if s._names(f, o.name)]
                        if not (match and s._finding_applies(match[0], o, status, rec)):
                            violations.append((o, status, rec))
                            continue
                undecided.append(o)
                continue
            # refuted
            status, rec = s.replay(o)
            if o.meta.get("soft") and status != "reproduced":
                # a PATTERN obligation (the code is no longer written the way the pattern expects) whose native replay finds nothing wrong: the pattern
                # does not apply to this source text - recorded, neither a violation nor a failure (the bounded stand-in still covers the clause)
                s.extra_cov.setdefault("pattern_not_recognised_replay_passed", []).append({"obligation": o.name, "detail": (o.detail or "")[:300]})
                continue
            match = [f for f in kf_open if s._names(f, o.name)]
            if match and s._finding_applies(match[0], o, status, rec):
                kf_hit.append((o, match[0]))
                continue
            if status == "reproduced" and (s._is_known_class(rec, kf_open) or s._is_not_demanded(rec)):
                # the directed search `reproduced` a case of a class that is a LISTED finding or that the statement does not demand (skipped by the stand-in of this
                # property with the reason next to the list): that is not an input on which THIS obligation's clause fails
                status, rec = "not-reproduced", {"tried": (rec or {}).get("cases", 1), "model": {}, "crashes": [], "note": f"search ended in the class {(rec or {}).get('class')!r}, which is listed / not demanded"}
            if o.kind == "static" and status != "reproduced" and not _decisive(o.name):
                # a RECOGNISER obligation (the source is compared with an expected way of writing it) that fails while the native search finds nothing wrong: the code is
                # not written the way the recogniser expects - that is `not decided`, not a violation (a refactoring that keeps the behaviour must not raise an alarm).
                # Obligations that state a RESULT of analysing the code (frame, raise sets, shapes, data-obliviousness, class sets, operator tables) stay violations.
                o.detail = (o.detail or "") + " [source not recognised by this static obligation; native search found no failing input]"
                undecided.append(o)
                continue
            if status == "reproduced" or o.meta.get("sat_final", True):
                violations.append((o, status, rec))
            else:
                o.detail = (o.detail or "") + " sat model not reproduced natively and the VC uses uninterpreted function axioms: candidate only"
                undecided.append(o)
        for name, rec in s.bounded_failures:
            match = [f for f in kf_open if f.get("obligation") == name and s._witness_matches(f, rec)]
            if match:
                kf_hit.append((None, match[0]))
            else:
                violations.append((solve.static(name, False, "bounded stand-in found a failing case", level="B"), "reproduced", rec))
        # residual obligations of known findings must be proved for the finding to suppress anything
        code = 0
        for f, rec in s.kf_bounded:
            kf_hit.append((None, f))
        printed = set()
        for o, f in kf_hit:
            if f["id"] in printed:
                continue
            printed.add(f["id"])
            print(f"KNOWN-FINDING: property={s.pid} {f['what']}  [obligation {f.get('obligation') or f.get('obligation_pattern')}]")
        for o, status, rec in violations:
            path = s._write_replay(o, status, rec)
            tail = "" if status == "reproduced" else " no-failing-input-found"
            print(f"VIOLATION property={s.pid} replay={path}{tail}")
            print(f"  obligation {o.name} refuted ({o.backend}); {json.dumps(rec, default=str)[:600] if rec else o.detail}")
            code = 1
        if code == 0:
            for o in faults:
                print(f"CHECKER-FAULT property={s.pid} vacuity guard failed: {o.name} ({o.detail or o.solver_output})")
                code = 3
        if code == 0:
            for o in undecided:
                print(f"UNDECIDED property={s.pid} obligation={o.name} ({(o.detail or '')[:300]})")
                code = 2
        dropped = set(s.extra_cov.get("best_effort_not_decided", [])) | {d["obligation"] for d in s.extra_cov.get("pattern_not_recognised_replay_passed", [])}
        if dropped:          # recorded in the evidence under their own heading; not part of the obligation count
            s.obls = [o for o in s.obls if o.name not in dropped]
        s._write_evidence(violations, undecided, faults, kf_hit)
        n = len(s.obls); d = sum(o.verdict == "proved" for o in s.obls)
        print(f"{s.pid}: {d}/{n} obligations discharged, {len(violations)} violation(s), {len(undecided)} undecided, "
              f"{len(kf_hit)} known finding(s), tier={s.tier}, {time.time() - s.t0:.1f}s")
        return code

    @staticmethod
    def _names(f, name):
        """a finding names one obligation exactly, or the obligations of one recorded failing region by an fnmatch pattern"""
        import fnmatch
        return f.get("obligation") == name or (f.get("obligation_pattern") and fnmatch.fnmatchcase(name, f["obligation_pattern"]))

    def _witness_matches(s, f, rec):
        w = f.get("match")
        if not w:
            return True
        blob = json.dumps(rec, default=str, sort_keys=True)
        return all(str(x) in blob for x in w)

    not_demanded = ()

    def _is_not_demanded(s, rec):
        import fnmatch
        cls = str((rec or {}).get("class") or "")
        return bool(cls) and any(cls == p_ or cls.startswith(p_ + ":") or ("*" in p_ and fnmatch.fnmatchcase(cls, p_)) for p_ in s.not_demanded)

    def _is_known_class(s, rec, kf_open):
        import fnmatch
        cls = str((rec or {}).get("class") or "")
        if not cls:
            return False
        pats = [p_ for p_ in s.known_classes if p_] + [f["witness"]["kwargs"]["only_class"] for f in kf_open if f.get("witness", {}).get("kwargs", {}).get("only_class")]
        return any(fnmatch.fnmatch(cls, p_) or fnmatch.fnmatch(cls, p_ + "*") for p_ in pats)

    def _finding_applies(s, f, o, status, rec):
        # the stored witness must still fail natively (otherwise the finding is stale and suppresses nothing)
        w = f.get("witness")
        if w:
            cache = s.__dict__.setdefault("_witness_cache", {})
            if f["id"] not in cache:
                try:
                    res = s.native(w["module"], w["func"], [w.get("kwargs", {})])
                    cache[f["id"]] = bool(res and res[0].get("failed"))
                except Exception:
                    cache[f["id"]] = False
            if not cache[f["id"]]:
                return False
        # and everything outside the recorded failing region must be proved (residual obligation)
        r = f.get("residual_prefix")
        if r:
            ro = [x for x in s.obls if x.name.startswith(r)]
            if not ro or any(x.verdict != "proved" for x in ro):
                return False
        return True

    def _write_replay(s, o, status, rec):
        safe = o.name.replace("/", "_").replace(" ", "_").replace("[", "_").replace("]", "_")[:150]
        path = os.path.join(OUT, "replays", f"{safe}.json")
        doc = {"property": s.pid, "obligation": o.name, "function": o.fn, "status": status, "backend": o.backend,
               "solver_output": o.solver_output, "model": o.model, "replay": rec, "detail": o.detail,
               "replay_spec": o.meta.get("replay"), "repo": s.repo,
               "smt2": (o.smt2[:20000] if o.smt2 else None)}
        with open(path, "w") as fh:
            json.dump(doc, fh, indent=1, default=str)
        return path

    def _write_evidence(s, violations, undecided, faults, kf_hit):
        n = len(s.obls)
        proved = [o for o in s.obls if o.verdict == "proved"]
        by_backend = {}
        for o in s.obls:
            by_backend[o.backend or "none"] = by_backend.get(o.backend or "none", 0) + 1
        samples = []
        for o in s.obls:
            if o.smt2 and len(samples) < 2:
                samples.append({"obligation": o.name, "verdict": o.verdict, "smt2_head": o.smt2[:1500]})
        for o in s.obls:
            if o.kind == "static" and len(samples) < 4:
                samples.append({"obligation": o.name, "verdict": o.verdict, "detail": o.detail})
        level = s.level
        p_obls = [o for o in s.obls if o.level == "P"]
        cov = {
            "obligations": n,
            "discharged": len(proved),
            "checker_cmd": f"./check {s.pid} --tier {s.tier}   (pyvc: AST of {s.repo}/fuzzylite -> VCs -> z3 {solve.z3.get_version_string()} / cvc5)",
            "trusted_base": sorted(s.assumed) + ["solvers"],
            "proved_level_P": sum(o.verdict == "proved" for o in p_obls),
            "obligations_level_P": len(p_obls),
            "bounded_level_B": list(s.bounded_log),
            "by_backend": by_backend,
            "solver_seconds": round(sum(o.seconds for o in s.obls), 2),
            "functions_under_contract": s.functions,
            "obligation_list": [o.as_dict() for o in s.obls],
            "known_findings_hit": [f["what"] for _, f in kf_hit],
            "undecided": [o.name for o in undecided],
            "samples": samples,
            "explanation": "; ".join(s.notes) if s.notes else f"contract-based deductive verification of {s.pid}: every obligation is generated from the current source of /repo",
        }
        cov.update(s.extra_cov)
        if level == "proof" and kf_hit and len(proved) == n:
            level = "other"
            cov["explanation"] = "every deductive obligation is discharged, but a bounded stand-in witnesses a recorded known finding (a genuine, unrepaired defect of /repo) - not a completed proof of the property. " + cov["explanation"]
        if level == "proof" and len(proved) != n:
            level = "other"
            cov["explanation"] = (f"{len(proved)} of {n} obligations discharged; the remainder are listed known findings / violations / undecided "
                                  f"obligations of this run - not a completed proof. ") + cov["explanation"]
        ev = {
            "property_id": s.pid, "tier": s.tier, "seed": s.seed, "level": level, "coverage": cov,
            "assumptions": [f"{a}: {ASSUMPTIONS.get(a, a)}" for a in sorted(s.assumed)] + [f"solvers: {ASSUMPTIONS['solvers']}"],
            "wall_s": round(time.time() - s.t0, 2), "violations": len(violations),
        }
        os.makedirs(os.path.join(OUT, "evidence"), exist_ok=True)
        with open(os.path.join(OUT, "evidence", f"{s.pid}.json"), "w") as fh:
            json.dump(ev, fh, indent=1, default=str)


def main(pid, build, title=""):
    """entry used by props/Cxx.py"""
    try:
        run = Run(pid, title)
        build(run)
        return run.finish()
    except SystemExit:
        raise
    except Exception:
        traceback.print_exc()
        print(f"CHECKER-FAULT property={pid} (exception in the checker, not a verdict)")
        return 3
