"""Running the real term methods (membership / tsukamoto / __init__) of fuzzylite.term in the numeric executor, with
calls to other term classes checked against *their* contract (DESIGN 3.4): `Cls(kw).membership(x)` asserts Cls.valid
for the constructed parameters and continues with Cls.oracle -- the callee's body is not inlined."""
import ast
import z3
from . import xreal as xr
from .numexec import NumExec, Num, Bool, Obj, Unsupported
from .numrun import exec_method, merged_return
from contracts import terms as CT


def sym_params(tc, prefix=""):
    """symbolic parameters of a term contract: {field: X}, well-formedness constraints"""
    P, wf = {}, []
    for f in tc.fields():
        x, c = xr.sym(prefix + f)
        P[f] = x; wf.append(c)
    return P, wf


def as_fields(P):
    """parameters are plain Python floats at run time: py=True, not data"""
    return {k: Num(v, data=False, py=True) for k, v in P.items()}


class TermCalls:
    """call hook: modular calls to other term classes; records the preconditions to prove at each call site"""

    def __init__(s, src, A):
        s.src, s.A = src, A
        s.pre = []      # [(callee, lineno, pc, valid-goal)]

    def ctor_fields(s, ex, p, cls, pos, kwargs, node):
        """fields of `cls(*pos, **kwargs)` using cls's constructor contract (fields == parameters; defaults from the signature)"""
        m = s.src.module_of_class(cls)
        fn = s.src.func(m, f"{cls}.__init__")
        tmp = NumExec(s.src, m, ex.ax, selfobj=Obj(cls, {}))
        env = tmp.bind(fn, pos, kwargs, p)
        tc = CT.TERMS[cls]
        return {f: ex.num(env[f], node).x for f in tc.fields()}

    def __call__(s, ex, p, cls, pos, kwargs, meth, args, node):
        if cls not in CT.TERMS or meth != "membership" or len(args) != 1:
            return NotImplemented
        tc = CT.TERMS[cls]
        P = s.ctor_fields(ex, p, cls, pos, kwargs, node)
        s.pre.append((cls, node.lineno, list(p.pc), tc.valid(s.A, P)))
        xa = ex.num(args[0], node)
        # the callee passes its argument through scalar(): result is a NumPy value, data-dependent as the argument
        return Num(tc.oracle(s.A, P, xa.x), xa.data, False)


def run_membership(src, cls, ax, A, P, x, meth="membership"):
    """execute cls.<meth>(x) with fields P; returns (value X, executor, calls, raising paths)"""
    calls = TermCalls(src, A)
    outs, ex, fn, module = exec_method(src, cls, meth, ax, as_fields(P), [x], call_hook=calls)
    val, raises = merged_return(outs, ex, f"{cls}.{meth}")
    return val, ex, calls, raises, fn, module


def run_ctor(src, cls, ax, P):
    """execute cls.__init__(name, **P); returns [(pc, fields)] per path"""
    module, owner, fn = src.resolve_method(cls, "__init__")
    ex = NumExec(src, module, ax, selfobj=Obj(cls, {}))
    env = ex.bind(fn, [], dict({"name": "t"}, **{k: Num(v, False, True) for k, v in P.items()}))
    outs = ex.run(fn, env)
    res = []
    for k, v, p in outs:
        if k != "return":
            raise Unsupported(f"{cls}.__init__ raises on some path")
        res.append((p.pc, p.env.get("__self_fields__", {})))
    return res, ex, fn, module


def is_monotonic_source(src, cls):
    """the value returned by the class's is_monotonic() as read from the AST (True/False), resolved through the MRO"""
    module, owner, fn = src.resolve_method(cls, "is_monotonic")
    body = [s_ for s_ in fn.body if not (isinstance(s_, ast.Expr) and isinstance(s_.value, ast.Constant))]
    if len(body) == 1 and isinstance(body[0], ast.Return) and isinstance(body[0].value, ast.Constant) and isinstance(body[0].value.value, bool):
        return body[0].value.value
    raise Unsupported(f"{cls}.is_monotonic is not a constant")
