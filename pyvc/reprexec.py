"""Executor for constructors and __repr__ of the package's classes (C15): objects are field maps, `vars(self).copy()` is a concrete-key dict,
`representation.as_constructor(...)` runs the REAL body of Representation.construction_arguments (library.py) over the parameters of the
class's __init__ read from the AST (assumption A-REFLECT: inspect.signature returns those), and yields a constructor-call value whose
arguments are then bound to the real __init__ again.

Evaluating a printed value gives the value back (A-FMT: float(repr(x)) == x; inf/nan are printed through the alias, checked statically)."""
import ast
import z3
from . import xreal as xr
from .xreal import X
from .numexec import Num, Bool, Obj, Unsupported, Path
from .heap import Str, strc
from .tokexec import TokExec, Tok, Text, PyL, Enum, MultiReturn

ListVal = z3.DeclareSort("ListVal")
EMPTY_LIST = z3.Const("[]", ListVal)
ObjRef = z3.DeclareSort("ObjRef")
NONE_REF = z3.Const("None:obj", ObjRef)


class SStr:
    """an arbitrary string value"""

    def __init__(s, t):
        s.t = t


class LstV:
    """a list value (contents abstract; A-LISTVAL: list(x) is an equal list)"""

    def __init__(s, v):
        s.v = v


class RefO:
    """a reference to some other object (norm, activation, defuzzifier, engine) or None"""

    def __init__(s, r):
        s.r = r


class DictV:
    def __init__(s, items):
        s.items = dict(items)


class ParamV:
    def __init__(s, name, has_default):
        s.name, s.has_default = name, has_default


class ArgV:
    def __init__(s, name, value):
        s.name, s.value = name, value          # name None = positional


class CtorV:
    def __init__(s, cls, args):
        s.cls, s.args = cls, list(args)


class ReprV:
    def __init__(s, v):
        s.v = v


def veq(a, b, ex):
    """z3 equality of two executor values of the same kind (None when incomparable -> False)"""
    if a is None and b is None:
        return z3.BoolVal(True)
    if isinstance(a, (SStr, Tok)) and isinstance(b, (SStr, Tok)):
        return a.t == b.t
    if isinstance(a, str) and isinstance(b, str):
        return z3.BoolVal(a == b)
    if isinstance(a, str) and isinstance(b, SStr):
        return strc(a) == b.t
    if isinstance(b, str) and isinstance(a, SStr):
        return a.t == strc(b)
    if isinstance(a, LstV) and isinstance(b, LstV):
        return a.v == b.v
    if isinstance(a, RefO) and isinstance(b, RefO):
        return a.r == b.r
    if a is None and isinstance(b, RefO):
        return b.r == NONE_REF
    if b is None and isinstance(a, RefO):
        return a.r == NONE_REF
    if isinstance(a, Enum) and isinstance(b, Enum):
        return a.idx == b.idx
    if isinstance(a, (Bool, bool)) and isinstance(b, (Bool, bool)):
        return ex.boo(a).b == ex.boo(b).b
    if isinstance(a, (Num, int, float)) and isinstance(b, (Num, int, float)) and not isinstance(a, bool) and not isinstance(b, bool):
        return xr.same(ex.num(a).x, ex.num(b).x)
    return z3.BoolVal(False)


class ReprExec(TokExec):
    def truth(s, v, node):
        if isinstance(v, SStr):
            return v.t != strc("")
        if isinstance(v, LstV):
            return v.v != EMPTY_LIST
        if isinstance(v, RefO):
            return v.r != NONE_REF
        if isinstance(v, DictV):
            return z3.BoolVal(len(v.items) > 0)
        return super().truth(v, node)

    def ev_Dict(s, p, e):
        return DictV({k.value: s.ev(p, v) for k, v in zip(e.keys, e.values)})

    def ev_List(s, p, e):
        if not e.elts:
            return LstV(EMPTY_LIST)
        return super().ev_List(p, e)

    def ev_BoolOp(s, p, e):
        if isinstance(e.op, ast.Or) and len(e.values) == 2:
            q = Path(p.env, p.pc)
            a = s.ev(q, e.values[0])
            if isinstance(a, LstV):
                b = s.ev(p, e.values[1])
                if isinstance(b, LstV):
                    return LstV(z3.If(a.v != EMPTY_LIST, a.v, b.v))
            if isinstance(a, RefO):
                raise Unsupported("`ref or default` with a constructed default")
        return super().ev_BoolOp(p, e)

    def ev_IfExp(s, p, e):
        q = Path(p.env, p.pc)
        try:
            c = z3.simplify(s.truth(s.ev(q, e.test), e))
        except Unsupported:
            c = None
        if c is not None and z3.is_true(c):
            return s.ev(p, e.body)
        if c is not None and z3.is_false(c):
            return s.ev(p, e.orelse)
        return super().ev_IfExp(p, e)

    def ev_Subscript(s, p, e):
        base = s.ev(Path(p.env, p.pc), e.value)
        if isinstance(base, DictV):
            k = s.ev(p, e.slice)
            if isinstance(k, str) and k in base.items:
                return base.items[k]
            s.safety.append((f"line{e.lineno}:key {k!r} present in the dict", list(p.pc), z3.BoolVal(False)))
            raise Unsupported(f"missing dict key {k!r}")
        return super().ev_Subscript(p, e)

    def ev_Compare(s, p, e):
        if len(e.ops) == 1:
            q = Path(p.env, p.pc)
            try:
                l, r = s.ev(q, e.left), s.ev(q, e.comparators[0])
            except Unsupported:
                l = r = None
            if isinstance(e.ops[0], (ast.In, ast.NotIn)) and isinstance(r, DictV) and isinstance(l, str):
                res = l in r.items
                return res if isinstance(e.ops[0], ast.In) else not res
            if isinstance(e.ops[0], (ast.Eq, ast.NotEq)) and isinstance(l, str) and isinstance(r, str):
                return (l == r) if isinstance(e.ops[0], ast.Eq) else (l != r)
            if isinstance(e.ops[0], (ast.Eq, ast.NotEq)) and isinstance(l, bool) and isinstance(r, bool):
                return (l == r) if isinstance(e.ops[0], ast.Eq) else (l != r)
        return super().ev_Compare(p, e)

    def ev_Attribute(s, p, e):
        if isinstance(e.value, ast.Name) and isinstance(p.env.get(e.value.id), ParamV):
            pv = p.env[e.value.id]
            if e.attr == "name":
                return pv.name
            if e.attr == "default":
                return ("param.default", pv.has_default)
            if e.attr == "empty":
                return ("param.default", False)
        return super().ev_Attribute(p, e)

    def binop(s, op, l, r, e, p):
        if isinstance(op, ast.Add) and isinstance(r, ReprV) and isinstance(l, (str, Text)):
            if isinstance(l, Text) and not l.toks:
                return ArgV(None, r.v)
            if l == "":
                return ArgV(None, r.v)
            if isinstance(l, str) and l.endswith("="):
                return ArgV(l[:-1], r.v)
            raise Unsupported("argument prefix")
        return super().binop(op, l, r, e, p)

    def ev_JoinedStr(s, p, e):
        # f"{parameter.name}=" -> the literal keyword prefix
        if len(e.values) == 2 and isinstance(e.values[0], ast.FormattedValue) and isinstance(e.values[1], ast.Constant) and e.values[1].value == "=":
            v = s.ev(p, e.values[0].value)
            if isinstance(v, str):
                return v + "="
        return super().ev_JoinedStr(p, e)

    def ev_Call(s, p, e):
        f = e.func
        t = ast.unparse(f)
        if t == "vars(self).copy" and not e.args:
            return DictV(p.env.get("__self_fields__", s.selfobj.fields))
        if t == "list" and len(e.args) == 1:
            v = s.ev(p, e.args[0])
            if isinstance(v, (LstV, PyL)):
                return v
        if t == "scalar" and len(e.args) == 1:
            return s.num(s.ev(p, e.args[0]), e)
        if t == "array" and len(e.args) == 1:
            v = s.ev(p, e.args[0])
            if isinstance(v, (bool, Bool)):
                return v
        if t == "self.repr" and len(e.args) == 1:
            return ReprV(s.ev(p, e.args[0]))
        if t == "representation.as_constructor":
            pos = [s.ev(p, a) for a in e.args]
            kw = {k.arg: s.ev(p, k.value) for k in e.keywords}
            return s.as_constructor(p, pos, kw, e)
        if t == "inspect.signature" or t.startswith("inspect.signature("):
            raise Unsupported("inspect.signature outside the modelled pattern")
        if isinstance(f, ast.Attribute) and f.attr == "values" and ast.unparse(f.value).startswith("inspect.signature(") and ast.unparse(f.value).endswith(".parameters"):
            return s.signature_params()
        if isinstance(f, ast.Attribute) and f.attr == "pop" and isinstance(f.value, ast.Name) and isinstance(p.env.get(f.value.id), DictV) and len(e.args) == 1:
            k = s.ev(p, e.args[0])
            d = p.env[f.value.id]
            if not (isinstance(k, str) and k in d.items):
                s.safety.append((f"line{e.lineno}:pop of a key that is present ({k!r})", list(p.pc), z3.BoolVal(False)))
                raise Unsupported(f"pop of missing key {k!r}")
            it = dict(d.items); v = it.pop(k)
            p.env[f.value.id] = DictV(it)
            return v
        return super().ev_Call(p, e)

    def signature_params(s):
        """parameters of the class's __init__ as inspect.signature reports them (A-REFLECT), incl. self"""
        m, owner, fn = s.src.resolve_method(s.target_cls, "__init__")
        a = fn.args
        names = [x.arg for x in a.args]
        nd = len(a.defaults)
        return PyL([ParamV(n, i >= len(names) - nd) for i, n in enumerate(names)])

    def as_constructor(s, p, pos, kw, node):
        x = pos[0]
        fields = pos[1] if len(pos) > 1 else kw.get("fields")
        if fields is None:
            fields = DictV(p.env.get("__self_fields__", s.selfobj.fields))       # vars(x)
        positional = kw.get("positional", False)
        if kw.get("cast_as") is not None:
            raise Unsupported("cast_as")
        m, owner, fn = s.src.resolve_method("Representation", "construction_arguments")
        sub = type(s)(s.src, m, s.ax, selfobj=s.selfobj)
        sub.target_cls, sub.axioms, sub.seen_fmt, sub.safety, sub.raised = s.target_cls, s.axioms, s.seen_fmt, s.safety, s.raised
        sub.has_ctor = s.has_ctor
        outs = sub.run(fn, {"self": "REPRESENTATION", "x": x, "fields": fields, "positional": positional, "cast_as": None}, pc=p.pc)
        rets = [(v, q) for k, v, q in outs if k == "return"]
        for k, v, q in outs:
            if k == "raise":
                s.raised.append((q, v))
        if len(rets) != 1:
            raise Unsupported(f"construction_arguments: {len(rets)} returning paths")
        v, q = rets[0]
        p.pc[:] = q.pc
        s.inlined.add("library.Representation.construction_arguments")
        if not isinstance(v, PyL) or not all(isinstance(a, ArgV) for a in v.items):
            raise Unsupported("construction_arguments did not return a list of arguments")
        return CtorV(s.target_cls, v.items)

    def ev_Compare_ctor(s):
        pass

    # statements: for over a concrete list, `continue`, subscript store into a dict, x.__class__.__init__ == object.__init__
    def stmt(s, p, n):
        if isinstance(n, ast.For) and not n.orelse:
            it = s.ev(p, n.iter)
            if isinstance(it, PyL) and isinstance(n.target, ast.Name):
                live, done = [p], []
                for item in it.items:
                    nxt = []
                    for q in live:
                        q.env[n.target.id] = item
                        for q2, sig in s.block([q], n.body):
                            if sig is None or sig[0] == "continue":
                                nxt.append(q2)
                            elif sig[0] == "break":
                                done.append((q2, None))
                            else:
                                done.append((q2, sig))
                    live = nxt
                return [(q, None) for q in live] + done
            raise Unsupported(f"for over {type(it).__name__} at line {n.lineno}")
        if isinstance(n, ast.Continue):
            return [(p, ("continue", None))]
        if isinstance(n, ast.Assign) and len(n.targets) == 1 and isinstance(n.targets[0], ast.Name) and isinstance(n.value, ast.List) and not n.value.elts:
            p.env[n.targets[0].id] = PyL(())          # a local list that is filled by append
            return [(p, None)]
        if isinstance(n, ast.Assign) and len(n.targets) == 1 and isinstance(n.targets[0], ast.Subscript) and isinstance(n.targets[0].value, ast.Name) \
                and isinstance(p.env.get(n.targets[0].value.id), DictV):
            k = s.ev(p, n.targets[0].slice)
            d = dict(p.env[n.targets[0].value.id].items)
            d[k] = s.ev(p, n.value)
            p.env[n.targets[0].value.id] = DictV(d)
            return [(p, None)]
        if isinstance(n, ast.If):
            t = ast.unparse(n.test)
            if t == "x.__class__.__init__ == object.__init__":
                return s.block([p], n.body if not s.has_ctor else n.orelse)
            if t in ("parameter.default != parameter.empty",):
                pv = p.env.get("parameter")
                return s.block([p], n.body if pv.has_default else n.orelse)
            if t == "fields is None":
                return s.block([p], n.body if p.env.get("fields") is None else n.orelse) if (n.body if p.env.get("fields") is None else n.orelse) else [(p, None)]
        if isinstance(n, ast.Assign) and len(n.targets) == 1 and isinstance(n.targets[0], ast.Name) and isinstance(n.value, ast.Call) and ast.unparse(n.value.func) == "list" \
                and n.value.args and "inspect.signature" in ast.unparse(n.value.args[0]):
            p.env[n.targets[0].id] = s.signature_params()
            return [(p, None)]
        if isinstance(n, ast.Assign) and len(n.targets) == 1 and isinstance(n.targets[0], ast.Name) and isinstance(n.value, ast.BoolOp) and "vars(x)" in ast.unparse(n.value):
            p.env[n.targets[0].id] = DictV(p.env.get("__self_fields__", s.selfobj.fields))
            return [(p, None)]
        if isinstance(n, ast.Expr) and isinstance(n.value, ast.Call) and isinstance(n.value.func, ast.Attribute) and n.value.func.attr == "pop":
            s.ev(p, n.value)
            return [(p, None)]
        return super().stmt(p, n)

    def assign(s, p, t, v):
        # `self.attr = v` where attr is a property with a setter in the class hierarchy: the setter body is executed in place
        if isinstance(t, ast.Attribute) and isinstance(t.value, ast.Name) and t.value.id == "self" and s.selfobj is not None:
            for c in s.src.mro(s.selfobj.cls):
                m = s.src.module_of_class(c)
                if m and s.src.has_func(m, f"{c}.{t.attr}"):
                    try:
                        fn = s.src.func(m, f"{c}.{t.attr}", "setter")
                    except KeyError:
                        break
                    names = [a.arg for a in fn.args.args]
                    env = {"self": s.selfobj, names[1]: v, "__self_fields__": p.env.get("__self_fields__", s.selfobj.fields)}
                    outs = s.run(fn, env, pc=p.pc)
                    rets = [q for k, _, q in outs if k == "return"]
                    if len(rets) != 1:
                        raise Unsupported(f"setter {c}.{t.attr} with {len(rets)} outcomes")
                    p.pc[:] = rets[0].pc
                    p.env["__self_fields__"] = rets[0].env.get("__self_fields__")
                    return
        return super().assign(p, t, v)

    def np_call(s, p, name, e):
        if name == "clip" and len(e.args) == 3:
            a = [s.num(s.ev(p, x), e) for x in e.args]
            return Num(xr.clip(a[0].x, a[1].x, a[2].x), False, False)
        return super().np_call(p, name, e)

    has_ctor = True
    target_cls = None
