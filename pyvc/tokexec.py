"""Token-level executor for printers/parsers of parameters (DESIGN 4.7): `parameters()` / `configure()` of terms, activation methods and
defuzzifiers, `Term._parameters` / `Term._parse`.

A printed text is a CONCRETE-length list of abstract tokens; number formatting and parsing are uninterpreted functions with the axioms of
assumption A-FMT instantiated at every term that occurs:
    fmt(x)   = Op.str(x) of a float at settings.decimals         pf(t) = to_float(t), defined when pf_ok(t)
    rnd(x)   = the value that survives printing and parsing: pf(fmt(x)) == rnd(x); fmt(rnd(x)) == fmt(x); rnd(rnd(x)) == rnd(x);
               |rnd(x) - x| <= u/2 for finite x (u = 10**-decimals, 0 < u <= 1/10); NaN and +-inf survive; integers (1.0, 0.0) are representable
    istr(i)  = str(i) / Op.str(i) of an int                      pint(t) = int(t), defined when pint_ok(t); pint(istr(i)) == i
Python lists of concrete length are tuples of symbolic values (PyL); str.split of ' '.join(tokens) is the token list (A-STR)."""
import ast
import z3
from . import xreal as xr
from .xreal import X
from .numexec import NumExec, Num, Bool, Obj, Unsupported, Path
from .heap import XR, Str, x2xr, xr2x, canon, strc

fmt = z3.Function("fmt", XR, Str)
pf = z3.Function("to_float", Str, XR)
pf_ok = z3.Function("to_float_ok", Str, z3.BoolSort())
rnd = z3.Function("rnd", XR, XR)
istr = z3.Function("istr", z3.IntSort(), Str)
pint = z3.Function("to_int", Str, z3.IntSort())
pint_ok = z3.Function("to_int_ok", Str, z3.BoolSort())
U = z3.Real("u")          # 10 ** -settings.decimals


class Tok:
    def __init__(s, t):
        s.t = t


class Text:
    """a string that is ' '.join(tokens) for a concrete-length token list (the empty string has no tokens)"""

    def __init__(s, toks):
        s.toks = tuple(toks)


class PyL:
    def __init__(s, items=()):
        s.items = tuple(items)


class Enum:
    """member of an enum class of the package: index in declaration order (symbolic or concrete)"""

    def __init__(s, cls, idx):
        s.cls, s.idx = cls, idx


class MultiReturn(Exception):
    """an inlined helper returns on several paths: the caller is re-run once per case with the case condition as a precondition"""

    def __init__(s, cases):
        s.cases = cases


class TokExec(NumExec):
    def __init__(s, *a, **kw):
        super().__init__(*a, **kw)
        s.axioms = [U > 0, U <= z3.RealVal("1/10")]
        s.raised = []
        s.seen_fmt = set()
        s.enum_names = {}

    # ---------------------------------------------------------------- A-FMT instances
    def ax_fmt(s, t):
        """t: XR term that is printed"""
        k = t.get_id()
        if k in s.seen_fmt:
            return
        s.seen_fmt.add(k)
        r = rnd(t)
        xt, xr_ = xr2x(t), xr2x(r)
        s.axioms += [pf_ok(fmt(t)), pf(fmt(t)) == r, fmt(r) == fmt(t), rnd(r) == r, canon(r),
                     xr_.nan == xt.nan, xr_.inf == xt.inf,
                     z3.Implies(xr.fin(xt), z3.And(xr_.v - xt.v <= U / 2, xt.v - xr_.v <= U / 2)),
                     # values on the grid of the smallest setting (one decimal) are representable at every setting; so are whole numbers
                     z3.Implies(z3.And(xr.fin(xt), z3.IsInt(xt.v * 10)), r == t)]

    def tok_float(s, v):
        t = x2xr(s.num(v).x)
        s.ax_fmt(t)
        return Tok(fmt(t))

    def tok_int(s, i):
        s.axioms += [pint_ok(istr(i)), pint(istr(i)) == i]
        return Tok(istr(i))

    def intval(s, v):
        if isinstance(v, int) and not isinstance(v, bool):
            return z3.IntVal(v)
        if isinstance(v, Num) and v.isint:
            return z3.simplify(z3.ToInt(v.x.v))
        return None

    def opstr(s, v):
        if isinstance(v, (Tok, Text)):
            return v
        if isinstance(v, str):
            return Text([Tok(strc(w)) for w in v.split()]) if " " in v or not v else Tok(strc(v))
        iv = s.intval(v)
        if iv is not None:
            return s.tok_int(iv)
        if isinstance(v, (Num, float)):
            return s.tok_float(v)
        if isinstance(v, PyL):
            out = []
            for it in v.items:
                o = s.opstr(it)
                out += list(o.toks) if isinstance(o, Text) else [o]
            return Text(out)
        raise Unsupported(f"Op.str of {type(v).__name__}")

    # ---------------------------------------------------------------- truthiness / values
    def truth(s, v, node):
        if isinstance(v, PyL):
            return z3.BoolVal(len(v.items) > 0)
        if isinstance(v, Text):
            return z3.BoolVal(len(v.toks) > 0)
        if isinstance(v, Tok):
            return z3.BoolVal(True)          # a token is a non-empty string
        if isinstance(v, Enum):
            return z3.BoolVal(True)
        return super().truth(v, node)

    def ev_JoinedStr(s, p, e):
        toks, cur = [], []          # cur: pieces of the token being built (only whole-token pieces are supported)

        def flush():
            if len(cur) == 1:
                toks.append(cur[0])
            elif len(cur) > 1:
                raise Unsupported("f-string gluing pieces into one token")
            cur.clear()
        for v in e.values:
            if isinstance(v, ast.Constant) and isinstance(v.value, str):
                parts = v.value.split(" ")
                for k, part in enumerate(parts):
                    if k > 0:
                        flush()
                    if part:
                        cur.append(Tok(strc(part)))
            elif isinstance(v, ast.FormattedValue) and v.format_spec is None and v.conversion == -1:
                x = s.opstr_value(s.ev(p, v.value))
                if isinstance(x, Text):
                    flush()
                    toks.extend(x.toks)
                else:
                    cur.append(x)
            else:
                return "<message>"
        flush()
        return Text(toks)

    def opstr_value(s, v):
        """str() of a value inside an f-string"""
        return s.opstr(v)

    def ev_List(s, p, e):
        return PyL([s.ev(p, x) for x in e.elts])

    def ev_ListComp(s, p, e):
        g = e.generators[0]
        if len(e.generators) != 1 or g.ifs or not isinstance(g.target, ast.Name):
            raise Unsupported(f"list comprehension at line {e.lineno}")
        it = s.ev(p, g.iter)
        if not isinstance(it, PyL):
            raise Unsupported(f"list comprehension over {type(it).__name__}")
        out = []
        for x in it.items:
            q = Path(p.env, p.pc); q.env[g.target.id] = x
            q.pc = p.pc            # share: raises recorded by callees extend the same list of conditions
            out.append(s.ev(q, e.elt))
        return PyL(out)

    def ev_Subscript(s, p, e):
        base = s.ev(p, e.value)
        if isinstance(base, PyL) and (isinstance(e.slice, ast.Constant) and isinstance(e.slice.value, int) or
                                     isinstance(e.slice, ast.UnaryOp) and isinstance(e.slice.op, ast.USub) and isinstance(e.slice.operand, ast.Constant)):
            k = e.slice.value if isinstance(e.slice, ast.Constant) else -e.slice.operand.value
            if not (-len(base.items) <= k < len(base.items)):
                s.safety.append((f"line{e.lineno}:index {k} within a list of {len(base.items)} elements", list(p.pc), z3.BoolVal(False)))
                raise Unsupported("index out of range")
            return base.items[k]
        if isinstance(e.value, ast.Attribute) and isinstance(base, tuple) and base and base[0] == "enumcls":      # Enum['Name']
            key = s.ev(p, e.slice)
            return s.enum_lookup(p, base[1], key, by="name")
        return super().ev_Subscript(p, e) if hasattr(super(), "ev_Subscript") else (_ for _ in ()).throw(Unsupported(f"subscript at line {e.lineno}"))

    # ---------------------------------------------------------------- enums
    def enum_members(s, cq):
        m = s.src.module_of_class(cq.split(".")[0])
        if not m or not s.src.has_cls(m, cq):
            return None
        c = s.src.cls(m, cq)
        if not any("Enum" in ast.unparse(b) for b in c.bases):
            return None
        out = []
        for n in c.body:
            if isinstance(n, ast.Assign) and len(n.targets) == 1 and isinstance(n.targets[0], ast.Name):
                out.append((n.targets[0].id, n.value.value if isinstance(n.value, ast.Constant) else None))
        return out

    def enum_name_tok(s, en):
        mem = s.enum_members(en.cls)
        t = strc(mem[-1][0])
        for k in range(len(mem) - 2, -1, -1):
            t = z3.If(en.idx == k, strc(mem[k][0]), t)
        return Tok(z3.simplify(t))

    def enum_value_tok(s, en):
        mem = s.enum_members(en.cls)
        if any(not isinstance(v, str) for _, v in mem):
            raise Unsupported(f"enum {en.cls} values are not strings")
        t = strc(mem[-1][1])
        for k in range(len(mem) - 2, -1, -1):
            t = z3.If(en.idx == k, strc(mem[k][1]), t)
        return Tok(z3.simplify(t))

    def enum_lookup(s, p, cq, key, by):
        mem = s.enum_members(cq)
        if isinstance(key, Text) and len(key.toks) == 1:
            key = key.toks[0]
        if not isinstance(key, Tok):
            raise Unsupported("enum lookup with a non-token key")
        names = [(n if by == "name" else v) for n, v in mem]
        hit = [key.t == strc(n) for n in names]
        q = Path(p.env, list(p.pc)); q.pc.append(z3.Not(z3.Or(*hit))); s.raised.append((q, "KeyError" if by == "name" else "ValueError"))
        p.pc.append(z3.Or(*hit))
        idx = z3.IntVal(len(mem) - 1)
        for k in range(len(mem) - 2, -1, -1):
            idx = z3.If(hit[k], k, idx)
        return Enum(cq, z3.simplify(idx))

    # ---------------------------------------------------------------- attributes / calls
    def ev_Name(s, p, e):
        if e.id not in p.env and s.cur_cls:
            for c in s.cur_cls[::-1]:          # a nested class referred to by its bare name inside the class body (default arguments)
                if s.enum_members(f"{c}.{e.id}") is not None:
                    return ("enumcls", f"{c}.{e.id}")
        return super().ev_Name(p, e)

    def ev_Attribute(s, p, e):
        t = ast.unparse(e)
        parts = t.split(".")
        if parts[0] not in p.env and parts[0] != "self" and all(x.isidentifier() for x in parts) and s.cur_cls and s.src.module_of_class(parts[0]) is None:
            for c in s.cur_cls[::-1]:
                if s.enum_members(f"{c}.{parts[0]}") is not None:
                    parts = c.split(".") + parts
                    t = ".".join(parts)
                    break
        if parts[0] not in p.env and parts[0] != "self" and all(x.isidentifier() for x in parts):
            # Class.CONST / Enum member / enum class
            for cut in range(len(parts) - 1, 0, -1):
                cq, rest = ".".join(parts[:cut]), parts[cut:]
                mem = s.enum_members(cq)
                if mem is not None:
                    if not rest:
                        return ("enumcls", cq)
                    if len(rest) == 1 and rest[0] in [n for n, _ in mem]:
                        return Enum(cq, z3.IntVal([n for n, _ in mem].index(rest[0])))
                m = s.src.module_of_class(cq.split(".")[0])
                if m and s.src.has_cls(m, cq) and len(rest) == 1:
                    for n in s.src.cls(m, cq).body:
                        tg = n.targets[0] if isinstance(n, ast.Assign) and len(n.targets) == 1 else (n.target if isinstance(n, ast.AnnAssign) else None)
                        if isinstance(tg, ast.Name) and tg.id == rest[0] and getattr(n, "value", None) is not None and isinstance(n.value, ast.Constant):
                            return n.value.value
            if s.enum_members(t) is not None:
                return ("enumcls", t)
        base = None
        if isinstance(e.value, (ast.Attribute, ast.Name)):
            try:
                base = s.ev(p, e.value)
            except Unsupported:
                base = None
        if isinstance(base, Enum):
            if e.attr == "name":
                return s.enum_name_tok(base)
            if e.attr == "value":
                return s.enum_value_tok(base)
        return super().ev_Attribute(p, e)

    def ev_Compare(s, p, e):
        if len(e.ops) == 1 and isinstance(e.ops[0], (ast.Eq, ast.NotEq)):
            q = Path(p.env, p.pc)
            l, r = s.ev(q, e.left), s.ev(q, e.comparators[0])
            if isinstance(l, Enum) and isinstance(r, Enum):
                c = l.idx == r.idx
                return Bool(z3.simplify(c if isinstance(e.ops[0], ast.Eq) else z3.Not(c)), False, True)
            li, ri = s.intval(l), s.intval(r)
            if li is not None and ri is not None and (isinstance(l, Num) or isinstance(r, Num)):
                c = li == ri
                return Bool(z3.simplify(c if isinstance(e.ops[0], ast.Eq) else z3.Not(c)), False, True)
        if len(e.ops) == 1 and isinstance(e.ops[0], (ast.Eq, ast.NotEq)):
            l, r = s.ev(p, e.left), s.ev(p, e.comparators[0])
            if all(isinstance(v, int) and not isinstance(v, bool) for v in (l, r)):
                return (l == r) if isinstance(e.ops[0], ast.Eq) else (l != r)
        return super().ev_Compare(p, e)

    def ev_BoolOp(s, p, e):
        # `a or b` as a value with a possibly-None / int left operand (constructor defaults)
        if isinstance(e.op, ast.Or) and len(e.values) == 2:
            q = Path(p.env, p.pc)
            a = s.ev(q, e.values[0])
            if a is None:
                return s.ev(p, e.values[1])
            ia = s.intval(a)
            if ia is not None and isinstance(a, Num):
                b = s.ev(p, e.values[1])
                ib = s.intval(b)
                if ib is not None:
                    return Num(X(xr.F, xr.I0, z3.ToReal(z3.If(ia != 0, ia, ib))), False, True, True)
        return super().ev_BoolOp(p, e)

    def ev_Starred(s, p, e):
        return ("starred", s.ev(p, e.value))

    def call_args(s, p, e):
        out = []
        for a in e.args:
            v = s.ev(p, a)
            if isinstance(v, tuple) and v and v[0] == "starred":
                if not isinstance(v[1], PyL):
                    raise Unsupported("*args of a non-list")
                out += list(v[1].items)
            else:
                out.append(v)
        return out

    def inline_method(s, p, owner_cls, meth, pos, kw, node):
        m, owner, fn = s.src.resolve_method(owner_cls, meth)
        a = fn.args
        names = [x.arg for x in a.args][1:]
        env = {"self": s.selfobj, "__self_fields__": p.env.get("__self_fields__", s.selfobj.fields)}
        defaults = dict(zip(names[len(names) - len(a.defaults):], a.defaults)) if a.defaults else {}
        rest = list(pos)
        for nm in names:
            if rest:
                env[nm] = rest.pop(0)
            elif nm in kw:
                env[nm] = kw[nm]
            elif nm in defaults:
                env[nm] = s.ev(Path({}, []), defaults[nm])
            else:
                raise Unsupported(f"missing argument {nm}")
        if a.vararg:
            env[a.vararg.arg] = PyL(rest)
        elif rest:
            raise Unsupported("too many positional arguments")
        for k, d in zip(a.kwonlyargs, a.kw_defaults):
            env[k.arg] = kw[k.arg] if k.arg in kw else s.ev(Path({}, []), d)
        s.depth += 1
        s.cur_cls.append(owner)
        outs = s.run(fn, env, pc=p.pc)
        s.cur_cls.pop()
        s.depth -= 1
        rets = [(v, q) for k_, v, q in outs if k_ == "return"]
        for k_, v, q in outs:
            if k_ == "raise":
                s.raised.append((q, v))
        if len(rets) > 1:
            raise MultiReturn([z3.And(*q.pc[len(p.pc):]) if q.pc[len(p.pc):] else z3.BoolVal(True) for _, q in rets])
        if len(rets) != 1:
            raise Unsupported(f"{owner}.{meth}: {len(rets)} returning paths")
        v, q = rets[0]
        p.pc[:] = q.pc
        p.env["__self_fields__"] = q.env.get("__self_fields__", env["__self_fields__"])
        s.inlined.add(f"{m}.{owner}.{meth}")
        return v

    def ev_Call(s, p, e):
        f = e.func
        t = ast.unparse(f)
        if t in ("Op.str", "str") and len(e.args) == 1 and not e.keywords:
            return s.opstr(s.ev(p, e.args[0]))
        if t == "map" and len(e.args) == 2 and ast.unparse(e.args[0]) == "Op.str":
            v = s.ev(p, e.args[1])
            if isinstance(v, PyL):
                return PyL([s.opstr(x) for x in v.items])
        if t in ("to_float", "float") and len(e.args) == 1:
            v = s.ev(p, e.args[0])
            if isinstance(v, Text) and len(v.toks) == 1:
                v = v.toks[0]
            if isinstance(v, Tok):
                q = Path(p.env, list(p.pc)); q.pc.append(z3.Not(pf_ok(v.t))); s.raised.append((q, "ValueError"))
                p.pc += [pf_ok(v.t), canon(pf(v.t))]
                return Num(xr2x(pf(v.t)), False, True)
            if isinstance(v, (Num, float, int)):
                return s.num(v, e)
            if isinstance(v, Text):
                s.raised.append((Path(p.env, list(p.pc)), "ValueError"))
                p.pc.append(z3.BoolVal(False))
                return 0.0
        if t == "int" and len(e.args) == 1:
            v = s.ev(p, e.args[0])
            if isinstance(v, Text) and len(v.toks) == 1:
                v = v.toks[0]
            if isinstance(v, Tok):
                q = Path(p.env, list(p.pc)); q.pc.append(z3.Not(pint_ok(v.t))); s.raised.append((q, "ValueError"))
                p.pc.append(pint_ok(v.t))
                return Num(X(xr.F, xr.I0, z3.ToReal(pint(v.t))), False, True, True)
            if isinstance(v, Text):
                s.raised.append((Path(p.env, list(p.pc)), "ValueError"))
                p.pc.append(z3.BoolVal(False))
                return 0
        if t == "isinstance" and len(e.args) == 2:
            v = s.ev(p, e.args[0])
            names = [ast.unparse(x) for x in (e.args[1].elts if isinstance(e.args[1], ast.Tuple) else [e.args[1]])]
            if names == ["str"]:
                return isinstance(v, (str, Tok, Text))
        if t == "len" and len(e.args) == 1:
            v = s.ev(p, e.args[0])
            if isinstance(v, PyL):
                return len(v.items)
            if isinstance(v, Text):
                raise Unsupported("len of a text")
        if isinstance(f, ast.Attribute):
            # ' '.join(list)
            if isinstance(f.value, ast.Constant) and f.value.value == " " and f.attr == "join" and len(e.args) == 1:
                v = s.ev(p, e.args[0])
                if isinstance(v, PyL):
                    toks = []
                    for it in v.items:
                        it = s.opstr(it) if not isinstance(it, (Tok, Text)) else it
                        toks += list(it.toks) if isinstance(it, Text) else [it]
                    return Text(toks)
            # self._m(...) / super()._m(...): helper methods of the class hierarchy executed in place
            is_super = isinstance(f.value, ast.Call) and isinstance(f.value.func, ast.Name) and f.value.func.id == "super"
            is_self = isinstance(f.value, ast.Name) and f.value.id == "self"
            if (is_super or is_self) and s.selfobj is not None:
                start = s.selfobj.cls
                if is_super:
                    mro = s.src.mro(s.selfobj.cls)
                    start = mro[mro.index(s.cur_cls[-1]) + 1]
                kw = {k.arg: s.ev(p, k.value) for k in e.keywords}
                return s.inline_method(p, start, f.attr, s.call_args(p, e), kw, e)
            recv = None
            try:
                recv = s.ev(Path(p.env, p.pc), f.value)
            except Unsupported:
                pass
            if isinstance(recv, (Text, Tok)) and f.attr == "split" and not e.args:
                return PyL(recv.toks if isinstance(recv, Text) else [recv])
            if isinstance(recv, tuple) and recv and recv[0] == "enumcls" and len(e.args) == 1:      # Enum(value)
                return s.enum_lookup(p, recv[1], s.ev(p, e.args[0]), by="value")
        if isinstance(f, (ast.Attribute, ast.Name)):
            try:
                c = s.ev(Path(p.env, p.pc), f)
            except Unsupported:
                c = None
            if isinstance(c, tuple) and c and c[0] == "enumcls" and len(e.args) == 1:
                return s.enum_lookup(p, c[1], s.ev(p, e.args[0]), by="value")
        return super().ev_Call(p, e)

    # ---------------------------------------------------------------- statements
    def feasible(s, pc, c):
        so = z3.Solver(); so.set("timeout", 2000)
        so.add(*pc); so.add(*s.axioms); so.add(c)
        return so.check() != z3.unsat

    def stmt(s, p, n):
        if isinstance(n, ast.If) and p.pc:
            # branches that contradict the path condition are pruned by a solver call (case preconditions of MultiReturn re-runs)
            q = Path(p.env, list(p.pc))
            try:
                c = z3.simplify(s.truth(s.ev(q, n.test), n))
            except Unsupported:
                c = None
            if c is not None and not z3.is_true(c) and not z3.is_false(c):
                t_ok, f_ok = s.feasible(q.pc, c), s.feasible(q.pc, z3.Not(c))
                if t_ok != f_ok:
                    p.pc[:] = q.pc
                    p.pc.append(c if t_ok else z3.Not(c))
                    return s.block([p], n.body if t_ok else n.orelse) if (n.body if t_ok else n.orelse) else [(p, None)]
        if isinstance(n, ast.Expr) and isinstance(n.value, ast.Call) and isinstance(n.value.func, ast.Attribute) and isinstance(n.value.func.value, ast.Name) \
                and isinstance(p.env.get(n.value.func.value.id), PyL) and n.value.func.attr in ("append", "extend"):
            nm = n.value.func.value.id
            v = s.ev(p, n.value.args[0])
            cur = p.env[nm]
            if n.value.func.attr == "append":
                p.env[nm] = PyL(cur.items + (v,))
            else:
                if not isinstance(v, PyL):
                    raise Unsupported("extend with a non-list")
                p.env[nm] = PyL(cur.items + v.items)
            return [(p, None)]
        if isinstance(n, ast.Raise):
            from .numexec import raised_name
            return [(p, ("raise", raised_name(n, p.env)))]
        if isinstance(n, ast.Assign) and len(n.targets) == 1 and isinstance(n.targets[0], ast.Name) and isinstance(n.value, ast.JoinedStr):
            try:
                p.env[n.targets[0].id] = s.ev(p, n.value)
            except Unsupported:
                p.env[n.targets[0].id] = "<message>"
            return [(p, None)]
        return super().stmt(p, n)

    def assign(s, p, t, v):
        if isinstance(t, ast.Tuple) and isinstance(v, PyL):
            if len(v.items) != len(t.elts):
                s.safety.append((f"line{t.lineno}:unpacking {len(v.items)} values into {len(t.elts)} targets", list(p.pc), z3.BoolVal(False)))
                raise Unsupported(f"unpacking {len(v.items)} values into {len(t.elts)} targets at line {t.lineno}")
            v = tuple(v.items)
        return super().assign(p, t, v)
