"""Helpers to run a real method body in the numeric executor and get one merged result."""
import z3
from . import xreal as xr
from .numexec import NumExec, Num, Bool, Obj, Unsupported


def exec_method(src, cls, meth, ax, fields, args, data_args=True, call_hook=None, pre=()):
    """symbolically execute `cls.meth` (resolved through the MRO read from the source) with self.fields = `fields`
    (name -> value) and positional data arguments `args` (X values).
    returns (outcomes, executor, fn, module): outcomes = [(kind, value, path)]"""
    module, owner, fn = src.resolve_method(cls, meth)
    ex = NumExec(src, module, ax, selfobj=Obj(cls, dict(fields)), call_hook=call_hook)
    names = [a.arg for a in fn.args.args]
    env = {"self": ex.selfobj}
    for nm, x in zip(names[1:], args):
        env[nm] = x if isinstance(x, (Num, Bool)) or not isinstance(x, xr.X) else Num(x, data=data_args, py=False, alias=data_args)
    outs = ex.run(fn, env, pc=list(pre))
    return outs, ex, fn, module


def merged_return(outs, ex, what):
    """all paths must return a number; merge by path condition. Raising paths are returned separately."""
    rets = [(v, p) for k, v, p in outs if k == "return"]
    raises = [(v, p) for k, v, p in outs if k == "raise"]
    if not rets:
        raise Unsupported(f"{what}: no returning path")
    val = ex.num(rets[-1][0]).x
    for v, p in reversed(rets[:-1]):
        val = xr.ite(z3.And(*p.pc) if p.pc else xr.T, ex.num(v).x, val)
    return val, raises
