"""Extraction: re-reads /repo/fuzzylite/*.py with ast.parse on every run and locates functions by qualified name.

What extraction drops is exactly DESIGN 3.1: docstrings, annotations, comments, logging calls, exception messages.
Nothing in /verif transcribes repository code: every executor walks the AST objects returned from here.
"""
import ast
import hashlib
import os

REPO = os.environ.get("PYVC_REPO", "/repo")


def _anon(node):
    """dump of an expression / statement with every identifier blanked (a fingerprint that survives renames)"""
    class A(ast.NodeTransformer):
        def visit_Name(self, n):
            return ast.copy_location(ast.Name(id="_", ctx=n.ctx), n)

        def visit_arg(self, n):
            return n
    import copy
    return ast.dump(A().visit(copy.deepcopy(node)), annotate_fields=False)


def local_bindings(fn):
    """[[name, fingerprint of the statement that first binds it], ...] in source order; [] when the function declares global/nonlocal names"""
    params = {a.arg for a in fn.args.args + fn.args.kwonlyargs + fn.args.posonlyargs}
    for extra in (fn.args.vararg, fn.args.kwarg):
        if extra:
            params.add(extra.arg)
    stores, parent = [], {}
    for n in ast.walk(fn):
        for c in ast.iter_child_nodes(n):
            parent[c] = n
        if isinstance(n, (ast.Global, ast.Nonlocal)) or (isinstance(n, (ast.FunctionDef, ast.Lambda, ast.ClassDef)) and n is not fn):
            return []
    for n in ast.walk(fn):
        if isinstance(n, ast.Name) and isinstance(n.ctx, ast.Store) and n.id not in params:
            stores.append(n)
    stores.sort(key=lambda n: (n.lineno, n.col_offset))
    out, seen = [], set()
    for n in stores:
        if n.id in seen:
            continue
        seen.add(n.id)
        st = n
        while st in parent and not isinstance(st, ast.stmt):
            st = parent[st]
        # fingerprint: the binding statement without its nested bodies
        if isinstance(st, (ast.For, ast.While, ast.If, ast.With, ast.Try)):
            fp = type(st).__name__ + ":" + (_anon(st.iter) if isinstance(st, ast.For) else "")
        else:
            fp = _anon(st)
        out.append([n.id, fp])
    return out


class NotFound(KeyError):
    """a function/class under contract does not exist in the tree under check"""


def loop_shape(fn):
    """kinds of the loop statements of a function in source order"""
    loops = sorted((n.lineno, n.col_offset, "for" if isinstance(n, ast.For) else "while") for n in ast.walk(fn) if isinstance(n, (ast.For, ast.While)))
    return [k for _, _, k in loops]


class _DropLogging(ast.NodeTransformer):
    """What the extraction drops (assumption A-LOG: logging calls neither raise nor mutate library state): every statement `settings.logger.<level>(...)`
    and every `if settings.debugging:` block that consists of such statements only.  Everything else of the source is kept as written."""

    @staticmethod
    def _is_log(st):
        return isinstance(st, ast.Expr) and isinstance(st.value, ast.Call) and ast.unparse(st.value.func).startswith("settings.logger.")

    def _body(self, body, anchor):
        out = []
        for st in body:
            st = self.visit(st)
            if st is None or self._is_log(st):
                continue
            if isinstance(st, ast.If) and ast.unparse(st.test) == "settings.debugging" and not st.orelse and all(isinstance(x, ast.Pass) for x in st.body):
                continue
            out.append(st)
        if not out:
            out = [ast.copy_location(ast.Pass(), anchor)]
        return out

    def generic_visit(self, node):
        for field in ("body", "orelse", "finalbody"):
            b = getattr(node, field, None)
            if isinstance(b, list) and b and isinstance(b[0], ast.stmt):
                setattr(node, field, self._body(b, b[0]))
            elif isinstance(b, list) and field == "body" and not b:
                pass
        for h in getattr(node, "handlers", []) or []:
            h.body = self._body(h.body, h.body[0])
        return node


class Source:
    def __init__(self, root=None):
        self.root = root or REPO
        self.pkg = os.path.join(self.root, "fuzzylite")
        self.text, self.mod, self.classes, self.functions = {}, {}, {}, {}
        for fn in sorted(os.listdir(self.pkg)):
            if fn.endswith(".py"):
                m = fn[:-3]
                src = open(os.path.join(self.pkg, fn), encoding="utf-8").read()
                self.text[m] = src
                self.mod[m] = _DropLogging().visit(ast.parse(src))
        for m, tree in self.mod.items():
            self._index(m, tree.body, prefix="")
        self._canon_locals()
        self._loop_shapes()

    def _loop_shapes(self):
        """sidecar invariants are keyed by function and loop ordinal: they apply only while the function has the loops (for / while, in source order) it had when the
        sidecars were written (contracts/loop_shapes.json, regenerated with local_names.json); otherwise the function is outside the verified subset"""
        import json
        ref_path = os.path.join(os.path.dirname(os.path.dirname(os.path.abspath(__file__))), "contracts", "loop_shapes.json")
        self.loop_shape_changed = {}
        if not os.path.exists(ref_path):
            return
        ref = json.load(open(ref_path))
        for (m, q), fns in self.functions.items():
            for k, fn in enumerate(fns):
                want = ref.get(f"{m}:{q}#{k}")
                have = loop_shape(fn)
                if want is not None and want != have:
                    self.loop_shape_changed[id(fn)] = (want, have)

    def _index(self, m, body, prefix):
        for n in body:
            if isinstance(n, ast.ClassDef):
                q = prefix + n.name
                self.classes[(m, q)] = n
                self._index(m, n.body, q + ".")
            elif isinstance(n, (ast.FunctionDef, ast.AsyncFunctionDef)):
                self.functions.setdefault((m, prefix + n.name), []).append(n)

    def _canon_locals(self):
        """pure renames of local variables are undone: when a function has the same locals, bound at the same (name-free) sites, as when the
        sidecars were written (contracts/local_names.json), its locals are renamed positionally to the names the sidecars use"""
        import json
        ref_path = os.path.join(os.path.dirname(os.path.dirname(os.path.abspath(__file__))), "contracts", "local_names.json")
        self.renamed = {}
        if not os.path.exists(ref_path):
            return
        ref = json.load(open(ref_path))
        for (m, q), fns in self.functions.items():
            for k, fn in enumerate(fns):
                want = ref.get(f"{m}:{q}#{k}")
                if not want:
                    continue
                have = local_bindings(fn)
                if len(have) != len(want) or [h[1] for h in have] != [w[1] for w in want] or [h[0] for h in have] == [w[0] for w in want]:
                    continue
                mapping = {h[0]: w[0] for h, w in zip(have, want)}
                others = {n.id for n in ast.walk(fn) if isinstance(n, ast.Name)} - set(mapping)
                if set(mapping.values()) & others:
                    continue          # a reference name is used for something else now: leave the function alone
                for n in ast.walk(fn):
                    if isinstance(n, ast.Name) and n.id in mapping:
                        n.id = mapping[n.id]
                self.renamed[f"{m}.{q}"] = {a: b for a, b in mapping.items() if a != b}

    # ---- lookup
    def cls(self, module, name):
        if (module, name) not in self.classes:
            raise NotFound(f"{module}.{name}")
        return self.classes[(module, name)]

    def has_cls(self, module, name):
        return (module, name) in self.classes

    def find_class(self, name):
        """class by bare name in any module -> (module, ClassDef)"""
        hits = [(m, c) for (m, q), c in self.classes.items() if q == name]
        if not hits:
            raise KeyError(name)
        return hits[0]

    def func(self, module, qual, which=None):
        """function `Class.method` (or bare function) of a module. Properties: which='getter'|'setter'."""
        fs = self.functions.get((module, qual))
        if not fs:
            raise NotFound(f"{module}.{qual}")
        if which is None:
            # skip typing overload stubs
            real = [f for f in fs if not any(_decname(d) == "overload" for d in f.decorator_list)]
            return real[-1] if which is None and len(real) == 1 else real[0] if real else fs[0]
        for f in fs:
            decs = [_decname(d) for d in f.decorator_list]
            if which == "getter" and "property" in decs:
                return f
            if which == "setter" and any(d.endswith(".setter") for d in decs):
                return f
        raise NotFound(f"{module}.{qual}[{which}]")

    def has_func(self, module, qual):
        return (module, qual) in self.functions

    def bases(self, module, cname):
        c = self.classes[(module, cname)]
        out = []
        for b in c.bases:
            if isinstance(b, ast.Name):
                out.append(b.id)
            elif isinstance(b, ast.Attribute):
                out.append(b.attr)
        return out

    def module_of_class(self, cname):
        for (m, q) in self.classes:
            if q == cname:
                return m
        return None

    def mro(self, cname):
        """linearisation by the source (depth-first, left-to-right, duplicates removed keeping the last = C3 for the
        single/diamond-free hierarchies of this package; NormLambda/NormFunction (TNorm, SNorm) are the only diamonds)"""
        m = self.module_of_class(cname)
        if m is None:
            return [cname]
        out = [cname]
        for b in self.bases(m, cname):
            for c in self.mro(b):
                if c in out:
                    out.remove(c)
                out.append(c)
        return out

    def resolve_method(self, cname, meth, which=None):
        """(module, class, FunctionDef) of `meth` looked up through the MRO read from the source"""
        for c in self.mro(cname):
            m = self.module_of_class(c)
            if m and (m, f"{c}.{meth}") in self.functions:
                try:
                    return m, c, self.func(m, f"{c}.{meth}", which)
                except NotFound:
                    continue
        raise NotFound(f"{cname}.{meth}")

    def subclasses(self, module, base):
        """all classes of `module` having `base` in their MRO (excluding base itself), in source order"""
        out = []
        for (m, q), c in self.classes.items():
            if m == module and q != base and "." not in q and base in self.mro(q):
                out.append(q)
        return sorted(out, key=lambda q: self.classes[(module, q)].lineno)

    def segment(self, module, node):
        return ast.get_source_segment(self.text[module], node)

    def fhash(self, module, node):
        return hashlib.sha256(ast.dump(strip_doc(node)).encode()).hexdigest()[:16]

    def where(self, module, node):
        return f"fuzzylite/{module}.py:{node.lineno}"


def _decname(d):
    if isinstance(d, ast.Name):
        return d.id
    if isinstance(d, ast.Attribute):
        return (_decname(d.value) + "." + d.attr)
    if isinstance(d, ast.Call):
        return _decname(d.func)
    return "?"


def strip_doc(fn):
    """copy of a FunctionDef without docstring (annotations are ignored by the executors)"""
    body = fn.body
    if body and isinstance(body[0], ast.Expr) and isinstance(body[0].value, ast.Constant) and isinstance(body[0].value.value, str):
        body = body[1:]
    new = ast.FunctionDef(name=fn.name, args=fn.args, body=body or [ast.Pass()], decorator_list=[], returns=None, type_comment=None)
    return ast.copy_location(new, fn)


def body_of(fn):
    return strip_doc(fn).body
