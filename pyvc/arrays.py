"""Array layer of pyvc (DESIGN 4.4, 5.5): symbolic execution of straight-line NumPy code over arrays of SYMBOLIC size.

An array is (shape, element closure): shape = tuple of dimensions (python int or z3 Int expression, rank 1 or 2), elem(*idx) -> extended
real X (or z3 Bool for boolean arrays).  Element-wise operations compose closures with NumPy broadcasting (a dimension that is literally 1
reads index 0).  A reduction along axis 1 introduces a recursively defined function symbol R(i, n) ("the reduction of the first n elements
of row i") together with its unfolding R(i, n+1) = step(R(i, n), element(i, n)); the solver never sees the recursion - facts that need
induction are proved by `Induction` (base VC + step VC over ONE unfolding) and handed to the main obligations at n = size.

NumPy semantics modelled (assumption A-NP): + - * / (true divide), comparisons, &, np.abs, np.where, np.atleast_2d, np.array(range(n)),
x[:, [-1]], .sum/.max/.min(axis=1[, keepdims]), np.nancumsum/nanmean/nanmin/nanmax(axis=1), .squeeze().
"""
import ast
import z3
from . import xreal as xr
from .xreal import X
from .numexec import Unsupported

INT, REAL, BOOL = z3.IntSort(), z3.RealSort(), z3.BoolSort()
NANX = xr.const(float("nan"))


class Arr:
    """float array"""

    def __init__(s, shape, elem, kind="float"):
        s.shape, s.elem, s.kind = tuple(shape), elem, kind        # kind: float | bool

    @property
    def ndim(s):
        return len(s.shape)


class Sc:
    """scalar (python float / numpy float64)"""

    def __init__(s, x):
        s.x = x


class IntS:
    def __init__(s, i):
        s.i = i


class ObjA:
    """an object of the package in array-level code: class name + field values; methods are hooks or real bodies executed in place"""

    def __init__(s, cls, fields):
        s.cls, s.fields = cls, dict(fields)


class Raised(Exception):
    def __init__(s, exc):
        s.exc = exc


def is1(d):
    return isinstance(d, int) and d == 1


def rint(i):
    return z3.ToReal(i) if not isinstance(i, int) else z3.RealVal(i)


class Rec:
    """recursively defined reduction: F(i, 0) = init ; F(i, n+1) = step(i, n, F(i, n))   (one z3 function symbol per component)"""
    count = 0

    def __init__(s, tag, sort, init, step, start=0):
        Rec.count += 1
        s.tag = f"{tag}#{Rec.count}"
        s.f = z3.Function(s.tag, INT, INT, sort)
        s.init, s.step, s.start = init, step, start

    def at(s, i, n):
        return s.f(i, n)

    def base(s, i):
        return s.f(i, z3.IntVal(s.start)) == s.init(i) if s.init is not None else z3.BoolVal(True)

    def unfold(s, i, n):
        return s.f(i, n + 1) == s.step(i, n, s.f(i, n))


class ArrExec:
    """executes the statements of a defuzzify()/midpoints() body"""

    def __init__(s, src, module, hooks=None):
        s.src, s.module = src, module
        s.hooks = hooks or {}
        s.obls = []             # (name, hyps, goal)
        s.recs = []             # every reduction created, in order: dict(kind, rec(s), elem, rows, cols, site)
        s.hyps = []
        s.fn_line = 0

    # ------------------------------------------------------------ helpers
    def scal(s, v, node=None):
        if isinstance(v, Sc):
            return v.x
        if isinstance(v, IntS):
            return X(xr.F, xr.I0, rint(v.i))
        if isinstance(v, bool):
            return xr.const(1.0 if v else 0.0)
        if isinstance(v, (int, float)):
            return xr.const(float(v)) if isinstance(v, float) else X(xr.F, xr.I0, z3.RealVal(v))
        raise Unsupported(f"not a scalar: {type(v).__name__} at line {getattr(node, 'lineno', '?')}")

    def bshape(s, a, b, node):
        """broadcast two shapes (aligned from the right)"""
        ra, rb = list(a), list(b)
        while len(ra) < len(rb):
            ra.insert(0, 1)
        while len(rb) < len(ra):
            rb.insert(0, 1)
        out = []
        for da, db in zip(ra, rb):
            if is1(da):
                out.append(db)
            elif is1(db):
                out.append(da)
            elif (isinstance(da, int) and isinstance(db, int) and da == db) or (not isinstance(da, int) and not isinstance(db, int) and da.eq(db)):
                out.append(da)
            else:
                s.obls.append((f"shape/line{node.lineno - s.fn_line}:operands broadcast ({da} vs {db})", list(s.hyps), z3.Or(da == db, da == 1, db == 1)))
                out.append(da)
        return tuple(out), ra, rb

    def rd(s, v, shp_full, idx):
        """read operand v (Arr or scalar) at the broadcast index idx; shp_full = v's shape padded to the result rank"""
        if not isinstance(v, Arr):
            return s.scal(v)
        k = len(shp_full) - v.ndim
        sub = [(0 if is1(d) else i) for d, i in zip(shp_full[k:], idx[k:])]
        return v.elem(*sub)

    def ew(s, f, a, b, node, kind="float"):
        """element-wise binary operation"""
        if not isinstance(a, Arr) and not isinstance(b, Arr):
            return None
        sa = a.shape if isinstance(a, Arr) else ()
        sb = b.shape if isinstance(b, Arr) else ()
        shp, fa, fb = s.bshape(sa, sb, node)
        return Arr(shp, lambda *idx: f(s.rd(a, fa, idx), s.rd(b, fb, idx)), kind)

    # ------------------------------------------------------------ statements
    def run(s, fn, env):
        # an exception of the ANALYSIS while it executes the code under check (a construct the executor does not model, met in a form it did not expect) is
        # `outside the verified subset` (undecided, with the native fallback), not a fault of the checker
        try:
            return s._run_impl(fn, env)
        except (AttributeError, TypeError, KeyError, IndexError, ValueError, AssertionError, z3.Z3Exception) as ex_:
            raise Unsupported(f"analysis error {type(ex_).__name__}: {str(ex_)[:200]}")

    def _run_impl(s, fn, env):
        s.fn_line = fn.lineno
        return s.block(fn.body, env)

    def block(s, body, env):
        for st in body:
            if isinstance(st, ast.Expr):
                if isinstance(st.value, ast.Constant):
                    continue
                if ast.unparse(st.value).startswith("warnings."):
                    continue
                raise Unsupported(f"expression statement at line {st.lineno}")
            if isinstance(st, ast.Assign) and len(st.targets) == 1 and isinstance(st.targets[0], ast.Name):
                env[st.targets[0].id] = s.ev(st.value, env)
                continue
            if isinstance(st, ast.With):
                if all(ast.unparse(it.context_expr) == "warnings.catch_warnings()" for it in st.items):
                    r = s.block(st.body, env)
                    if r is not None:
                        return r
                    continue
                raise Unsupported(f"with statement at line {st.lineno}")
            if isinstance(st, ast.Return):
                return s.ev(st.value, env) if st.value is not None else ("none",)
            if isinstance(st, ast.If):
                c = s.pytruth(s.ev(st.test, env), st)
                r = s.block(st.body if c else st.orelse, env)
                if r is not None:
                    return r
                continue
            if isinstance(st, ast.Raise):
                exc = st.exc.func if isinstance(st.exc, ast.Call) else st.exc
                raise Raised(ast.unparse(exc))
            if isinstance(st, ast.For) and isinstance(st.target, ast.Name) and not st.orelse:
                it = s.ev(st.iter, env)
                if not isinstance(it, list):
                    raise Unsupported(f"for over {type(it).__name__} at line {st.lineno}")
                for item in it:
                    env[st.target.id] = item
                    r = s.block(st.body, env)
                    if r is not None:
                        return r
                continue
            raise Unsupported(f"statement {type(st).__name__} at line {st.lineno}")
        return None

    def pytruth(s, v, node):
        """truth value of a configuration-level value (never of data)"""
        if isinstance(v, bool):
            return v
        if v is None:
            return False
        if isinstance(v, (list, ObjA)):
            return bool(v) if isinstance(v, list) else True
        raise Unsupported(f"Python truth value of {type(v).__name__} at line {node.lineno} (data-dependent control)")

    def ev_BoolOp(s, e, env):
        vals = [s.ev(v, env) for v in e.values]
        ts = [s.pytruth(v, e) for v in vals]
        return all(ts) if isinstance(e.op, ast.And) else any(ts)

    # ------------------------------------------------------------ expressions
    def ev(s, e, env):
        m = getattr(s, "ev_" + type(e).__name__, None)
        if m is None:
            raise Unsupported(f"expression {type(e).__name__} at line {e.lineno}")
        return m(e, env)

    def ev_Tuple(s, e, env):
        return tuple(s.ev(x, env) for x in e.elts)

    def ev_Constant(s, e, env):
        if isinstance(e.value, (int, float)) and not isinstance(e.value, bool):
            return e.value
        raise Unsupported(f"constant {e.value!r}")

    def ev_Name(s, e, env):
        if e.id in env:
            return env[e.id]
        raise Unsupported(f"name {e.id} at line {e.lineno}")

    def ev_Attribute(s, e, env):
        t = ast.unparse(e)
        if t == "np.nan":
            return Sc(NANX)
        if t in env:
            return env[t]            # e.g. self.resolution
        if not (isinstance(e.value, ast.Name) and e.value.id == "np"):
            base = s.ev(e.value, env)
            if isinstance(base, ObjA):
                if e.attr in base.fields:
                    return base.fields[e.attr]
                raise Unsupported(f"field {base.cls}.{e.attr}")
            if isinstance(base, Arr) and e.attr == "T":
                if base.ndim == 2:
                    return Arr((base.shape[1], base.shape[0]), lambda i, j: base.elem(j, i), base.kind)
                return base
        raise Unsupported(f"attribute {t} at line {e.lineno}")

    def ev_UnaryOp(s, e, env):
        v = s.ev(e.operand, env)
        if isinstance(e.op, ast.Not):
            return not s.pytruth(v, e)
        if isinstance(e.op, ast.USub):
            if isinstance(v, Arr):
                return Arr(v.shape, lambda *idx: xr.neg(v.elem(*idx)))
            if isinstance(v, (int, float)):
                return -v
            return Sc(xr.neg(s.scal(v)))
        raise Unsupported(f"unary {type(e.op).__name__}")

    def ev_BinOp(s, e, env):
        a, b = s.ev(e.left, env), s.ev(e.right, env)
        op = type(e.op)
        if op is ast.BitAnd:
            if isinstance(a, Arr) and isinstance(b, Arr) and a.kind == b.kind == "bool":
                shp, fa, fb = s.bshape(a.shape, b.shape, e)
                return Arr(shp, lambda *idx: z3.And(s.rd(a, fa, idx), s.rd(b, fb, idx)), "bool")
            raise Unsupported("& on non-boolean arrays")
        f = {ast.Add: xr.add, ast.Sub: xr.sub, ast.Mult: xr.mul, ast.Div: xr.div}.get(op)
        if f is None:
            raise Unsupported(f"binary {op.__name__} at line {e.lineno}")
        r = s.ew(f, a, b, e)
        if r is not None:
            return r
        if op in (ast.Add, ast.Sub, ast.Mult) and all(isinstance(v, (IntS, int)) and not isinstance(v, bool) for v in (a, b)) and any(isinstance(v, IntS) for v in (a, b)):
            ia, ib = (v.i if isinstance(v, IntS) else z3.IntVal(v) for v in (a, b))
            return IntS(ia + ib if op is ast.Add else ia - ib if op is ast.Sub else ia * ib)
        if all(isinstance(v, (int, float)) for v in (a, b)):
            return {ast.Add: a + b, ast.Sub: a - b, ast.Mult: a * b, ast.Div: a / b if b else float("nan")}[op]
        return Sc(f(s.scal(a, e), s.scal(b, e)))

    def ev_Compare(s, e, env):
        if len(e.ops) != 1:
            raise Unsupported("chained comparison")
        a, b = s.ev(e.left, env), s.ev(e.comparators[0], env)
        f = {ast.Gt: xr.gt, ast.GtE: xr.ge, ast.Lt: xr.lt, ast.LtE: xr.le, ast.Eq: xr.eq, ast.NotEq: xr.ne}.get(type(e.ops[0]))
        if f is None:
            raise Unsupported("comparison")
        r = s.ew(f, a, b, e, "bool")
        if r is None:
            raise Unsupported("scalar comparison in array code")
        return r

    def ev_Subscript(s, e, env):
        v = s.ev(e.value, env)
        if isinstance(v, Arr) and v.ndim == 2 and ast.unparse(e.slice) == "(slice(None, None, None), [-1])" or (isinstance(v, Arr) and v.ndim == 2 and ast.unparse(e) .endswith("[:, [-1]]")):
            C = v.shape[1]
            s.obls.append((f"safety/line{e.lineno - s.fn_line}:last column exists", list(s.hyps), C >= 1 if not isinstance(C, int) else z3.BoolVal(C >= 1)))
            return Arr((v.shape[0], 1), lambda i, j: v.elem(i, C - 1), v.kind)
        raise Unsupported(f"subscript {ast.unparse(e)} at line {e.lineno}")

    def kw(s, e, env):
        return {k.arg: s.ev(k.value, env) if not (isinstance(k.value, ast.Constant) and isinstance(k.value.value, bool)) else k.value.value for k in e.keywords}

    def ev_Call(s, e, env):
        f = e.func
        t = ast.unparse(f)
        if t in s.hooks:
            return s.hooks[t](s, e, env)
        if t == "range" and len(e.args) == 1:
            n = s.ev(e.args[0], env)
            return ("range", n.i if isinstance(n, IntS) else n)
        if isinstance(f, ast.Attribute) and isinstance(f.value, ast.Name) and f.value.id == "np":
            return s.np_call(f.attr, e, env)
        if t == "scalar" and len(e.args) == 1:
            v = s.ev(e.args[0], env)
            return v if isinstance(v, (Arr, Sc)) else Sc(s.scal(v, e))
        if isinstance(f, ast.Attribute):
            recv = s.ev(f.value, env)
            kw = s.kw(e, env)
            if isinstance(recv, ObjA):
                args = [s.ev(a, env) for a in e.args]
                hk = s.hooks.get((recv.cls, f.attr))
                if hk is not None:
                    return hk(s, recv, args, e)
                return s.inline(recv, f.attr, args, e)
            if isinstance(recv, Sc) and f.attr == "squeeze" and not e.args:
                return recv
            if isinstance(recv, Arr):
                if f.attr == "squeeze" and not e.args:
                    shp = tuple(d for d in recv.shape if not is1(d))
                    drop = [k for k, d in enumerate(recv.shape) if is1(d)]
                    def elem(*idx, _r=recv, _drop=drop):
                        full, it = [], iter(idx)
                        for k in range(_r.ndim):
                            full.append(0 if k in _drop else next(it))
                        return _r.elem(*full)
                    return Arr(shp, elem, recv.kind)
                if f.attr in ("sum", "max", "min") and kw.get("axis") == 1 and recv.ndim == 2:
                    return s.reduce(f.attr, recv, bool(kw.get("keepdims", False)), e)
            raise Unsupported(f"method .{f.attr} at line {e.lineno}")
        raise Unsupported(f"call {t} at line {e.lineno}")

    def np_call(s, name, e, env):
        args = [s.ev(a, env) for a in e.args]
        kw = s.kw(e, env)
        if name == "array" and len(args) == 1 and isinstance(args[0], tuple) and args[0][0] == "range":
            n = args[0][1]
            return Arr((n,), lambda j: X(xr.F, xr.I0, rint(j)))
        if name == "atleast_2d" and len(args) == 1 and isinstance(args[0], Sc):
            x0 = args[0].x
            return Arr((1, 1), lambda i, j: x0)
        if name == "atleast_2d" and len(args) == 1:
            v = args[0]
            if isinstance(v, Arr) and v.ndim == 1:
                return Arr((1, v.shape[0]), lambda i, j: v.elem(j), v.kind)
            if isinstance(v, Arr) and v.ndim == 2:
                return v
            if isinstance(v, Arr) and v.ndim == 0:
                return Arr((1, 1), lambda i, j: v.elem(), v.kind)
            raise Unsupported("atleast_2d of a scalar")
        if name in ("abs", "absolute", "fabs") and len(args) == 1 and isinstance(args[0], Arr):
            v = args[0]
            return Arr(v.shape, lambda *idx: xr.xabs(v.elem(*idx)))
        if name == "where" and len(args) == 3 and isinstance(args[0], Arr) and args[0].kind == "bool":
            c, a, b = args
            shp = c.shape
            fa = fb = None
            for v in (a, b):
                if isinstance(v, Arr):
                    shp, _, _ = s.bshape(shp, v.shape, e)
            pad = lambda v: ([1] * (len(shp) - v.ndim) + list(v.shape)) if isinstance(v, Arr) else []
            return Arr(shp, lambda *idx: xr.ite(s.rd(c, pad(c), idx), s.rd(a, pad(a), idx), s.rd(b, pad(b), idx)))
        if name in ("nancumsum", "nanmean", "nanmin", "nanmax") and len(args) == 1 and isinstance(args[0], Arr) and args[0].ndim == 2 and kw.get("axis") == 1:
            return s.reduce(name, args[0], False, e)
        raise Unsupported(f"np.{name} at line {e.lineno}")

    def inline(s, obj, meth, args, node):
        """the real body of obj.cls.meth executed in place (same reductions / obligations)"""
        m, owner, fn = s.src.resolve_method(obj.cls, meth)
        names = [a.arg for a in fn.args.args]
        env = {"self": obj}
        for nm, v in zip(names[1:], args):
            env[nm] = v
        save = s.fn_line
        s.fn_line = fn.lineno
        from .source import body_of
        r = s.block(body_of(fn), env)
        s.fn_line = save
        s.inlined = getattr(s, "inlined", set()) | {f"{m}.{owner}.{meth}"}
        return r

    # ------------------------------------------------------------ reductions along axis 1
    def reduce(s, kind, a, keepdims, node):
        R, C = a.shape
        el = a.elem
        site = f"{kind}@line{node.lineno - s.fn_line}"
        info = {"kind": kind, "elem": el, "rows": R, "cols": C, "site": site, "arr": a}
        nonneg_C = [C >= 0] if not isinstance(C, int) else []
        if kind == "sum":
            # elements must be finite (an infinite or NaN summand makes the model below inapplicable): obligation per site
            j = z3.FreshInt("j"); i = z3.FreshInt("i")
            s.obls.append((f"safety/{site}:summands are finite", list(s.hyps) + [0 <= i, i < R, 0 <= j, j < C], xr.fin(el(i, j))))
            F = Rec("sum", REAL, lambda i: z3.RealVal(0), lambda i, n, acc: acc + el(i, n).v)
            info["rec"] = F
            out = lambda i: X(xr.F, xr.I0, F.at(i, C))
        elif kind in ("max", "min"):
            j = z3.FreshInt("j"); i = z3.FreshInt("i")
            s.obls.append((f"safety/{site}:row is not empty", list(s.hyps), C >= 1 if not isinstance(C, int) else z3.BoolVal(C >= 1)))
            s.obls.append((f"safety/{site}:elements are not infinite", list(s.hyps) + [0 <= i, i < R, 0 <= j, j < C], el(i, j).inf == 0, {"i": i, "j": j}))
            better = (lambda v, acc: v > acc) if kind == "max" else (lambda v, acc: v < acc)
            F = Rec(kind, REAL, lambda i: el(i, 0).v, lambda i, n, acc: z3.If(better(el(i, n).v, acc), el(i, n).v, acc), start=1)
            AN = Rec("anynan", BOOL, lambda i: z3.BoolVal(False), lambda i, n, acc: z3.Or(acc, el(i, n).nan))
            info["rec"], info["anynan"] = F, AN
            out = lambda i: X(AN.at(i, C), xr.I0, F.at(i, C))          # np.max / np.min propagate NaN
        elif kind == "nancumsum":
            j = z3.FreshInt("j"); i = z3.FreshInt("i")
            s.obls.append((f"safety/{site}:elements are not infinite", list(s.hyps) + [0 <= i, i < R, 0 <= j, j < C], el(i, j).inf == 0))
            F = Rec("cumsum", REAL, lambda i: z3.RealVal(0), lambda i, n, acc: acc + z3.If(el(i, n).nan, 0, el(i, n).v))
            info["rec"] = F
            s.recs.append(info)
            return Arr((R, C), lambda i, j: X(xr.F, xr.I0, F.at(i, j + 1)))
        elif kind in ("nanmean", "nanmin", "nanmax"):
            j = z3.FreshInt("j"); i = z3.FreshInt("i")
            s.obls.append((f"safety/{site}:elements are not infinite", list(s.hyps) + [0 <= i, i < R, 0 <= j, j < C], el(i, j).inf == 0))
            CNT = Rec("count", INT, lambda i: z3.IntVal(0), lambda i, n, acc: acc + z3.If(el(i, n).nan, 0, 1))
            if kind == "nanmean":
                F = Rec("selsum", REAL, lambda i: z3.RealVal(0), lambda i, n, acc: acc + z3.If(el(i, n).nan, 0, el(i, n).v))
                out = lambda i: X(CNT.at(i, C) == 0, xr.I0, F.at(i, C) / z3.ToReal(CNT.at(i, C)))
            else:
                better = (lambda v, acc: v > acc) if kind == "nanmax" else (lambda v, acc: v < acc)
                F = Rec("sel" + kind[3:], REAL, lambda i: z3.RealVal(0),
                        lambda i, n, acc: z3.If(el(i, n).nan, acc, z3.If(z3.Or(CNT.at(i, n) == 0, better(el(i, n).v, acc)), el(i, n).v, acc)))
                out = lambda i: X(CNT.at(i, C) == 0, xr.I0, F.at(i, C))      # all-NaN row -> NaN (with a RuntimeWarning)
            info["rec"], info["count"] = F, CNT
        else:
            raise Unsupported(kind)
        s.recs.append(info)
        if keepdims:
            return Arr((R, 1), lambda i, j: out(i))
        return Arr((R,), out)


class Induction:
    """lemma by induction over the prefix length n of a row: base VC P(n0) and step VC  P(n) & n0 <= n < size & unfoldings(n) => P(n+1).
    `P(n)` is a quantifier-free z3 formula (it may mention skolem constants); `recs` are the Rec objects whose definitions it unfolds."""

    def __init__(s, name, P, recs, i, size, n0=0, hyps=(), extra=(), skolems=()):
        s.name, s.P, s.recs, s.i, s.size, s.n0, s.hyps, s.extra, s.skolems = name, P, list(recs), i, size, n0, list(hyps), list(extra), list(skolems)

    def vcs(s):
        n = z3.FreshInt("n")
        base_h = s.hyps + [r.base(s.i) for r in s.recs]
        # a reduction that starts at 1 (max/min) is unfolded from its own start only
        base_h += [r.unfold(s.i, z3.IntVal(k)) for r in s.recs for k in range(r.start, s.n0)]
        base_h += [e(z3.IntVal(k)) for e in s.extra for k in range(0, s.n0)]
        step_h = s.hyps + [n >= s.n0, n < s.size, s.P(n)] + [z3.Implies(n >= r.start, r.unfold(s.i, n)) for r in s.recs] + [e(n) for e in s.extra]
        return [(f"{s.name}/base", base_h + [s.size >= s.n0], s.P(z3.IntVal(s.n0))), (f"{s.name}/step", step_h, s.P(n + 1))]

    def conclusion(s, at=None):
        """the statement for the whole row; `at` = terms replacing the skolem constants (the lemma is proved for arbitrary values of them)"""
        c = z3.Implies(s.size >= s.n0, s.P(s.size))
        if at is not None:
            c = z3.substitute(c, *list(zip(s.skolems, at)))
        return c
