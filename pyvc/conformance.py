"""Model-conformance pass (DESIGN 4.3): the symbolic models of the NumPy primitives (pyvc/xreal.py, pyvc/numexec.py) and of the array
layer (pyvc/arrays.py: broadcasting, atleast_2d / .T / squeeze / [:, [-1]], reductions along axis 1) are evaluated on CONCRETE inputs and
compared with the installed NumPy running under /venv/bin/python.  A disagreement is a checker fault (exit 3), never a violation: it means the
assumed contract of a dependency (A-NP) is wrong, so nothing proved over it may be trusted.

Grid: special values (NaN, +-inf, 0) and dyadic rationals, so that real arithmetic and IEEE arithmetic agree exactly on every case.
"""
import itertools
import math
import z3
from . import xreal as xr
from .xreal import X

GRID = [math.nan, -math.inf, math.inf, -1.5, -1.0, -0.25, 0.0, 0.25, 0.5, 1.0, 2.0]

UNARY = {
    "np.negative(a)": lambda a: xr.neg(a), "np.abs(a)": lambda a: xr.xabs(a), "np.fabs(a)": lambda a: xr.xabs(a), "np.square(a)": lambda a: xr.mul(a, a),
    "np.positive(a)": lambda a: a, "np.nan_to_num(a, nan=0.0, neginf=0.0, posinf=1.0)": lambda a: xr.nan_to_num(a, xr.const(0.0), xr.const(0.0), xr.const(1.0)),
    "np.clip(a, 0.0, 1.0)": lambda a: xr.clip(a, xr.const(0.0), xr.const(1.0)),
}
UNARY_BOOL = {"np.isnan(a)": lambda a: xr.isnan(a), "np.isfinite(a)": lambda a: xr.isfinite(a), "np.isinf(a)": lambda a: xr.isinf(a)}
BINARY = {
    "a + b": xr.add, "a - b": xr.sub, "a * b": xr.mul, "a / b": xr.div, "np.minimum(a, b)": xr.np_minimum, "np.maximum(a, b)": xr.np_maximum,
    "np.where(a > b, a, b)": lambda a, b: xr.ite(xr.gt(a, b), a, b), "np.float64(min(a, b))": xr.py_min, "np.float64(max(a, b))": xr.py_max,
}
BINARY_BOOL = {"a < b": xr.lt, "a <= b": xr.le, "a > b": xr.gt, "a >= b": xr.ge, "a == b": xr.eq, "a != b": xr.ne,
               "np.isclose(a, b, rtol=0, atol=0, equal_nan=True)": lambda a, b: z3.Or(xr.eq(a, b), z3.And(a.nan, b.nan))}


def concrete(x):
    """value of a ground extended real: float"""
    nan, inf, v = z3.simplify(x.nan), z3.simplify(x.inf), z3.simplify(x.v)
    if z3.is_true(nan):
        return math.nan
    if not z3.is_false(nan):
        raise ValueError(f"nan flag not ground: {nan}")
    i = inf.as_long()
    if i != 0:
        return math.inf * i
    if z3.is_rational_value(v):
        return v.numerator_as_long() / v.denominator_as_long()
    if z3.is_algebraic_value(v):
        return float(v.approx(20).as_decimal(20).rstrip("?"))
    raise ValueError(f"value not ground: {v}")


def same(a, b):
    if a != a or b != b:
        return a != a and b != b
    return a == b or (math.isfinite(a) and math.isfinite(b) and abs(a - b) <= 1e-12 * max(1.0, abs(a), abs(b)))


def primitive_cases():
    cases = []
    for expr, f in list(UNARY.items()) + list(UNARY_BOOL.items()):
        for a in GRID:
            cases.append((expr, [a]))
    for expr, f in list(BINARY.items()) + list(BINARY_BOOL.items()):
        for a, b in itertools.product(GRID, GRID):
            cases.append((expr, [a, b]))
    return cases


def model_value(expr, args):
    xs = [xr.const(float(v)) for v in args]
    if expr in UNARY:
        return concrete(UNARY[expr](*xs))
    if expr in BINARY:
        return concrete(BINARY[expr](*xs))
    f = UNARY_BOOL.get(expr) or BINARY_BOOL[expr]
    b = z3.simplify(f(*xs))
    if z3.is_true(b):
        return 1.0
    if z3.is_false(b):
        return 0.0
    raise ValueError(f"boolean model not ground: {b}")


# ---------------------------------------------------------------------------------------------------- array layer, differential
ARRAY_PROGRAMS = {
    # name -> (python source of a function body using numpy, executed natively AND by ArrExec on the same concrete inputs)
    "centroid": "x = np.atleast_2d(xs)\ny = np.atleast_2d(ys)\nz = ((x * y).sum(axis=1) / y.sum(axis=1)).squeeze()\nreturn z",
    "maxima": "x = np.atleast_2d(xs)\ny = np.atleast_2d(ys)\ny_max = (y > 0) & (y == y.max(axis=1, keepdims=True))\nsel = np.where(y_max, x, np.nan)\nreturn np.nanmin(sel, axis=1).squeeze(), np.nanmean(sel, axis=1).squeeze(), np.nanmax(sel, axis=1).squeeze()",
    "bisector": "x = np.atleast_2d(xs)\ny = np.atleast_2d(ys)\narea = np.nancumsum(y, axis=1)\narea = np.abs(area / area[:, [-1]] - 0.5)\nindex = area == area.min(axis=1, keepdims=True)\nb = np.where(index, x, np.nan)\nreturn np.nanmean(b, axis=1).squeeze()",
    "activated": "y = (np.atleast_2d(d).T * xs2)\nreturn y.squeeze()",
}
ARRAY_INPUTS = [
    {"xs": [0.125, 0.375, 0.625, 0.875], "ys": [[0.0, 0.5, 0.5, 0.25], [0.0, 0.0, 0.0, 0.0], [1.0, 0.25, 1.0, 0.5]], "d": [0.5, 0.25, 1.0], "xs2": [[0.5, 1.0, 0.0, 0.25]]},
    {"xs": [0.5], "ys": [[0.75], [0.0]], "d": [0.5, 0.25], "xs2": [[0.5]]},
    {"xs": [-1.0, 1.0], "ys": [[0.25, 0.25]], "d": [0.5], "xs2": [[2.0, 4.0]]},
]


def run_array_model(name, inp):
    """execute the program with ArrExec on concrete arrays; returns (shape, flat values) per returned array"""
    import ast
    from .arrays import ArrExec, Arr, Sc

    def arr(v):
        if isinstance(v[0], list):
            return Arr((len(v), len(v[0])), lambda i, j, _v=v: _pick2(_v, i, j))
        return Arr((len(v),), lambda i, _v=v: _pick1(_v, i))

    def _pick1(v, i):
        t = xr.const(float(v[-1]))
        for k in range(len(v) - 2, -1, -1):
            t = xr.ite(i == k, xr.const(float(v[k])), t)
        return t

    def _pick2(v, i, j):
        t = _pick1(v[-1], j)
        for k in range(len(v) - 2, -1, -1):
            t = xr.ite(i == k, _pick1(v[k], j), t)
        return t
    fn = ast.parse("def f(xs, ys, d, xs2):\n" + "\n".join("    " + l for l in ARRAY_PROGRAMS[name].splitlines())).body[0]
    ex = ArrExec(None, "conformance")
    env = {k: arr(v) for k, v in inp.items()}
    out = ex.run(fn, env)
    outs = out if isinstance(out, tuple) else (out,)
    res = []
    for o in outs:
        if isinstance(o, Sc):
            res.append(((), [concrete(o.x)])); continue
        shp = tuple(int(d) if isinstance(d, int) else None for d in o.shape)
        idxs = list(itertools.product(*[range(d) for d in shp]))
        vals = []
        for idx in idxs:
            e = o.elem(*[z3.IntVal(i) for i in idx])
            vals.append(concrete(_unfold(ex, e)))
        res.append((shp, vals))
    return res


def _unfold(ex, x):
    """replace applications of the reduction symbols at concrete (i, n) by their values, computed by iterating the recursive definitions"""
    cache = {}

    def value(rec, i, n):
        key = (rec.tag, i, n)
        if key in cache:
            return cache[key]
        if n == rec.start:
            v = rec.init(z3.IntVal(i)) if rec.init is not None else None
        else:
            acc = value(rec, i, n - 1)
            v = rec.step(z3.IntVal(i), z3.IntVal(n - 1), acc)
        v = z3.simplify(subst(v))
        cache[key] = v
        return v
    recs = {}
    for q in ex.recs:
        for k in ("rec", "count", "anynan"):
            if k in q:
                recs[q[k].f.name()] = q[k]

    def subst(t):
        t = z3.simplify(t)
        changed = True
        while changed:
            changed = False
            for app in _apps(t, recs):
                r = recs[app.decl().name()]
                i, n = z3.simplify(app.arg(0)), z3.simplify(app.arg(1))
                if z3.is_int_value(i) and z3.is_int_value(n):
                    t = z3.simplify(z3.substitute(t, (app, value(r, i.as_long(), n.as_long()))))
                    changed = True
                    break
        return t
    return X(subst(x.nan), subst(x.inf), subst(x.v))


def _apps(t, recs):
    out, seen, stack = [], set(), [t]
    while stack:
        u = stack.pop()
        if u.get_id() in seen:
            continue
        seen.add(u.get_id())
        if z3.is_app(u):
            if u.decl().name() in recs and u.num_args() == 2:
                out.append(u)
            stack.extend(u.children())
    # innermost first: an application whose arguments contain no other application
    out.sort(key=lambda a: len(str(a)))
    return out


NATIVE = r'''
import json, sys, math
import numpy as np
np.seterr(all="ignore")
import warnings; warnings.simplefilter("ignore")
job = json.load(sys.stdin)
def dec(v): return float(v) if not isinstance(v, list) else [dec(x) for x in v]
out = {"prims": [], "arrays": []}
for expr, args in job["prims"]:
    a = np.float64(dec(args[0])); b = np.float64(dec(args[1])) if len(args) > 1 else None
    try:
        r = eval(expr)
        out["prims"].append(float(np.asarray(r, dtype=float)))
    except Exception as ex:
        out["prims"].append("ERR " + type(ex).__name__)
for name, src, inp in job["arrays"]:
    ns = {"np": np}
    exec("def f(xs, ys, d, xs2):\n" + "\n".join("    " + l for l in src.splitlines()), ns)
    r = ns["f"](*[np.array(dec(inp[k]), dtype=float) for k in ("xs", "ys", "d", "xs2")])
    rs = r if isinstance(r, tuple) else (r,)
    out["arrays"].append([[list(np.shape(x)), [float(v) for v in np.asarray(x, dtype=float).ravel()]] for x in rs])
def enc(o):
    if isinstance(o, float):
        return "nan" if o != o else ("inf" if o == math.inf else ("-inf" if o == -math.inf else o))
    if isinstance(o, list): return [enc(x) for x in o]
    return o
json.dump(enc(out), sys.stdout)
'''


def check(native_py="/venv/bin/python", arrays=True):
    """returns (ok, n_cases, detail)"""
    import json, subprocess
    prims = primitive_cases()
    enc = lambda v: "nan" if v != v else ("inf" if v == math.inf else ("-inf" if v == -math.inf else v))
    job = {"prims": [(e, [enc(a) for a in args]) for e, args in prims],
           "arrays": [(n, ARRAY_PROGRAMS[n], {k: (enc(v) if not isinstance(v, list) else v) for k, v in inp.items()}) for n in ARRAY_PROGRAMS for inp in ARRAY_INPUTS] if arrays else []}
    cp = subprocess.run([native_py, "-c", NATIVE], input=json.dumps(job), capture_output=True, text=True, timeout=300)
    if cp.returncode != 0:
        return False, 0, "native side failed: " + cp.stderr[-500:]
    res = json.loads(cp.stdout)
    dec = lambda v: float(v) if isinstance(v, str) and not v.startswith("ERR") else v
    bad, n = [], 0
    for (expr, args), got in zip(prims, res["prims"]):
        n += 1
        got = dec(got)
        try:
            want = model_value(expr, args)
        except Exception as ex:  # noqa
            bad.append(f"{expr} at {args}: model not ground ({ex})"); continue
        if isinstance(got, str) or not same(want, got):
            bad.append(f"{expr} at {args}: model {want}, NumPy {got}")
    k = 0
    if arrays:
        for name in ARRAY_PROGRAMS:
            for inp in ARRAY_INPUTS:
                got = res["arrays"][k]; k += 1
                try:
                    want = run_array_model(name, inp)
                except Exception as ex:  # noqa
                    bad.append(f"array program {name} on {list(map(len, inp.values()))}: executor failed ({type(ex).__name__}: {ex})"); continue
                for (wshape, wvals), (gshape, gvals) in zip(want, got):
                    n += 1
                    gvals = [dec(v) for v in gvals]
                    if list(wshape) != list(gshape) or len(wvals) != len(gvals) or not all(same(a, b) for a, b in zip(wvals, gvals)):
                        bad.append(f"array program {name}: model shape {wshape} values {wvals}; NumPy shape {gshape} values {gvals}")
    return not bad, n, "; ".join(bad[:5]) if bad else f"{n} cases agree with the installed NumPy"
