"""./check <Cxx> --replay <file>: re-run the native replay recorded in a replay file against the current tree."""
import json, os, sys
sys.path.insert(0, os.path.dirname(os.path.dirname(os.path.abspath(__file__))))
from pyvc.runner import Run


def main():
    doc = json.load(open(sys.argv[1]))
    print(f"obligation: {doc['obligation']}  status at report time: {doc['status']}")
    rec = doc.get("replay") or {}
    spec = doc.get("replay_spec")
    if not spec or "kwargs" not in rec:
        print("no native replay recorded (violation reported as no-failing-input-found); solver output:", doc.get("solver_output"))
        return 1
    run = Run(doc["property"], argv=[])
    kw = rec["kwargs"]
    res = run.native(spec["module"], spec["func"], [kw])
    print(json.dumps(res[0], indent=1, default=str))
    return 1 if res[0].get("failed") else 0


if __name__ == "__main__":
    sys.exit(main())
