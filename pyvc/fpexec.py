"""IEEE-754 spot obligations (DESIGN 4.6): the straight-line body of a membership function is evaluated from the real AST in z3's
floating-point theory (Float64, round-nearest-even) instead of exact reals.  Used only where a property speaks about a breakpoint that the
code COMPUTES (Arc: c = s + (e - s); SemiEllipse: r = (e - s) / 2, c = s + r): "at the documented breakpoint the branch condition evaluates
as documented" and "the argument of sqrt is not negative where the branch is taken".  The evaluator records every np.where condition and every
np.sqrt argument it meets (with the condition under which it is reached), so the obligations are read off the code, not written by hand.
"""
import ast
import struct
import z3
from .numexec import Unsupported

F64 = z3.Float64()
RNE = z3.RNE()


def fp(v):
    return z3.FPVal(float(v), F64)


def finite(v):
    return z3.And(z3.Not(z3.fpIsNaN(v)), z3.Not(z3.fpIsInf(v)))


def tofloat(model, v):
    bv = model.eval(z3.fpToIEEEBV(v), model_completion=True).as_long()
    return struct.unpack(">d", bv.to_bytes(8, "big"))[0]


class FpExec:
    def __init__(s, fields, x):
        s.fields, s.x = dict(fields), x
        s.env = {}
        s.wheres = []      # (lineno, guard, condition)  conditions of np.where calls, with the guard under which the call's value is used
        s.sqrts = []       # (lineno, guard, argument)
        s.guard = [z3.BoolVal(True)]
        s.commute = False
        s.side = []        # constraints defining nondeterministic library results (libm pow)

    def run(s, fn, env=None):
        # an exception of the ANALYSIS while it executes the code under check (a construct the executor does not model, met in a form it did not expect) is
        # `outside the verified subset` (undecided, with the native fallback), not a fault of the checker
        try:
            return s._run_impl(fn, env)
        except (AttributeError, TypeError, KeyError, IndexError, ValueError, AssertionError, z3.Z3Exception) as ex_:
            raise Unsupported(f"analysis error {type(ex_).__name__}: {str(ex_)[:200]}")

    def _run_impl(s, fn, env=None):
        s.env = dict(env) if env is not None else {"x": s.x}
        for st in fn.body:
            if isinstance(st, ast.Expr) and isinstance(st.value, ast.Constant):
                continue
            if isinstance(st, ast.Assign) and len(st.targets) == 1 and isinstance(st.targets[0], ast.Name):
                s.env[st.targets[0].id] = s.ev(st.value)
                continue
            if isinstance(st, ast.Return):
                return s.ev(st.value)
            raise Unsupported(f"statement {type(st).__name__} at line {st.lineno}")
        return None

    def num(s, v):
        if isinstance(v, z3.FPRef):
            return v
        if isinstance(v, bool):
            return fp(1.0 if v else 0.0)
        if isinstance(v, (int, float)):
            return fp(v)
        if isinstance(v, z3.BoolRef):
            return z3.If(v, fp(1.0), fp(0.0))
        raise Unsupported(f"not a number: {type(v).__name__}")

    def boo(s, v):
        if isinstance(v, z3.BoolRef):
            return v
        if isinstance(v, bool):
            return z3.BoolVal(v)
        raise Unsupported("not a boolean")

    def ev(s, e):
        if isinstance(e, ast.Constant):
            return e.value
        if isinstance(e, ast.Name):
            if e.id in s.env:
                return s.env[e.id]
            raise Unsupported(f"name {e.id}")
        if isinstance(e, ast.Attribute):
            t = ast.unparse(e)
            if t == "np.nan":
                return z3.fpNaN(F64)
            if isinstance(e.value, ast.Name) and e.value.id == "self" and e.attr in s.fields:
                return s.fields[e.attr]
            raise Unsupported(f"attribute {t}")
        if isinstance(e, ast.UnaryOp) and isinstance(e.op, ast.USub):
            return z3.fpNeg(s.num(s.ev(e.operand)))
        if isinstance(e, ast.BinOp):
            if isinstance(e.op, (ast.BitAnd, ast.BitOr)):
                a, b = s.boo(s.ev(e.left)), s.boo(s.ev(e.right))
                return z3.And(a, b) if isinstance(e.op, ast.BitAnd) else z3.Or(a, b)
            if isinstance(e.op, ast.Pow):
                b = s.ev(e.right)
                if b == 2:
                    # Python's float ** 2 (and NumPy's scalar power) go through libm pow(), which is faithful but NOT always the correctly rounded
                    # product: the result is the product or one of its two neighbours (np.square(a) IS the correctly rounded product)
                    a = s.num(s.ev(e.left))
                    m = z3.fpMul(RNE, a, a)
                    y = z3.FreshConst(F64, "pow2")
                    mb, yb = z3.fpToIEEEBV(m), z3.fpToIEEEBV(y)
                    s.side.append(z3.If(z3.Or(z3.fpIsNaN(m), z3.fpIsInf(m), z3.fpIsZero(m)), z3.fpToIEEEBV(y) == mb, z3.Or(yb == mb, yb == mb + 1, yb == mb - 1)))
                    return y
                raise Unsupported("power other than 2")
            a, b = s.num(s.ev(e.left)), s.num(s.ev(e.right))
            f = {ast.Add: z3.fpAdd, ast.Sub: z3.fpSub, ast.Mult: z3.fpMul, ast.Div: z3.fpDiv}.get(type(e.op))
            if f is None:
                raise Unsupported(f"operator {type(e.op).__name__}")
            if isinstance(e.op, (ast.Add, ast.Mult)) and s.commute and str(a) > str(b):
                a, b = b, a          # IEEE addition and multiplication are commutative bit for bit: operands in a canonical order, so that f(a, b) and f(b, a) of a
                                     # syntactically symmetric body are the SAME term (no bit-blasting of a multiplier needed to see it)
            return f(RNE, a, b)
        if isinstance(e, ast.Compare) and len(e.ops) == 1:
            a, b = s.num(s.ev(e.left)), s.num(s.ev(e.comparators[0]))
            if isinstance(e.ops[0], ast.NotEq):
                return z3.Not(z3.fpEQ(a, b))
            f = {ast.Lt: z3.fpLT, ast.LtE: z3.fpLEQ, ast.Gt: z3.fpGT, ast.GtE: z3.fpGEQ, ast.Eq: z3.fpEQ}.get(type(e.ops[0]))
            if f is None:
                raise Unsupported("comparison")
            return f(a, b)
        if isinstance(e, ast.Call):
            t = ast.unparse(e.func)
            if t == "scalar" and len(e.args) == 1:
                return s.ev(e.args[0])
            if t in ("abs", "np.abs", "np.fabs", "np.absolute"):
                return z3.fpAbs(s.num(s.ev(e.args[0])))
            if t in ("min", "max") and len(e.args) == 2:        # Python builtins on the parameters: b if b < a else a / b if b > a else a
                a, b = s.num(s.ev(e.args[0])), s.num(s.ev(e.args[1]))
                return z3.If(z3.fpLT(b, a), b, a) if t == "min" else z3.If(z3.fpGT(b, a), b, a)
            if t in ("np.maximum", "np.minimum") and len(e.args) == 2:      # NaN-propagating element-wise max / min
                a, b = s.num(s.ev(e.args[0])), s.num(s.ev(e.args[1]))
                if s.commute and str(a) > str(b):
                    a, b = b, a          # symmetric up to the sign of a zero result (max(+0, -0)), which no comparison or arithmetic result here distinguishes
                r = z3.If(z3.fpGT(a, b), a, b) if t == "np.maximum" else z3.If(z3.fpLT(a, b), a, b)
                return z3.If(z3.Or(z3.fpIsNaN(a), z3.fpIsNaN(b)), z3.fpNaN(F64), r)
            if t == "np.square":
                a = s.num(s.ev(e.args[0]))
                return z3.fpMul(RNE, a, a)
            if t == "np.isnan":
                return z3.fpIsNaN(s.num(s.ev(e.args[0])))
            if t == "np.sqrt":
                a = s.num(s.ev(e.args[0]))
                s.sqrts.append((e.lineno, z3.And(*s.guard), a))
                return z3.fpSqrt(RNE, a)
            if t == "np.where" and len(e.args) == 3:
                c = s.boo(s.ev(e.args[0]))
                n0 = len(s.sqrts)
                s.guard.append(c)
                a = s.num(s.ev(e.args[1]))
                s.wheres.append((e.lineno, z3.And(*s.guard[:-1]), c, len(s.sqrts) > n0))      # last flag: the true branch takes a square root
                s.guard[-1] = z3.Not(c)
                b = s.num(s.ev(e.args[2]))
                s.guard.pop()
                return z3.If(c, a, b)
        raise Unsupported(f"expression {type(e).__name__}: {ast.unparse(e)[:60]}")
