"""Shared helpers for heap-layer verification drivers."""
import z3
from .heap import Ref, sort_of, str_distinct
from .solve import Obl


def init_heap(sc, tag="@pre"):
    return {k: z3.Const(k + tag, z3.ArraySort(Ref, sort_of(kind))) for k, kind in sc.fields.items()}


def emit(run, ex, fq, hyps=(), rp=None, extra_meta=None, label=None, retries=0):
    """turn the executor's side obligations (safety, loop invariants, call preconditions) into run obligations"""
    seen = {}
    for nm, pc, goal, meta in ex.obls:
        seen[nm] = seen.get(nm, 0) + 1
        if seen[nm] > 1:
            nm = f"{nm}#{seen[nm]}"          # same site reached on another path
        facts = meta.get("facts", [])
        m = dict(extra_meta or {})
        if rp:
            m["replay"] = rp
        o = Obl(f"{label or fq}/{nm}", list(hyps) + pc + facts + str_distinct(), goal, fn=fq, meta=m)
        if retries:
            o.retries = retries
        run.add(o)


def frame_goal(q, H0, except_=()):
    return z3.And(*[q.heap[k] == H0[k] for k in q.heap if k not in except_])


def split_invariants(ex):
    """one obligation per conjunct of a loop invariant (flattening nested conjunctions): much easier for the solver than the conjunction, and a
    failing clause is named individually"""
    import z3 as _z3

    def flat(g):
        if _z3.is_and(g):
            out = []
            for c in g.children():
                out += flat(c)
            return out
        return [g]
    out = []
    for nm, pc, goal, meta in ex.obls:
        parts = flat(goal) if "/inv." in nm else [goal]
        if len(parts) > 1:
            out += [(f"{nm}&{j}", pc, g, meta) for j, g in enumerate(parts)]
        else:
            out.append((nm, pc, goal, meta))
    ex.obls = out
