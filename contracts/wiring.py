"""Sidecar for the wiring layer (rule.py, term.py Activated/Aggregated, variable.py, activation.py, engine.py):
heap schema, interface contracts of the abstract methods, ghost specification functions (DESIGN 5, Appendix A.4).
Symbolic side only (imports z3); native replays are in contracts/wiring_native.py."""
import z3
from pyvc import xreal as xr
from pyvc.heap import (canon, Ref, Str, NONE, XR, Act, cls_of, SeqRef, SeqAct, x2xr, xr2x, RefV, SeqV, ActV, StrV, Schema, Contract,
                       LoopSpec, strc)
from pyvc.numexec import Num, Bool, Unsupported

# ---------------------------------------------------------------------------------------------------- heap schema
FIELDS = {
    # rule.py
    "Proposition.variable": "ref:Variable", "Proposition.hedges": "seq:ref:Hedge", "Proposition.term": "ref:Term",
    "Operator.name": "str", "Operator.left": "ref:Expression", "Operator.right": "ref:Expression",
    "Antecedent.text": "str", "Antecedent.expression": "ref:Expression",
    "Consequent.text": "str", "Consequent.conclusions": "seq:ref:Proposition",
    "Rule.enabled": "bool", "Rule.weight": "num", "Rule.activation_degree": "num", "Rule.triggered": "bool",
    "Rule.antecedent": "ref:Antecedent", "Rule.consequent": "ref:Consequent",
    "RuleBlock.name": "str", "RuleBlock.enabled": "bool", "RuleBlock.conjunction": "ref:TNorm", "RuleBlock.disjunction": "ref:SNorm",
    "RuleBlock.implication": "ref:TNorm", "RuleBlock.activation": "ref:Activation", "RuleBlock.rules": "seq:ref:Rule",
    # variable.py
    "Variable.name": "str", "Variable.enabled": "bool", "Variable.minimum": "num", "Variable.maximum": "num", "Variable.lock_range": "bool",
    "Variable.terms": "seq:ref:Term", "Variable._value": "num",
    "OutputVariable.fuzzy": "ref:Aggregated", "OutputVariable.defuzzifier": "ref:Defuzzifier", "OutputVariable.lock_previous": "bool",
    "OutputVariable.default_value": "num", "OutputVariable.previous_value": "num",
    # term.py
    "Term.name": "str", "Term.height": "num",
    "Activated.term": "ref:Term", "Activated._degree": "num", "Activated.implication": "ref:TNorm",
    "Aggregated.minimum": "num", "Aggregated.maximum": "num", "Aggregated.aggregation": "ref:SNorm", "Aggregated.terms": "seq:act",
    # engine.py
    "Engine.name": "str", "Engine.input_variables": "seq:ref:InputVariable", "Engine.output_variables": "seq:ref:OutputVariable",
    "Engine.rule_blocks": "seq:ref:RuleBlock",
    # activation.py
    "First.rules": "int", "First.threshold": "num", "Last.rules": "int", "Last.threshold": "num", "Highest.rules": "int", "Lowest.rules": "int",
    "Threshold.comparator": "int", "Threshold.threshold": "num",
}
# class tags relevant to control flow.  An abstract name (Term, Hedge, TNorm, ...) stands for "some concrete subclass
# whose behaviour is given by the interface contract"; subclasses named here are the ones the code tests with isinstance.
CLASSES = ["Activated", "Proposition", "Operator", "Antecedent", "Consequent", "Rule", "RuleBlock", "InputVariable", "OutputVariable", "Aggregated",
           "Engine", "Term", "Constant", "Linear", "Function", "Hedge", "Any", "TNorm", "SNorm", "IntegralDefuzzifier", "WeightedDefuzzifier",
           "General", "First", "Last", "Highest", "Lowest", "Proportional", "Threshold"]


def schema(src):
    return Schema(src, FIELDS, CLASSES)


# ---------------------------------------------------------------------------------------------------- interface contracts
hedge_fn = z3.Function("hedge_fn", Ref, XR, XR)              # Hedge.hedge: pure function of the hedge object and x
compute_fn = z3.Function("compute_fn", Ref, XR, XR, XR)      # Norm.compute
membership_fn = z3.Function("membership_fn", Ref, XR, XR)    # Term.membership
defuzz_fn = z3.Function("defuzz_fn", Ref, Ref, XR, XR, z3.SeqSort(Act), XR)   # Defuzzifier.defuzzify(fuzzy, min, max) reads fuzzy.terms


def _hedge(ex, p, recv, args, kwargs, node):
    x = ex.num(args[0], node)
    t = hedge_fn(recv.r, x2xr(x.x))
    p.pc.append(canon(t))
    return Num(xr2x(t), x.data, False)


def _compute(ex, p, recv, args, kwargs, node):
    a, b = ex.num(args[0], node), ex.num(args[1], node)
    t = compute_fn(recv.r, x2xr(a.x), x2xr(b.x))
    p.pc.append(canon(t))
    return Num(xr2x(t), a.data or b.data, False)


def _membership(ex, p, recv, args, kwargs, node):
    x = ex.num(args[0], node)
    t = membership_fn(recv.r, x2xr(x.x))
    p.pc.append(canon(t))
    return Num(xr2x(t), x.data, False)


INTERFACES = {("Hedge", "hedge"): _hedge, ("Norm", "compute"): _compute, ("Term", "membership"): _membership}


def clean(x):
    """Activated.degree setter: np.nan_to_num(value, nan=0.0, neginf=0.0, posinf=1.0)"""
    return xr.nan_to_num(x, xr.const(0.0), xr.const(0.0), xr.const(1.0))


class ActivatedCtor(Contract):
    """Activated(term, degree=1.0, implication=None) as an immutable value (A-ACTVAL); the real __init__/degree setter are
    verified against exactly this in C07 (`term.Activated.__init__/ensures`)."""

    def call(s, ex, p, recv, args, kwargs, node):
        names = ["term", "degree", "implication"]
        a = dict(zip(names, args)); a.update(kwargs)
        term = a["term"]
        d = ex.num(a.get("degree", 1.0), node)
        impl = a.get("implication", None)
        ir = NONE if impl is None else impl.r
        return ActV(Act.mk_act(term.r, x2xr(clean(d.x)), ir))


# ---------------------------------------------------------------------------------------------------- ghost spec functions
hedged = z3.Function("hedged", SeqRef, z3.IntSort(), XR, XR)       # hedged(hs, j, d): the last j hedges of hs applied to d, nearest the term first


def hedged_unfold(hs, j, d):
    n = z3.Length(hs)
    return [hedged(hs, 0, d) == d,
            z3.Implies(z3.And(j >= 0, j < n), hedged(hs, j + 1, d) == hedge_fn(hs[n - 1 - j], hedged(hs, j, d)))]


# contributions(consequent, d, implication, v, k): activations appended to v's fuzzy output by conclusions[0:k] of the consequent,
# every one computed from the SAME degree d (Appendix A.4).  Unfolded by ground instances only.
contrib = z3.Function("contrib", Ref, XR, Ref, Ref, z3.IntSort(), SeqAct)
owner = z3.Function("owner", Ref, Ref)        # ghost: the output variable owning a fuzzy-output object


def contrib_unfold(H, cons, d, impl, v, k):
    """ground unfolding of `contrib` at conclusion k over heap H"""
    concl = H["Consequent.conclusions"][cons]
    c = concl[k]; var = H["Proposition.variable"][c]; hs = H["Proposition.hedges"][c]
    a = Act.mk_act(H["Proposition.term"][c], x2xr(clean(xr2x(hedged(hs, z3.Length(hs), d)))), impl)
    return [contrib(cons, d, impl, v, 0) == z3.Empty(SeqAct),
            contrib(cons, d, impl, v, k + 1) == z3.If(z3.And(var == v, H["Variable.enabled"][var]),
                                                       z3.Concat(contrib(cons, d, impl, v, k), z3.Unit(a)), contrib(cons, d, impl, v, k))]


def wf_output_variable(sc, H, v):
    """an output variable owns its fuzzy output (distinct variables have distinct fuzzy objects)"""
    f = H["OutputVariable.fuzzy"][v]
    return [f != NONE, owner(f) == v]


def not_a_fuzzy_output(H, o):
    """o is not the fuzzy output of any output variable (ground form through the ghost `owner`)"""
    return H["OutputVariable.fuzzy"][owner(o)] != o


class ModifyContract(Contract):
    """contract of rule.Consequent.modify used at call sites (proved against the real body in C07):
    requires a loaded consequent; every output variable's fuzzy output grows by contributions(...); nothing else changes."""
    modifies = ("Aggregated.terms",)

    def call(s, ex, p, recv, args, kwargs, node):
        d = ex.num(args[0], node); impl = args[1]
        ir = NONE if impl is None else impl.r
        concl = p.heap["Consequent.conclusions"][recv.r]
        ex.oblige(f"call.pre/line{node.lineno - ex.fn_line}:Consequent.modify requires a loaded consequent", p, z3.Length(concl) > 0)
        T = p.heap["Aggregated.terms"]
        T2 = z3.FreshConst(T.sort(), "Aggregated.terms@modify")
        dx = x2xr(d.x)
        for v in ex.witness.get("vars", []):
            fz = p.heap["OutputVariable.fuzzy"][v]
            p.pc.append(T2[fz] == z3.Concat(T[fz], contrib(recv.r, dx, ir, v, z3.Length(concl))))
        for o in ex.witness.get("objs", []):
            p.pc.append(T2[o] == T[o])
        p.heap["Aggregated.terms"] = T2
        ex.writes.add("Aggregated.terms")
        ex.modify_calls.append((recv.r, dx, ir, dict(p.heap)))
        return None


# ---------------------------------------------------------------------------------------------------- rule-level contracts
TArr = z3.ArraySort(Ref, SeqAct)
VArr = z3.ArraySort(Ref, XR)
# value of an antecedent given the connective operators, the fuzzy outputs accumulated so far and the variables' current values
sem_fn = z3.Function("sem_fn", Ref, Ref, Ref, TArr, VArr, XR)


def loaded(H, rule):
    """Rule.is_loaded(): the antecedent has an expression and the consequent has conclusions"""
    return z3.And(H["Antecedent.expression"][H["Rule.antecedent"][rule]] != NONE,
                  z3.Length(H["Consequent.conclusions"][H["Rule.consequent"][rule]]) > 0)


def fire(H, rule, conj, disj, T=None):
    """weight x antecedent value (Appendix A.4 `fire`), as a canonical XR"""
    s_ = sem_fn(H["Rule.antecedent"][rule], conj, disj, T if T is not None else H["Aggregated.terms"], H["Variable._value"])
    return x2xr(xr.mul(xr2x(H["Rule.weight"][rule]), xr2x(s_)))


def _ref(v):
    return NONE if v is None else v.r


class ActivateWithContract(Contract):
    """rule.Rule.activate_with(conjunction, disjunction): requires a loaded rule; stores and returns weight x antecedent value;
    writes only this rule's activation_degree (proved against the real body in C06)."""
    modifies = ("Rule.activation_degree",)

    def call(s, ex, p, recv, args, kwargs, node):
        ex.oblige(f"call.pre/line{node.lineno - ex.fn_line}:Rule.activate_with requires a loaded rule", p, loaded(p.heap, recv.r))
        conj, disj = _ref(args[0]), _ref(args[1])
        for t in (p.heap["Rule.weight"][recv.r],):
            p.pc.append(canon(t))
        st = sem_fn(p.heap["Rule.antecedent"][recv.r], conj, disj, p.heap["Aggregated.terms"], p.heap["Variable._value"])
        p.pc.append(canon(st))
        d = fire(p.heap, recv.r, conj, disj)
        p.heap["Rule.activation_degree"] = z3.Store(p.heap["Rule.activation_degree"], recv.r, d)
        ex.writes.add("Rule.activation_degree")
        return Num(xr2x(d), True, False)


class TriggerContract(Contract):
    """rule.Rule.trigger(implication): requires a loaded rule; an enabled rule appends contributions(consequent, its activation
    degree, implication) to every output variable and is marked triggered iff the degree is positive; a disabled rule adds
    nothing (proved against the real body in C07)."""
    modifies = ("Rule.triggered", "Aggregated.terms")

    def call(s, ex, p, recv, args, kwargs, node):
        H = p.heap
        ex.oblige(f"call.pre/line{node.lineno - ex.fn_line}:Rule.trigger requires a loaded rule", p, loaded(H, recv.r))
        impl = _ref(args[0])
        r = recv.r
        d = H["Rule.activation_degree"][r]
        p.pc.append(canon(d))
        en = H["Rule.enabled"][r]
        cons = H["Rule.consequent"][r]
        n = z3.Length(H["Consequent.conclusions"][cons])
        T = H["Aggregated.terms"]
        T2 = z3.FreshConst(T.sort(), "Aggregated.terms@trigger")
        for v in ex.witness.get("vars", []):
            fz = H["OutputVariable.fuzzy"][v]
            p.pc.append(T2[fz] == z3.If(en, z3.Concat(T[fz], contrib(cons, d, impl, v, n)), T[fz]))
        for o in ex.witness.get("objs", []):
            p.pc.append(T2[o] == T[o])
        p.pc.append(z3.Implies(z3.Not(en), T2 == T))
        p.heap["Aggregated.terms"] = T2
        p.heap["Rule.triggered"] = z3.Store(H["Rule.triggered"], r, z3.And(en, xr.gt(xr2x(d), xr.const(0.0))))
        ex.writes |= {"Aggregated.terms", "Rule.triggered"}
        ex.trigger_calls.append((r, d, impl))
        return None


# ---------------------------------------------------------------------------------------------------- antecedent semantics (Appendix A.4 `sem`)
sem_node = z3.Function("sem_node", Ref, Ref, Ref, TArr, VArr, XR)     # value of an expression node
wf_expr = z3.Function("wf_expr", Ref, Ref, Ref, z3.BoolSort())        # well-formed (loaded) expression tree for the given connectives
height = z3.Function("height", Ref, z3.IntSort())                     # ghost: height of an expression tree (decreases measure)
agg_activation = z3.Function("agg_activation", SeqAct, Ref, Ref, XR)  # Aggregated.activation_degree(term): degree of term.name in the grouped terms


def any_hedge_axiom(sc, h, x):
    """interface fact from C05 (`Any.hedge` is the constant 1 for every x, NaN included)"""
    return z3.Implies(cls_of(h) == sc.ids["Any"], hedge_fn(h, x) == x2xr(xr.const(1.0)))


def sem_unfold(sc, H, node, conj, disj, T, V):
    """one-level unfolding of `sem_node` and `wf_expr` at `node` (ground instance; children stay folded)"""
    PROP, OPER = sc.ids["Proposition"], sc.ids["Operator"]
    var, hs, term = H["Proposition.variable"][node], H["Proposition.hedges"][node], H["Proposition.term"][node]
    n = z3.Length(hs)
    last = hs[n - 1]
    is_any = z3.And(n > 0, cls_of(last) == sc.ids["Any"])
    NANX = x2xr(xr.const(float("nan")))
    base = z3.If(cls_of(var) == sc.ids["InputVariable"], membership_fn(term, H["Variable._value"][var]) if V is None else membership_fn(term, V[var]),
                 agg_activation(T[H["OutputVariable.fuzzy"][var]], H["Aggregated.aggregation"][H["OutputVariable.fuzzy"][var]], term))
    prop_val = z3.If(z3.Not(H["Variable.enabled"][var]), x2xr(xr.const(0.0)),
                     z3.If(is_any, hedged(hs, n, NANX), hedged(hs, n, base)))
    l, r, nm = H["Operator.left"][node], H["Operator.right"][node], H["Operator.name"][node]
    AND, OR = strc("and"), strc("or")
    op_val = z3.If(nm == AND, compute_fn(conj, sem_node(l, conj, disj, T, V), sem_node(r, conj, disj, T, V)),
                   compute_fn(disj, sem_node(l, conj, disj, T, V), sem_node(r, conj, disj, T, V)))
    facts = [z3.Implies(cls_of(node) == PROP, sem_node(node, conj, disj, T, V) == prop_val),
             z3.Implies(cls_of(node) == OPER, sem_node(node, conj, disj, T, V) == op_val)]
    wf_prop = z3.And(var != NONE, z3.Length(H["Variable.terms"][var]) > 0,
                     z3.Or(cls_of(var) == sc.ids["InputVariable"], cls_of(var) == sc.ids["OutputVariable"]),
                     z3.Implies(cls_of(var) == sc.ids["OutputVariable"], H["OutputVariable.fuzzy"][var] != NONE),
                     z3.Implies(n > 0, last != NONE), z3.Or(is_any, term != NONE))
    wf_op = z3.And(l != NONE, r != NONE, wf_expr(l, conj, disj), wf_expr(r, conj, disj), z3.Or(nm == AND, nm == OR),
                   z3.Implies(nm == AND, conj != NONE), z3.Implies(nm == OR, disj != NONE),
                   height(l) >= 0, height(r) >= 0, height(node) > height(l), height(node) > height(r))
    facts += [z3.Implies(wf_expr(node, conj, disj), z3.And(node != NONE, z3.Or(cls_of(node) == PROP, cls_of(node) == OPER), height(node) >= 0,
                                                            z3.Implies(cls_of(node) == PROP, wf_prop), z3.Implies(cls_of(node) == OPER, wf_op)))]
    return facts


def _agg_activation(ex, p, recv, args, kwargs, node):
    t = agg_activation(p.heap["Aggregated.terms"][recv.r], p.heap["Aggregated.aggregation"][recv.r], args[0].r)
    p.pc.append(canon(t))
    return Num(xr2x(t), True, False)


INTERFACES[("Aggregated", "activation_degree")] = _agg_activation


# ---------------------------------------------------------------------------------------------------- engine-level contracts (C01, C13)
DArr = z3.ArraySort(Ref, XR)
GArr = z3.ArraySort(Ref, z3.BoolSort())
# interface contract of Activation.activate(rule_block): its effect on the fuzzy outputs, rule degrees and triggered flags is a function of the
# activation object, the block, and the state it reads (fuzzy outputs so far, variable values); the concrete methods are proved in C08
act_T = z3.Function("act_T", Ref, Ref, TArr, VArr, TArr)
act_D = z3.Function("act_D", Ref, Ref, TArr, VArr, DArr, DArr)
act_G = z3.Function("act_G", Ref, Ref, TArr, VArr, GArr, GArr)
# interface contract of Defuzzifier.defuzzify(fuzzy, minimum, maximum): a pure function of the defuzzifier, the range, the aggregation operator and
# the activated terms of the fuzzy output (proved per defuzzifier in C09/C10)
defuzz_val = z3.Function("defuzz_val", Ref, XR, XR, Ref, SeqAct, XR)


def _activate_iface(ex, p, recv, args, kwargs, node):
    H = p.heap
    b = args[0].r
    T, V = H["Aggregated.terms"], H["Variable._value"]
    H2 = dict(H)
    H2["Aggregated.terms"] = act_T(recv.r, b, T, V)
    H2["Rule.activation_degree"] = act_D(recv.r, b, T, V, H["Rule.activation_degree"])
    H2["Rule.triggered"] = act_G(recv.r, b, T, V, H["Rule.triggered"])
    p.heap = H2
    ex.writes |= {"Aggregated.terms", "Rule.activation_degree", "Rule.triggered"}
    ex.raised.append((p.fork(), "ActivationFailure"))      # e.g. a vector-incapable method given a batch
    return None


INTERFACES[("Activation", "activate")] = _activate_iface
ACTIVATE_MODIFIES = ("Aggregated.terms", "Rule.activation_degree", "Rule.triggered")


def commit_value(H, v, x):
    """Appendix A.4 commit: default substitution then range clipping (proved for the real code in C12)"""
    fz = H["OutputVariable.fuzzy"][v]
    d = xr2x(H["OutputVariable.default_value"][v])
    y = xr.ite(z3.And(x.nan, z3.Not(d.nan)), d, x)
    return xr.ite(H["Variable.lock_range"][v], xr.clip(y, xr2x(H["Aggregated.minimum"][fz]), xr2x(H["Aggregated.maximum"][fz])), y)


def defuzzified(H, v, T=None):
    """the value an enabled output variable takes when defuzzified in heap H (scalar processing; the batch form is C12)"""
    fz = H["OutputVariable.fuzzy"][v]
    T = H["Aggregated.terms"] if T is None else T
    dv = xr2x(defuzz_val(H["OutputVariable.defuzzifier"][v], H["Aggregated.minimum"][fz], H["Aggregated.maximum"][fz], H["Aggregated.aggregation"][fz], T[fz]))
    held = xr2x(H["Variable._value"][v])
    raw = xr.ite(dv.nan, xr.ite(H["OutputVariable.lock_previous"][v], held, xr.const(float("nan"))), dv)
    return x2xr(commit_value(H, v, raw))


class DefuzzifyContract(Contract):
    """variable.OutputVariable.defuzzify() at call sites (proved in C12 for batches of any length; used here for one row):
    disabled -> nothing; no defuzzifier -> ValueError with the state unchanged; else previous_value := value held, value := cascade"""
    modifies = ("Variable._value", "OutputVariable.previous_value")

    def call(s, ex, p, recv, args, kwargs, node):
        H = p.heap
        v = recv.r
        en = H["Variable.enabled"][v]
        fz = H["OutputVariable.fuzzy"][v]
        q = p.fork(); q.pc += [en, H["OutputVariable.defuzzifier"][v] == NONE]
        ex.raised.append((q, "ValueError"))
        q2 = p.fork(); q2.pc += [en, H["OutputVariable.defuzzifier"][v] != NONE]
        ex.raised.append((q2, "DefuzzifierFailure"))
        p.pc.append(z3.Implies(en, H["OutputVariable.defuzzifier"][v] != NONE))
        for t in (H["Variable._value"][v], H["OutputVariable.default_value"][v], H["Aggregated.minimum"][fz], H["Aggregated.maximum"][fz]):
            p.pc.append(canon(t))
        dvt = defuzz_val(H["OutputVariable.defuzzifier"][v], H["Aggregated.minimum"][fz], H["Aggregated.maximum"][fz], H["Aggregated.aggregation"][fz], H["Aggregated.terms"][fz])
        p.pc.append(canon(dvt))
        newv = defuzzified(H, v)
        p.heap = dict(H)
        p.heap["Variable._value"] = z3.Store(H["Variable._value"], v, z3.If(en, newv, H["Variable._value"][v]))
        p.heap["OutputVariable.previous_value"] = z3.Store(H["OutputVariable.previous_value"], v, z3.If(en, H["Variable._value"][v], H["OutputVariable.previous_value"][v]))
        ex.writes |= {"Variable._value", "OutputVariable.previous_value"}
        return None


# ---------------------------------------------------------------------------------------------------- loaders (C13; their bodies are C16's subject)
parse_ant = z3.Function("parse_ant", Str, Ref, Ref)             # the expression tree Antecedent.load builds from (text, engine)
ok_ant = z3.Function("ok_ant", Str, Ref, z3.BoolSort())         # whether that text is accepted for that engine
parse_cons = z3.Function("parse_cons", Str, Ref, SeqRef)
ok_cons = z3.Function("ok_cons", Str, Ref, z3.BoolSort())


class AntecedentLoad(Contract):
    """Antecedent.load(engine): unloads first; then either raises (SyntaxError/ValueError) leaving the antecedent unloaded, or stores the
    expression parsed from the CURRENT text for THAT engine.  (load-atomicity and acceptance are obligations of C16.)"""
    modifies = ("Antecedent.expression",)

    def call(s, ex, p, recv, args, kwargs, node):
        H = p.heap
        a, eng = recv.r, args[0].r
        txt = H["Antecedent.text"][a]
        q = p.fork(); q.pc.append(z3.Not(ok_ant(txt, eng)))
        q.heap = dict(H); q.heap["Antecedent.expression"] = z3.Store(H["Antecedent.expression"], a, NONE)
        ex.raised.append((q, "SyntaxError"))
        p.pc += [ok_ant(txt, eng), parse_ant(txt, eng) != NONE]
        p.heap = dict(H); p.heap["Antecedent.expression"] = z3.Store(H["Antecedent.expression"], a, parse_ant(txt, eng))
        ex.writes.add("Antecedent.expression")
        return None


class ConsequentLoad(Contract):
    modifies = ("Consequent.conclusions",)

    def call(s, ex, p, recv, args, kwargs, node):
        H = p.heap
        c, eng = recv.r, args[0].r
        txt = H["Consequent.text"][c]
        q = p.fork(); q.pc.append(z3.Not(ok_cons(txt, eng)))
        q.heap = dict(H); q.heap["Consequent.conclusions"] = z3.Store(H["Consequent.conclusions"], c, z3.Empty(SeqRef))
        ex.raised.append((q, "SyntaxError"))
        p.pc += [ok_cons(txt, eng), z3.Length(parse_cons(txt, eng)) > 0]
        p.heap = dict(H); p.heap["Consequent.conclusions"] = z3.Store(H["Consequent.conclusions"], c, parse_cons(txt, eng))
        ex.writes.add("Consequent.conclusions")
        return None


def fresh_rule_state(H0, H, r, eng):
    """rule r in heap H is exactly as a fresh load against engine `eng` leaves it: deactivated, and loaded from its current texts iff they are
    accepted (an unaccepted rule is left unloaded)"""
    a, c = H0["Rule.antecedent"][r], H0["Rule.consequent"][r]
    ta, tc = H0["Antecedent.text"][a], H0["Consequent.text"][c]
    return z3.And(H["Rule.activation_degree"][r] == x2xr(xr.const(0.0)), z3.Not(H["Rule.triggered"][r]),
                  H["Antecedent.expression"][a] == z3.If(ok_ant(ta, eng), parse_ant(ta, eng), NONE),
                  H["Consequent.conclusions"][c] == z3.If(z3.And(ok_ant(ta, eng), ok_cons(tc, eng)), parse_cons(tc, eng), z3.Empty(SeqRef)))
